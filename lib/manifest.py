#!/usr/bin/env python3
"""Generates MANIFEST.json from lib/checks.json (one place to edit), validates it against the schema."""
import json, sys, subprocess
props=[json.loads(l) for l in open('/verif/properties.jsonl')]
cfg=json.load(open('/verif/lib/checks.json'))
checks=[]; na=[]
for p in props:
    c=cfg['checks'].get(p['id'])
    if c is None or c.get('disabled'):
        na.append({"property_id":p['id'],"reason":(c or {}).get('reason') or cfg['na_default']})
        continue
    checks.append({
        "property_id":p['id'],
        "quick_cmd":f"./check {p['id']} --tier quick",
        "thorough_cmd":f"./check {p['id']} --tier thorough",
        "evidence_file":f"/verif/evidence/{p['id']}.json",
        "replay_cmd_template":f"./check {p['id']} --replay {{path}}",
        "engine":"verif-harness",
        "level_claimed":{"category":c['level'],"text":c['text'],"design_ref":c['design_ref']},
        "level_note":c['note'],
        "technique":c['technique'],
    })
m={"version":1,
   "setup_cmd":"./setup.sh",
   "hooks":{"guard":"verif","enable":"go build -tags verif (the harness module replaces github.com/bloxapp/ssv with /repo)",
            "baseline_off_cmd":cfg['baseline_off_cmd'],"source_commits":cfg['hook_commits'],"add_only":True},
   "engines":[{"name":"verif-harness","path":"/verif/harness","serves_properties":[c['property_id'] for c in checks],
               "kind_free_text":"Go harness module linking the real ssv packages from /repo; child-process-per-batch monitors (reference models, history checkers, porcupine, race detector)"}],
   "checks":checks,
   "notes":cfg['notes'],
   "not_applicable":na}
json.dump(m,open('/verif/MANIFEST.json','w'),indent=1)
import jsonschema
jsonschema.validate(m,json.load(open('/root/.vp/MANIFEST.schema.json')))
print("MANIFEST ok:",len(checks),"checks,",len(na),"not_applicable")
# consistency: the level each check writes into its evidence must equal the manifest's category
import os
for c in checks:
    f=c['evidence_file']
    if os.path.exists(f):
        e=json.load(open(f))
        if e['level']!=c['level_claimed']['category']:
            print("WARNING: evidence level of",c['property_id'],"is",e['level'],"but manifest says",c['level_claimed']['category'])
