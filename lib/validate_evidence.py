#!/usr/bin/env python3
import json,sys,glob,jsonschema
s=json.load(open('/root/.vp/EVIDENCE.schema.json'))
for f in (sys.argv[1:] or sorted(glob.glob('/verif/evidence/*.json'))):
    e=json.load(open(f)); jsonschema.validate(e,s)
    c=e['coverage']; print(f, 'ok', e['tier'], 'evals',c.get('evaluations'),'nontrivial',c.get('distinct_nontrivial'),'viol',e.get('violations'),'wall',round(e['wall_s'],1))
