#!/bin/bash
# lib/scratch.sh new <name>            -> creates /tmp/vscratch-<name>/{repo,harness,out}: a private copy of /repo's working
#                                          tree (no .git) and of the harness whose go.mod replaces ssv with that copy
# lib/scratch.sh run <name> <ID> [check args]  -> builds the scratch harness against the scratch repo and runs the check there
#                                          (evidence/replays go to /tmp/vscratch-<name>/out, /verif is not touched)
# lib/scratch.sh rm <name>             -> deletes it
# Env: VERIF_DEVCMD=dev_c13 builds ./cmd/dev_c13 instead of ./cmd/verif
set -e
. /verif/lib/env.sh
cmd=$1; name=$2; S=/tmp/vscratch-$name
case "$cmd" in
 new)
  rm -rf "$S"; mkdir -p "$S/out"
  rsync -a --exclude .git /repo/ "$S/repo/"
  ;;
 run)
  shift 2; ID=$1; shift
  mkdir -p "$S/harness" "$S/out/build/bin"
  rsync -a --delete --exclude go.mod --exclude go.sum --exclude go.mod.gen /verif/harness/ "$S/harness/"
  { sed -e 's#^module github.com/bloxapp/ssv$#module verifharness#' "$S/repo/go.mod"; echo; echo 'require github.com/bloxapp/ssv v0.0.0'; echo 'require github.com/anishathalye/porcupine v1.3.0'; echo "replace github.com/bloxapp/ssv => $S/repo"; } > "$S/harness/go.mod"
  cp "$S/repo/go.sum" "$S/harness/go.sum"
  [ -f "$OVERLAY" ] || gen_overlay
  C=${VERIF_DEVCMD:-verif}
  (cd "$S/harness" && go build -tags verif -overlay "$OVERLAY" -o "$S/out/build/bin/$C" ./cmd/$C) || { echo "BUILD FAILED"; exit 2; }
  RACE=()
  if grep -qx "$ID" /verif/lib/race_lanes.txt; then
    (cd "$S/harness" && go build -tags verif -overlay "$OVERLAY" -race -o "$S/out/build/bin/$C.race" ./cmd/$C) || { echo "BUILD FAILED"; exit 2; }
    RACE=(-racebin "$S/out/build/bin/$C.race")
  fi
  VERIF_OUT="$S/out" exec "$S/out/build/bin/$C" "$ID" "${RACE[@]}" "$@"
  ;;
 rm) rm -rf "$S";;
 *) echo "usage: scratch.sh new|run|rm <name> ..."; exit 2;;
esac
