#!/bin/bash
# lib/run_all.sh [tier] : run every registered check once (sequentially), print one line per check
cd /verif; tier=${1:-quick}
for id in $(python3 -c "import json;print(' '.join(c['property_id'] for c in json.load(open('/verif/MANIFEST.json'))['checks']))"); do
  s=$(date +%s); out=$(./check $id --tier $tier 2>&1); rc=$?; e=$(( $(date +%s)-s ))
  echo "$id rc=$rc ${e}s $(echo "$out" | grep -E "^$id tier" | cut -c1-150) known=$(echo "$out" | grep -c '^KNOWN-FINDING') viol_lines=$(echo "$out" | grep -c '^VIOLATION')"
done
