#!/usr/bin/env python3
# rewrites the generated part of DESIGN.md section 20 (between the markers) from lib/cost_table.py
import subprocess, os, re
root = os.path.dirname(os.path.dirname(os.path.abspath(__file__)))
tab = subprocess.run(["python3", os.path.join(root, "lib/cost_table.py")], capture_output=True, text=True).stdout
p = os.path.join(root, "DESIGN.md")
s = open(p).read()
b, e = "<!-- cost-table:begin -->", "<!-- cost-table:end -->"
if b not in s:
    raise SystemExit("markers missing")
s = s[:s.index(b) + len(b)] + "\n" + tab + s[s.index(e):]
open(p, "w").write(s)
