#!/usr/bin/env python3
# prints the markdown lane table of DESIGN section 20 from `build/bin/verif -lanes` and the wall times in evidence/*.json
import json, subprocess, os
root = os.path.dirname(os.path.dirname(os.path.abspath(__file__)))
out = subprocess.run([os.path.join(root, "build/bin/verif"), "-lanes"], capture_output=True, text=True).stdout
walls = {}
for f in sorted(os.listdir(os.path.join(root, "evidence"))):
    if f.endswith(".json"):
        d = json.load(open(os.path.join(root, "evidence", f)))
        walls[d["property_id"]] = (d.get("tier"), d.get("wall_s"), d["coverage"].get("evaluations"))
print("| check | lane | build | quick: children x cases | thorough: children x cases |")
print("|---|---|---|---|---|")
for line in out.splitlines():
    i, lane, fl, qc, qn, tc, tn = line.split()
    print(f"| {i} | {lane} | {'plain' if fl == '-' else fl} | {qc} x {qn} | {tc} x {tn} |")
print()
print("| check | last quick run: evaluations | wall (s) |")
print("|---|---|---|")
for i, (tier, w, ev) in walls.items():
    if tier == "quick":
        print(f"| {i} | {ev} | {w:.0f} |")
