#!/bin/bash
# lib/seed_verify.sh <id> <pkg-of-demo> <TestName> [extra pkgs to regression-test...]
# Confirms, in the sub-agent's scratch worktree /tmp/seed-<id>, that (1) the tree with the patch builds, (2) the demo FAILS
# with the patch, (3) the demo PASSES without it, (4) the named packages' existing tests pass with the patch
# (the demo excluded). Prints a summary; copies SEED/ to /verif/seeded/<ID>/ when all four hold.
set -u
export GOFLAGS=-mod=mod GOPROXY=off GOSUMDB=off GOTOOLCHAIN=local
id=$1; pkg=$2; tn=$3; shift 3
W=${SEED_W:-/tmp/seed-$id}; OV=/tmp/seedtools/overlay.json   # second-round seeds: SEED_W=/tmp/seed2-c01 SEED_NAME=C01b
cd $W || exit 2
[ -f SEED/patch.diff ] || { echo "no SEED/patch.diff"; exit 2; }
# normalise: make sure patch is applied
git apply --check -R SEED/patch.diff 2>/dev/null || git apply SEED/patch.diff || { echo "cannot apply patch"; exit 2; }
echo "== build with patch"; go build -overlay $OV ./... 2>&1 | grep -v "memsize\|^#\|ld:\|NOTE:" | head -5
echo "== demo WITH patch (expect FAIL)"
go test -overlay $OV -count=1 -vet=off -run "^$tn\$" $pkg > /tmp/seedv-$id-with.log 2>&1; rcw=$?
tail -3 /tmp/seedv-$id-with.log
echo "== existing tests with patch (demo excluded)"
rce=0
for p in $pkg "$@"; do
  go test -overlay $OV -count=1 -vet=off -skip "^($tn${SEED_SKIP:+|$SEED_SKIP})\$" $p > /tmp/seedv-$id-ex.log 2>&1 || { rce=1; echo "FAIL in $p:"; grep -E "^(--- FAIL|FAIL|panic)" /tmp/seedv-$id-ex.log | head -10; }
done
echo "== demo WITHOUT patch (expect PASS)"
git apply -R SEED/patch.diff
go test -overlay $OV -count=1 -vet=off -run "^$tn\$" $pkg > /tmp/seedv-$id-without.log 2>&1; rco=$?
tail -3 /tmp/seedv-$id-without.log
git apply SEED/patch.diff
echo "SUMMARY id=$id demo_with_patch_rc=$rcw demo_without_patch_rc=$rco existing_tests_rc=$rce"
if [ $rcw -ne 0 ] && [ $rco -eq 0 ] && [ $rce -eq 0 ]; then
  ID=${SEED_NAME:-$(echo $id | tr a-z A-Z)}; mkdir -p /verif/seeded/$ID; cp -r SEED/* /verif/seeded/$ID/; echo "kept -> /verif/seeded/$ID"
fi
rm -f /tmp/seedv-$id-*.log
