# sourced by ./check and setup: build environment for the harness (offline)
export GOFLAGS=-mod=mod GOPROXY=off GOSUMDB=off GOTOOLCHAIN=local
export VERIF_ROOT=/verif
export REPO=${VERIF_REPO:-/repo}
export BUILD=$VERIF_ROOT/build
export OVERLAY=$BUILD/overlay/overlay.json
export GOCACHE=${GOCACHE:-$(go env GOCACHE)}

# generate the -overlay that makes quic-go / qtls (never executed by any harness) compile on go >= 1.21
gen_overlay() {
  local gm; gm=$(go env GOMODCACHE)
  local d=$BUILD/overlay; mkdir -p "$d"
  local q121=$gm/github.com/quic-go/quic-go@v0.33.0/internal/qtls/go121.go
  local qun=$gm/github.com/quic-go/qtls-go1-20@v0.2.3/unsafe.go
  printf '//go:build go1.21\n\npackage qtls\n' > "$d/go121.go"
  # same file, minus the init() layout self-check (and the now unused crypto/tls import)
  python3 - "$qun" "$d/unsafe.go" <<'PY'
import re,sys
s=open(sys.argv[1]).read()
s=re.sub(r'func init\(\) \{.*?\n\}\n','',s,count=1,flags=re.S)
s=s.replace('\t"crypto/tls"\n','')
open(sys.argv[2],'w').write(s)
PY
  printf '{"Replace":{"%s":"%s","%s":"%s"}}\n' "$q121" "$d/go121.go" "$qun" "$d/unsafe.go" > "$OVERLAY"
}

# regenerate harness/go.mod from the repo's go.mod (so the repo's replace lines apply)
gen_gomod() {
  local h=$VERIF_ROOT/harness
  {
    sed -e 's#^module github.com/bloxapp/ssv$#module verifharness#' "$REPO/go.mod"
    echo
    echo 'require github.com/bloxapp/ssv v0.0.0'
    echo 'require github.com/anishathalye/porcupine v1.3.0'
    echo "replace github.com/bloxapp/ssv => $REPO"
  } > "$h/go.mod.new"
  if ! cmp -s "$h/go.mod.new" "$h/go.mod.gen" 2>/dev/null; then
    cp "$h/go.mod.new" "$h/go.mod.gen"; cp "$h/go.mod.new" "$h/go.mod"; cp "$REPO/go.sum" "$h/go.sum"
  fi
  rm -f "$h/go.mod.new"
  [ -f "$h/go.mod" ] || { cp "$h/go.mod.gen" "$h/go.mod"; cp "$REPO/go.sum" "$h/go.sum"; }
}
