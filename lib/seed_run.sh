#!/bin/bash
# lib/seed_run.sh <id> [check args]: run ./check <ID> against /repo + the seeded patch of /verif/seeded/<ID> (or /tmp/seed-<id>/SEED) in a scratch copy
id=$1; shift; ID=$(echo $id | tr a-z A-Z)
NAME=${SEED_NAME:-$ID}; P=/verif/seeded/$NAME/patch.diff; [ -f $P ] || P=${SEED_W:-/tmp/seed-$id}/SEED/patch.diff
cd /verif; lib/scratch.sh new s$id >/dev/null && (cd /tmp/vscratch-s$id/repo && git apply $P) || { echo "apply failed"; exit 2; }
lib/scratch.sh run s$id $ID -tier quick "$@" 2>&1 | grep -av "ld:\|^#\|NOTE:" > /tmp/seedrun-$id.log
echo "== $ID vs seeded patch $NAME: $(grep -ac "^VIOLATION" /tmp/seedrun-$id.log) VIOLATION lines"; grep -aE "^$ID tier|kind=" /tmp/seedrun-$id.log | sort | uniq -c | sort -rn | head -8
lib/scratch.sh rm s$id
