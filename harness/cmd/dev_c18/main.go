// Command dev_c18: single-property development binary for C18 (see harness/DEV.md).
package main

import (
	"os"

	"verifharness/internal/c18"
	"verifharness/internal/evid"
)

func main() { evid.Main(c18.Spec(), os.Args[2:]) } // os.Args[1] is the property id
