package main

import (
	"os"

	"verifharness/internal/c16"
	"verifharness/internal/evid"
)

func main() { evid.Main(c16.Spec(), os.Args[2:]) } // os.Args[1] is the property id
