package main

import (
	"os"
	"runtime/pprof"

	"verifharness/internal/c12"
	"verifharness/internal/evid"
)

func main() {
	if p := os.Getenv("VERIF_CPUPROF"); p != "" { // developer aid: CPU profile of a child run
		if f, err := os.Create(p); err == nil {
			_ = pprof.StartCPUProfile(f)
			defer pprof.StopCPUProfile()
		}
	}
	evid.Main(c12.Spec(), os.Args[2:]) // os.Args[1] is the property id
}
