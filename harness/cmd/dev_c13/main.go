// Command dev_c13: property C13 alone (development binary, see harness/DEV.md).
package main

import (
	"os"

	"verifharness/internal/c13"
	"verifharness/internal/evid"
)

func main() { evid.Main(c13.Spec(), os.Args[2:]) } // os.Args[1] is the property id
