// Command dev_c08: single-property development binary for C08 (see harness/DEV.md).
package main

import (
	"os"

	"verifharness/internal/c08"
	"verifharness/internal/evid"
)

func main() { evid.Main(c08.Spec(), os.Args[2:]) } // os.Args[1] is the property id
