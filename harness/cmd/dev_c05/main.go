// Command dev_c05: property C05 alone (development binary, see harness/DEV.md).
package main

import (
	"os"

	"verifharness/internal/c05"
	"verifharness/internal/evid"
)

func main() { evid.Main(c05.Spec(), os.Args[2:]) } // os.Args[1] is the property id
