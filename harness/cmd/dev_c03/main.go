// Command dev_c03: property C03 alone (development binary, see harness/DEV.md).
package main

import (
	"os"

	"verifharness/internal/c03"
	"verifharness/internal/evid"
)

func main() { evid.Main(c03.Spec(), os.Args[2:]) } // os.Args[1] is the property id
