package main

import "verifharness/internal/c11"

func init() { registry["C11"] = c11.Spec }
