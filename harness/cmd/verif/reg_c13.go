package main

import "verifharness/internal/c13"

func init() { registry["C13"] = c13.Spec }
