package main

import "verifharness/internal/c03"

func init() { registry["C03"] = c03.Spec }
