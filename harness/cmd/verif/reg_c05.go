package main

import "verifharness/internal/c05"

func init() { registry["C05"] = c05.Spec }
