package main

import "verifharness/internal/c16"

func init() { registry["C16"] = c16.Spec }
