package main

import "verifharness/internal/c04"

func init() { registry["C04"] = c04.Spec }
