package main

import "verifharness/internal/c17"

func init() { registry["C17"] = c17.Spec }
