package main

import "verifharness/internal/c08"

func init() { registry["C08"] = c08.Spec }
