package main

import "verifharness/internal/c06"

func init() { registry["C06"] = c06.Spec }
