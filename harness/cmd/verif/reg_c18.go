package main

import "verifharness/internal/c18"

func init() { registry["C18"] = c18.Spec }
