package main

import "verifharness/internal/c10"

func init() { registry["C10"] = c10.Spec }
