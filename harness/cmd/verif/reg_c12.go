package main

import "verifharness/internal/c12"

func init() { registry["C12"] = c12.Spec }
