// Command verif: one binary, one subcommand per property (single link of the ssv dependency graph).
package main

import (
	"fmt"
	"os"
	"sort"

	"verifharness/internal/evid"
)

var registry = map[string]func() *evid.Spec{}

func main() {
	if len(os.Args) < 2 {
		ids := make([]string, 0, len(registry))
		for k := range registry {
			ids = append(ids, k)
		}
		sort.Strings(ids)
		fmt.Fprintln(os.Stderr, "usage: verif <ID> [-tier quick|thorough] [-seed n] [-replay f]; ids:", ids)
		os.Exit(2)
	}
	if os.Args[1] == "-lanes" {
		// the lane table of every registered check (for DESIGN section 20): id lane flags children x cases per tier
		ids := make([]string, 0, len(registry))
		for k := range registry {
			ids = append(ids, k)
		}
		sort.Strings(ids)
		for _, id := range ids {
			for _, l := range registry[id]().Lanes {
				fl := "-"
				if l.Race {
					fl = "race"
				}
				if l.Asan {
					fl = "asan"
				}
				fmt.Printf("%s %s %s %d %d %d %d\n", id, l.Name, fl, l.Children("quick"), l.Cases("quick"), l.Children("thorough"), l.Cases("thorough"))
			}
		}
		return
	}
	mk, ok := registry[os.Args[1]]
	if !ok {
		fmt.Fprintln(os.Stderr, "unknown property", os.Args[1])
		os.Exit(2)
	}
	evid.Main(mk(), os.Args[2:])
}
