package main

import "verifharness/internal/c15"

func init() { registry["C15"] = c15.Spec }
