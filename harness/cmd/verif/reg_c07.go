package main

import "verifharness/internal/c07"

func init() { registry["C07"] = c07.Spec }
