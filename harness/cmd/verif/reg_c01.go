package main

import "verifharness/internal/c01"

func init() { registry["C01"] = c01.Spec }
