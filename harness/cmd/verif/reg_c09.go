package main

import "verifharness/internal/c09"

func init() { registry["C09"] = c09.Spec }
