package main

import "verifharness/internal/c14"

func init() { registry["C14"] = c14.Spec }
