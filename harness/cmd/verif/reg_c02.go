package main

import "verifharness/internal/c02"

func init() { registry["C02"] = c02.Spec }
