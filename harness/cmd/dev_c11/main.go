package main

import (
	"os"

	"verifharness/internal/c11"
	"verifharness/internal/evid"
)

func main() { evid.Main(c11.Spec(), os.Args[2:]) } // os.Args[1] is the property id
