// Command dev_c09: single-property development binary for C09 (see harness/DEV.md).
package main

import (
	"os"

	"verifharness/internal/c09"
	"verifharness/internal/evid"
)

func main() { evid.Main(c09.Spec(), os.Args[2:]) } // os.Args[1] is the property id
