// Command dev_c04: single-property development binary for C04 (see harness/DEV.md).
package main

import (
	"os"

	"verifharness/internal/c04"
	"verifharness/internal/evid"
)

func main() { evid.Main(c04.Spec(), os.Args[2:]) } // os.Args[1] is the property id
