// Command dev_c04: single-property development binary for C04 (see harness/DEV.md).
package main

import (
	"os"
	"runtime/pprof"

	"verifharness/internal/c04"
	"verifharness/internal/evid"
)

func main() {
	if p := os.Getenv("C04_CPUPROFILE"); p != "" { // development aid: profile one child run
		if f, err := os.Create(p); err == nil {
			_ = pprof.StartCPUProfile(f)
			defer pprof.StopCPUProfile()
		}
	}
	evid.Main(c04.Spec(), os.Args[2:]) // os.Args[1] is the property id
}
