// Package c08: no network input crashes message validation or the decoders (property C08).
//
// Runtime monitors around the real entry points (message validator through the receivedAt hook and through
// ValidatePubsubMessage / ValidateSSVMessage; envelope, network-message, queue, node-record, handshake and subnet
// decoders): (i) panic (recovered in-process for attribution; fatal errors / checkptr kill the child, whose journal
// names the input), (ii) per-call watchdog, (iii) allocation per call below 64 x len(input) + 32 MiB.
// Workload: a structure-aware, seed-determined generator (raw bytes, valid encodings with bit flips / truncations /
// SSZ offset edits, structurally valid messages with hostile field values) against validators holding known, unknown,
// liquidated, metadata-less and non-attesting validators, before and after histories of accepted messages, in both
// envelope phases.
package c08

import (
	"context"
	"encoding/binary"
	"encoding/hex"
	"fmt"
	"math/rand"
	"runtime"
	"runtime/debug"
	"strings"
	"time"

	"github.com/attestantio/go-eth2-client/spec/phase0"
	specqbft "github.com/bloxapp/ssv-spec/qbft"
	spectypes "github.com/bloxapp/ssv-spec/types"
	pubsub "github.com/libp2p/go-libp2p-pubsub"
	"github.com/libp2p/go-libp2p/core/crypto"
	"github.com/libp2p/go-libp2p/core/peer"
	"github.com/libp2p/go-libp2p/core/record"

	"github.com/bloxapp/ssv/message/validation"
	"github.com/bloxapp/ssv/network/commons"
	"github.com/bloxapp/ssv/network/records"
	"github.com/bloxapp/ssv/protocol/v2/ssv/queue"

	"verifharness/internal/evid"
	"verifharness/internal/vsim"
)

const (
	allocSlack    = 32 << 20
	allocPerByte  = 64
	callWatchdog  = 120 * time.Second
	journalMaxHex = 3000
	// Subnets.FromString allocates ~215 bytes per input character (fmt / strconv garbage per nibble): linear, i.e.
	// bounded, but above the 64 x len slope of the monitor. The generated strings stay in the region where that linear
	// cost is inside the 32 MiB slack; max_alloc_bytes_per_call / max_alloc_per_input_byte_x100 record what was seen.
	maxSubnetString = 100_000
)

func Spec() *evid.Spec {
	return &evid.Spec{
		ID:    "C08",
		Level: "exploration",
		Rule: "each case = one generated input (class: raw bytes | mutated valid encoding (bit flips, truncation, SSZ offset edits) | structurally valid consensus / partial-signature / " +
			"ssv-message / envelope with 1-2 hostile field values | hostile node records / handshake payloads / subnet strings) fed to its applicable targets " +
			"(validator via receivedAt hook pre/post envelope phase, ValidatePubsubMessage, ValidateSSVMessage, 3 message decoders, 4 record decoders, Subnets.FromString), " +
			"on a fresh validator after a replayed honest prefix (0..whole duty) or on a long-lived validator that accumulated every earlier input. " +
			"Monitors: recovered panic, per-call watchdog, TotalAlloc delta per call. non-trivial/distinct = (target, input class, result class incl. validation error text)",
		Assumptions: []string{
			"a hang is reported only if the single input reproduces it three times; a watchdog that fires once is inconclusive",
			"allocation is measured with runtime.ReadMemStats around a call executed alone (the monitor goroutine blocks meanwhile); badger's background goroutines add noise far below the 32 MiB slack",
			"ValidatePubsubMessage / ValidateSSVMessage read time.Now(): they are crash/alloc targets only, no verdict depends on them",
		},
		MinNontrivial: 60,
		Lanes: []evid.Lane{
			{Name: "fuzz", Children: evid.Const(16, 16), Cases: evid.Const(8000, 312500), TimeoutS: evid.Const(900, 7200), Setup: setup, Run: run},
			{Name: "fuzz-asan", Asan: true, Children: evid.Const(0, 16), Cases: evid.Const(0, 20000), TimeoutS: evid.Const(1200, 7200), Setup: setup, Run: run},
			{Name: "fuzz-race", Race: true, Children: evid.Const(16, 16), Cases: evid.Const(1000, 30000), TimeoutS: evid.Const(1200, 7200), Setup: setup, Run: run},
		},
	}
}

// ---- per-child environment -------------------------------------------------------------------------------------------

type env struct {
	w      *vsim.World
	pool   []*vsim.Msg   // honest messages (all roles, validators of every kind)
	duties [][]*vsim.Msg // the same grouped by duty (for prefixes)
	shared [2]validation.MessageValidator
	// records
	netKey      crypto.PrivKey
	sealedNI    []byte
	sealedSNI   []byte
	niPayload   []byte
	sniPayload  []byte
	realNowSlot func() phase0.Slot
}

func setup(ch *evid.Child) {
	w := vsim.NewWorld()
	e := &env{w: w}
	slot := w.BaseSlot() + 8 // divisible by 4, not by 7
	add := func(ms []*vsim.Msg) {
		e.duties = append(e.duties, ms)
		e.pool = append(e.pool, ms...)
	}
	k4 := w.Vals[vsim.Known4]
	for _, role := range vsim.AllRoles {
		add(w.Duty(k4, role, slot, vsim.Profile{Target: 1}))
	}
	add(w.Duty(k4, spectypes.BNRoleAttester, slot+4, vsim.Profile{Target: 3, PreparedFrom: 2}))
	add(w.Duty(k4, spectypes.BNRoleProposer, slot+7, vsim.Profile{Target: 2}))
	k7 := w.Vals[vsim.Known7]
	add(w.Duty(k7, spectypes.BNRoleAttester, slot+6, vsim.Profile{Target: 1})) // BaseSlot+14: divisible by 7
	add(w.Duty(k7, spectypes.BNRoleProposer, slot+1, vsim.Profile{Target: 2}))
	add(w.Duty(k7, spectypes.BNRoleSyncCommitteeContribution, slot+2, vsim.Profile{Target: 1}))
	for _, kind := range []vsim.ValKind{vsim.Unknown, vsim.Liquidated, vsim.NoMetadata, vsim.NotAttesting} {
		add(w.Duty(w.Vals[kind], spectypes.BNRoleAttester, slot, vsim.Profile{Target: 1}))
		add(w.Duty(w.Vals[kind], spectypes.BNRoleProposer, slot, vsim.Profile{Target: 1}))
	}
	e.shared[0] = w.NewValidator(false, 1)
	e.shared[1] = w.NewValidator(true, 1)

	// records: one honestly sealed NodeInfo and SignedNodeInfo
	sk, _, err := crypto.GenerateSecp256k1Key(nil)
	if err != nil {
		panic(err)
	}
	e.netKey = sk
	pid, _ := peer.IDFromPrivateKey(sk)
	ni := &records.NodeInfo{NetworkID: "0x00003012", Metadata: &records.NodeMetadata{NodeVersion: "v1.2.3", ExecutionNode: "geth/x", ConsensusNode: "lighthouse/y", Subnets: records.AllSubnets}}
	e.sealedNI, err = ni.Seal(sk)
	if err != nil {
		panic(err)
	}
	e.niPayload, _ = ni.MarshalRecord()
	sni := &records.SignedNodeInfo{NodeInfo: ni, HandshakeData: records.HandshakeData{SenderPeerID: pid, RecipientPeerID: pid, Timestamp: time.Unix(1700000000, 0), SenderPublicKey: w.Ops[1].PubB64},
		Signature: make([]byte, 256)}
	e.sealedSNI, err = sni.Seal(sk)
	if err != nil {
		panic(err)
	}
	e.sniPayload, _ = sni.MarshalRecord()
	ch.Data = e
}

// ---- monitors ------------------------------------------------------------------------------------------------------------

type outcome struct {
	res    string
	pan    any
	stack  string
	hung   bool
	allocB uint64
}

func guarded(fn func() string) outcome {
	done := make(chan outcome, 1)
	go func() {
		var o outcome
		defer func() {
			if r := recover(); r != nil {
				o.pan = r
				o.stack = string(debug.Stack())
			}
			done <- o
		}()
		o.res = fn()
	}()
	t := time.NewTimer(callWatchdog)
	defer t.Stop()
	select {
	case o := <-done:
		return o
	case <-t.C:
		return outcome{hung: true}
	}
}

func journalOf(in []byte) string {
	if len(in)*2 <= journalMaxHex {
		return hex.EncodeToString(in)
	}
	return fmt.Sprintf("len=%d head=%s digest=%x (replay the case with -only to regenerate)", len(in), hex.EncodeToString(in[:64]), evid.Hash(in))
}

// panicSite: the innermost frames of ssv / ssv-spec code on the panicking stack.
func panicSite(stack string) string {
	lines := strings.Split(stack, "\n")
	var fns []string
	past := false
	for _, l := range lines {
		if strings.HasPrefix(l, "\t") || l == "" {
			continue
		}
		if strings.HasPrefix(l, "panic(") {
			past = true
			fns = fns[:0]
			continue
		}
		if !past {
			continue
		}
		if i := strings.LastIndex(l, "("); i > 0 {
			l = l[:i]
		}
		if strings.Contains(l, "verifharness/") {
			break
		}
		if strings.HasPrefix(l, "github.com/bloxapp/") || strings.HasPrefix(l, "github.com/ferranbt/") || strings.HasPrefix(l, "github.com/libp2p/") || strings.HasPrefix(l, "github.com/prysmaticlabs/") {
			l = strings.TrimPrefix(l, "github.com/bloxapp/")
			fns = append(fns, l)
			if len(fns) == 2 {
				break
			}
		}
	}
	if len(fns) == 0 {
		return "unknown-site"
	}
	return strings.Join(fns, "<-")
}

// call runs one monitored call. feature is a stable description of what is hostile in the input (used in signatures).
func (e *env) call(c *evid.Case, target, class, feature string, in []byte, fn func() string) string {
	c.Journal("%s [%s] %s", target, class, journalOf(in))
	var m0, m1 runtime.MemStats
	runtime.ReadMemStats(&m0)
	o := guarded(fn)
	runtime.ReadMemStats(&m1)
	c.Count("calls", 1)
	c.Count("calls/"+target, 1)
	if o.hung {
		hangs := 1
		for i := 0; i < 3; i++ {
			if guarded(fn).hung {
				hangs++
			}
		}
		if hangs == 4 {
			c.Violation("hang", target+"/"+class, fmt.Sprintf("%s did not return within %v for this input, reproduced 3 times (feature: %s)", target, callWatchdog, feature),
				map[string]any{"target": target, "class": class, "input_hex": journalOf(in)})
		} else {
			c.Inconclusive(fmt.Sprintf("%s: per-call watchdog fired but the input did not hang again (%d/4)", target, hangs))
		}
		return "hang"
	}
	if o.pan != nil {
		site := panicSite(o.stack)
		c.Count("panics", 1)
		st := o.stack
		if len(st) > 2500 {
			st = st[:2500]
		}
		c.Violation("panic", site+"/"+feature, fmt.Sprintf("%s panicked: %v\ninput class %s, feature %s\ninput: %s\n%s", target, o.pan, class, feature, journalOf(in), st),
			map[string]any{"target": target, "class": class, "feature": feature, "panic": fmt.Sprint(o.pan), "input_hex": journalOf(in)})
		return "panic"
	}
	delta := m1.TotalAlloc - m0.TotalAlloc
	c.Max("max_alloc_bytes_per_call", int64(delta))
	if len(in) >= 4096 {
		c.Max("max_alloc_per_input_byte_x100(inputs>=4KiB)", int64(delta*100/uint64(len(in))))
	}
	if delta > uint64(allocPerByte*len(in)+allocSlack) {
		c.Violation("unbounded-allocation", target+"/"+class, fmt.Sprintf("%s allocated %d bytes for an input of %d bytes (bound %d); feature %s", target, delta, len(in), allocPerByte*len(in)+allocSlack, feature),
			map[string]any{"target": target, "class": class, "input_hex": journalOf(in), "alloc": delta})
	}
	c.Count("result/"+target+"/"+resClass(o.res), 1)
	h := evid.Hash(target, class, o.res)
	c.Nontrivial(h)
	c.Distinct("target_class", evid.Hash(target, class))
	c.Distinct("target_class_result", h)
	c.Distinct("result_texts", evid.Hash(o.res))
	return o.res
}

func resClass(r string) string {
	if i := strings.Index(r, ":"); i > 0 {
		return r[:i]
	}
	return r
}

func resString(r vsim.Result) string {
	switch r.Res {
	case pubsub.ValidationAccept:
		return "accept"
	case pubsub.ValidationIgnore:
		return "ignore:" + r.ErrText()
	}
	return "reject:" + r.ErrText()
}

// ---- the case -----------------------------------------------------------------------------------------------------------

// input is one generated network input.
type input struct {
	class   string
	feature string
	topic   string
	post    bool
	wire    []byte                // bytes on pubsub
	ssv     *spectypes.SSVMessage // for the ValidateSSVMessage targets (nil: decode from wire if possible)
	at      time.Time
	prefix  []*vsim.Msg // honest history replayed first (fresh validator)
}

func run(c *evid.Case) {
	e := c.Child.Data.(*env)
	rng := c.Rng
	switch k := rng.Intn(100); {
	case k < 8:
		e.runMessage(c, e.genRaw(rng))
	case k < 24:
		e.runMessage(c, e.genMutated(rng))
	case k < 58:
		e.runMessage(c, e.genHostileConsensus(rng))
	case k < 72:
		e.runMessage(c, e.genHostilePartial(rng))
	case k < 84:
		e.runMessage(c, e.genHostileOuter(rng))
	case k < 94:
		e.runRecords(c, rng)
	default:
		e.runSubnets(c, rng)
	}
}

func (e *env) runMessage(c *evid.Case, in *input) {
	rng := c.Rng
	w := e.w
	c.Count("inputs", 1)
	countClass(c, in.class)
	ph := "pre"
	if in.post {
		ph = "post"
	}
	// decoders (every input)
	e.call(c, "commons.DecodeSignedSSVMessage", in.class, in.feature, in.wire, func() string {
		_, _, _, err := commons.DecodeSignedSSVMessage(in.wire)
		return okErr(err)
	})
	payload := in.wire
	if in.post {
		if p, _, _, err := commons.DecodeSignedSSVMessage(in.wire); err == nil {
			payload = p
		}
	}
	var dec *spectypes.SSVMessage
	e.call(c, "commons.DecodeNetworkMsg", in.class, in.feature, payload, func() string {
		m, err := commons.DecodeNetworkMsg(payload)
		dec = m
		return okErr(err)
	})
	ssv := in.ssv
	if ssv == nil {
		ssv = dec
	}
	if ssv != nil {
		e.call(c, "queue.DecodeSSVMessage", in.class, in.feature, ssv.Data, func() string {
			_, err := queue.DecodeSSVMessage(ssv)
			return okErr(err)
		})
	}

	// validators: fresh + replayed honest prefix, or the long-lived one
	var mv validation.MessageValidator
	hist := "fresh"
	if rng.Intn(5) == 0 {
		mv = e.shared[b2i(in.post)]
		hist = "accumulated"
	} else {
		mv = w.NewValidator(in.post, spectypes.OperatorID(rng.Intn(3))) // 0: no own operator id
		if len(in.prefix) > 0 {
			hist = "after-prefix"
			c.Journal("replaying %d honest messages", len(in.prefix))
			for _, m := range in.prefix {
				r := w.ValidateAt(mv, m.Pubsub(w, in.post), m.At)
				if r.Accepted() {
					c.Count("prefix_messages_accepted", 1)
				}
			}
		}
	}
	c.Count("history/"+hist, 1)
	c.Distinct("class_history", evid.Hash(in.class, hist, ph))
	res := e.call(c, "validator.hook/"+ph, in.class, in.feature, in.wire, func() string {
		return resString(w.ValidateAt(mv, vsim.Pubsub(in.topic, in.wire), in.at))
	})
	if res == "accept" {
		c.Count("hostile_inputs_accepted", 1)
	}
	// the same input a second time (after itself in the history)
	if rng.Intn(4) == 0 {
		e.call(c, "validator.hook/"+ph, in.class+"+repeat", in.feature, in.wire, func() string {
			return resString(w.ValidateAt(mv, vsim.Pubsub(in.topic, in.wire), in.at.Add(time.Second)))
		})
	}
	if ssv != nil && rng.Intn(3) == 0 {
		e.call(c, "validator.ssv-hook/"+ph, in.class, in.feature, ssv.Data, func() string {
			return resString(w.ValidateSSVAt(mv, ssv, in.at))
		})
	}
	if rng.Intn(4) == 0 {
		// the production entry points (reception time = time.Now(): monitors only)
		e.call(c, "ValidatePubsubMessage/"+ph, in.class, in.feature, in.wire, func() string {
			r := mv.ValidatePubsubMessage(context.Background(), peer.ID("p"), vsim.Pubsub(in.topic, in.wire))
			return []string{"accept", "reject", "ignore", "throttle"}[int(r)%4]
		})
		if ssv != nil {
			e.call(c, "ValidateSSVMessage/"+ph, in.class, in.feature, ssv.Data, func() string {
				_, _, err := mv.ValidateSSVMessage(ssv)
				return okErr(err)
			})
		}
	}
	if c.Index < 3 && c.Idx == 0 {
		c.Sample(map[string]any{"class": in.class, "feature": in.feature, "phase": ph, "history": hist, "result": res, "len": len(in.wire)})
	}
}

// countClass: counters by top-level input class and by single hostile feature (the full combination only goes into
// the distinct sets).
func countClass(c *evid.Case, class string) {
	top, rest, _ := strings.Cut(class, "/")
	c.Count("inputs/"+top, 1)
	for _, f := range strings.Split(rest, "+") {
		if f != "" {
			c.Count("feature/"+top+"/"+f, 1)
		}
	}
}

func okErr(err error) string {
	if err != nil {
		return "err"
	}
	return "ok"
}

func b2i(b bool) int {
	if b {
		return 1
	}
	return 0
}

// ---- generators ------------------------------------------------------------------------------------------------------------

func (e *env) pick(rng *rand.Rand, want func(*vsim.Msg) bool) (*vsim.Msg, []*vsim.Msg) {
	for try := 0; try < 200; try++ {
		d := e.duties[rng.Intn(len(e.duties))]
		i := rng.Intn(len(d))
		if want == nil || want(d[i]) {
			var prefix []*vsim.Msg
			switch rng.Intn(4) {
			case 0: // empty history
			case 1:
				prefix = d[:i]
			case 2:
				prefix = d[:rng.Intn(i+1)]
			default:
				prefix = d[:i+1] // the honest original itself is already in the history
			}
			return d[i], prefix
		}
	}
	panic("no message in pool")
}

func (e *env) genRaw(rng *rand.Rand) *input {
	n := rng.Intn(400)
	switch rng.Intn(12) {
	case 0:
		n = 0
	case 1:
		n = 264 + rng.Intn(8)
	case 2:
		n = 60 + rng.Intn(16)
	case 3:
		n = 1000 + rng.Intn(70000)
	}
	b := make([]byte, n)
	rng.Read(b)
	if rng.Intn(3) == 0 { // mostly zero
		for i := range b {
			if rng.Intn(8) != 0 {
				b[i] = 0
			}
		}
	}
	m, _ := e.pick(rng, nil)
	return &input{class: "raw", feature: "raw", topic: m.Val.Topic(), post: rng.Intn(2) == 0, wire: b, at: m.At}
}

// sszOffsets lists the positions of the 4-byte SSZ offsets of an encoded SSVMessage carrying a consensus / partial body.
func sszOffsets(payload []byte, cons bool) []int {
	pos := []int{64}
	const body = 68
	if len(payload) < body+108 {
		return pos
	}
	if cons {
		pos = append(pos, body+96, body+100, body+104)
		mo := int(binary.LittleEndian.Uint32(payload[body+100:]))
		if mo > 0 && body+mo+76 <= len(payload) {
			m := body + mo
			pos = append(pos, m+24, m+68, m+72)
			for _, lo := range []int{m + 68, m + 72} {
				l := m + int(binary.LittleEndian.Uint32(payload[lo:]))
				if l+4 <= len(payload) && l > 0 {
					pos = append(pos, l) // first element offset of the justification list (= 4*count)
					if l+8 <= len(payload) {
						pos = append(pos, l+4)
					}
				}
			}
		}
	} else {
		pos = append(pos, body, body+16) // SignedPartialSignatureMessage: offset of Message; inside Message: offset of Messages
	}
	return pos
}

func (e *env) genMutated(rng *rand.Rand) *input {
	m, prefix := e.pick(rng, nil)
	post := rng.Intn(2) == 0
	payload := append([]byte(nil), vsim.EncodeSSV(m.SSV)...)
	feature := ""
	switch k := rng.Intn(10); {
	case k < 3:
		nf := 1 + rng.Intn(4)
		for i := 0; i < nf; i++ {
			p := rng.Intn(len(payload))
			payload[p] ^= 1 << uint(rng.Intn(8))
		}
		feature = "bitflip"
	case k < 5:
		payload = payload[:rng.Intn(len(payload))]
		feature = "truncated"
	case k < 6:
		ext := make([]byte, 1+rng.Intn(64))
		rng.Read(ext)
		payload = append(payload, ext...)
		feature = "extended"
	default:
		offs := sszOffsets(payload, m.Cons != nil)
		n := 1 + rng.Intn(2)
		for i := 0; i < n; i++ {
			p := offs[rng.Intn(len(offs))]
			if p+4 > len(payload) {
				continue
			}
			cur := binary.LittleEndian.Uint32(payload[p:])
			vals := []uint32{0, 1, 4, cur - 1, cur + 1, cur + 4, cur - 4, uint32(len(payload)), uint32(len(payload)) + 1, uint32(len(payload)) - 68, 0xffffffff, 0x7fffffff, 0x80000000,
				4 * 13, 4 * 14, 4 * 1000, 4 * 1_000_000, uint32(rng.Intn(len(payload) + 8))}
			binary.LittleEndian.PutUint32(payload[p:], vals[rng.Intn(len(vals))])
		}
		feature = "ssz-offset"
	}
	wire := payload
	if post {
		if rng.Intn(3) == 0 {
			// keep the honest envelope signature (now wrong) / or damage the envelope itself
			wire = append([]byte(nil), m.WireBytes(e.w, true)...)
			if rng.Intn(2) == 0 && len(wire) > 264 {
				copy(wire[264:], payload)
				if len(payload) < len(wire)-264 {
					wire = wire[:264+len(payload)]
				}
			} else {
				wire = wire[:rng.Intn(len(wire))]
				feature += "+envelope-truncated"
			}
		} else {
			wire = e.w.SignEnvelope(payload, m.Sender)
		}
	}
	return &input{class: "mutated-valid/" + feature, feature: feature, topic: m.Val.Topic(), post: post, wire: wire, at: m.At, prefix: prefix}
}

var hostileU64 = []uint64{0, 1, 2, 6, 7, 12, 13, 255, 1 << 31, 1 << 32, 1<<63 - 1, 1 << 63, 1<<63 + 1, 1<<63 + 3, 1<<63 + 4, 1<<64 - 2, 1<<64 - 1}

func roundClass(r specqbft.Round, role spectypes.BeaconRole) string {
	switch {
	case r == 0:
		return "round=0"
	case uint64(r) >= 1<<63:
		return "round>=2^63"
	case r > vsim.MaxRound(role):
		return "round>max"
	}
	return "round-in-range"
}

func heightClass(h specqbft.Height) string {
	if uint64(h) >= 1<<63 {
		return "height>=2^63"
	}
	return "height<2^63"
}

func typeName(t specqbft.MessageType) string {
	switch t {
	case specqbft.ProposalMsgType:
		return "proposal"
	case specqbft.PrepareMsgType:
		return "prepare"
	case specqbft.CommitMsgType:
		return "commit"
	case specqbft.RoundChangeMsgType:
		return "round-change"
	}
	return "unknown-type"
}

// spliceSigners rewrites the signer list of an encoded SignedMessage to n entries by editing the SSZ bytes (lists
// longer than the SSZ maximum cannot be produced by the encoder).
func spliceSigners(enc []byte, ids []uint64) []byte {
	if len(enc) < 108 {
		return enc
	}
	so := int(binary.LittleEndian.Uint32(enc[96:]))
	mo := int(binary.LittleEndian.Uint32(enc[100:]))
	fo := int(binary.LittleEndian.Uint32(enc[104:]))
	if so != 108 || mo < so || mo > len(enc) || fo > len(enc) {
		return enc
	}
	out := append([]byte(nil), enc[:108]...)
	for _, id := range ids {
		var b [8]byte
		binary.LittleEndian.PutUint64(b[:], id)
		out = append(out, b[:]...)
	}
	delta := len(ids)*8 - (mo - so)
	out = append(out, enc[mo:]...)
	binary.LittleEndian.PutUint32(out[100:], uint32(mo+delta))
	binary.LittleEndian.PutUint32(out[104:], uint32(fo+delta))
	return out
}

func (e *env) genHostileConsensus(rng *rand.Rand) *input {
	m0, prefix := e.pick(rng, func(m *vsim.Msg) bool { return m.Cons != nil })
	m := m0.Clone()
	sm := m.Cons
	v := m.Val
	n := uint64(v.N)
	at := m.At
	var feats []string
	rawSigners := []uint64(nil)
	resign := rng.Intn(4) != 0
	nmut := 1 + rng.Intn(2)
	for i := 0; i < nmut; i++ {
		switch k := rng.Intn(20); {
		case k < 5: // round
			rs := []uint64{0, 0, 0, 1, uint64(vsim.MaxRound(m.Role)), uint64(vsim.MaxRound(m.Role)) + 1, 1<<63 - 1, 1 << 63, 1<<63 + uint64(rng.Intn(16)), 1<<64 - 1, 1<<64 - 1 - uint64(rng.Intn(8)), uint64(rng.Intn(16))}
			sm.Message.Round = specqbft.Round(rs[rng.Intn(len(rs))])
			feats = append(feats, "round")
		case k < 9: // height
			h := uint64(sm.Message.Height)
			hs := []uint64{0, n, h - h%n, h - h%n + n, n * uint64(rng.Intn(1<<20)), 1<<64 - 1, 1<<64 - 1 - (1<<64-1)%n, h + 1<<62, h + 1<<63, h - h%n + 1<<63, 1 << 63, 1<<63 + uint64(rng.Intn(8)), h + 1, h - 1, h + 40, h - 40}
			nh := hs[rng.Intn(len(hs))]
			sm.Message.Height = specqbft.Height(nh)
			if nh < 1<<40 && nh > 0 {
				at = e.w.Beacon.GetSlotStartTime(phase0.Slot(nh)).Add(m.At.Sub(e.w.Beacon.GetSlotStartTime(m.Slot)))
			}
			if m.Role == spectypes.BNRoleProposer && nh < 1<<40 {
				e.w.AddProposerDuty(v, phase0.Slot(nh))
			}
			feats = append(feats, "height")
		case k < 12: // signers
			q := uint64(v.Quorum())
			var ids []uint64
			switch rng.Intn(10) {
			case 0:
				ids = []uint64{}
			case 1:
				ids = []uint64{0}
			case 2:
				first := uint64(1)
				if len(sm.Signers) > 0 {
					first = uint64(sm.Signers[0])
				}
				ids = []uint64{first, first}
			case 3:
				for i := q; i >= 1; i-- {
					ids = append(ids, i)
				}
			case 4:
				for i := uint64(1); i <= 14; i++ {
					ids = append(ids, i)
				}
			case 5:
				for i := uint64(1); i <= n+1; i++ {
					ids = append(ids, i)
				}
			case 6:
				ids = []uint64{99}
			case 7:
				ids = []uint64{1<<64 - 1, 0}
			case 8:
				for i := uint64(1); i <= q; i++ {
					ids = append(ids, i)
				}
				if rng.Intn(2) == 0 {
					ids[rng.Intn(len(ids))] = 0
				}
			default:
				for i := 0; i < rng.Intn(14); i++ {
					ids = append(ids, uint64(rng.Intn(int(n)+2)))
				}
			}
			rawSigners = ids
			if len(ids) <= 13 {
				sm.Signers = append([]spectypes.OperatorID{}, ids...)
			}
			feats = append(feats, "signers")
		case k < 13: // message type
			ts := []uint64{4, 5, 255, 1 << 32, 1 << 63, 1<<64 - 1, uint64(rng.Intn(4))}
			sm.Message.MsgType = specqbft.MessageType(ts[rng.Intn(len(ts))])
			feats = append(feats, "msgtype")
		case k < 14: // identifier / root / data round
			switch rng.Intn(5) {
			case 0:
				sm.Message.Identifier = nil
			case 1:
				sm.Message.Identifier = sm.Message.Identifier[:rng.Intn(len(sm.Message.Identifier)+1)]
			case 2:
				id := e.w.Vals[vsim.AllKinds[rng.Intn(len(vsim.AllKinds))]].MsgID(vsim.AllRoles[rng.Intn(len(vsim.AllRoles))])
				sm.Message.Identifier = id[:]
			case 3:
				rng.Read(sm.Message.Root[:])
			default:
				sm.Message.DataRound = specqbft.Round(hostileU64[rng.Intn(len(hostileU64))])
			}
			feats = append(feats, "ident-root-dataround")
		case k < 18: // justifications
			feats = append(feats, e.mutJustifications(rng, m0, sm))
		case k < 19: // full data
			sizes := []int{0, 1, 31, 32, 1000, 65536, 1 << 20, 5243144, 5243145, 6291829 - 400}
			var sz int
			if rng.Intn(12) == 0 {
				sz = sizes[rng.Intn(len(sizes))]
			} else {
				sz = sizes[rng.Intn(5)]
			}
			fd := make([]byte, sz)
			if sz > 0 {
				fd[0] = 'V'
				fd[sz-1] = byte(rng.Intn(256))
			}
			sm.FullData = fd
			if rng.Intn(2) == 0 {
				if r, err := specqbft.HashDataRoot(fd); err == nil {
					sm.Message.Root = r
				}
			}
			feats = append(feats, fmt.Sprintf("fulldata-%d", sz))
		default: // signature
			if rng.Intn(2) == 0 {
				sm.Signature = make([]byte, 96)
			} else {
				rng.Read(sm.Signature)
			}
			resign = false
			feats = append(feats, "signature")
		}
	}
	if resign {
		vsim.Resign(v, sm)
	}
	enc, err := sm.Encode()
	if err != nil {
		// not encodable (list / data above the SSZ maximum): fall back to the honest encoding with spliced signers
		enc, _ = m0.Cons.Encode()
		feats = append(feats, "unencodable")
	}
	if rawSigners != nil && len(rawSigners) > 13 {
		enc = spliceSigners(enc, rawSigners)
	}
	m.SSV.Data = enc
	post := rng.Intn(2) == 0
	feature := fmt.Sprintf("%s,%s,%s,signers=%d", typeName(sm.Message.MsgType), roundClass(sm.Message.Round, m.Role), heightClass(sm.Message.Height), len(sm.Signers))
	return &input{class: "hostile-consensus/" + strings.Join(feats, "+"), feature: feature, topic: m.Val.Topic(), post: post, wire: e.w.Wire(m.SSV, m.Sender, post), ssv: m.SSV, at: at, prefix: prefix}
}

// mutJustifications damages the justification lists of sm (adds lists where the message type has none).
func (e *env) mutJustifications(rng *rand.Rand, honest *vsim.Msg, sm *specqbft.SignedMessage) string {
	// material: encodings of other honest consensus messages of the same duty
	var material [][]byte
	for _, d := range e.duties {
		if d[0].Val == honest.Val && d[0].Role == honest.Role && d[0].Slot == honest.Slot {
			for _, x := range d {
				if x.Cons != nil {
					b, _ := x.Cons.Encode()
					material = append(material, b)
				}
			}
		}
	}
	if len(material) == 0 {
		b, _ := honest.Cons.Encode()
		material = append(material, b)
	}
	target := &sm.Message.RoundChangeJustification
	name := "rcj"
	if rng.Intn(2) == 0 {
		target = &sm.Message.PrepareJustification
		name = "pj"
	}
	list := append([][]byte(nil), (*target)...)
	op := rng.Intn(9)
	switch op {
	case 0: // truncate the list
		if len(list) > 0 {
			list = list[:rng.Intn(len(list))]
		}
	case 1: // truncate a member
		if len(list) > 0 {
			i := rng.Intn(len(list))
			list[i] = list[i][:rng.Intn(len(list[i])+1)]
		} else {
			list = [][]byte{material[0][:rng.Intn(len(material[0]))]}
		}
	case 2: // undecodable member
		b := make([]byte, rng.Intn(200))
		rng.Read(b)
		list = append(list, b)
	case 3: // nested: whole messages (with their own justifications and full data) as members
		for i := 0; i < 1+rng.Intn(4); i++ {
			list = append(list, material[rng.Intn(len(material))])
		}
	case 4: // 13 members (the maximum)
		for len(list) < 13 {
			list = append(list, material[rng.Intn(len(material))])
		}
	case 5: // empty member
		list = append(list, []byte{})
	case 6: // duplicates
		if len(list) > 0 {
			list = append(list, list[0], list[0])
		} else {
			list = [][]byte{material[0], material[0]}
		}
	case 7: // a member whose own justification list nests this message again (depth 3)
		inner := &specqbft.SignedMessage{}
		if inner.Decode(material[rng.Intn(len(material))]) == nil {
			inner.Message.RoundChangeJustification = [][]byte{material[rng.Intn(len(material))], material[rng.Intn(len(material))]}
			inner.Message.PrepareJustification = [][]byte{material[0]}
			if b, err := inner.Encode(); err == nil && len(b) < 65000 {
				list = append(list, b)
			}
		}
	default: // members with hostile rounds / heights / signers
		inner := &specqbft.SignedMessage{}
		if inner.Decode(material[rng.Intn(len(material))]) == nil {
			switch rng.Intn(4) {
			case 0:
				inner.Message.Round = specqbft.Round(hostileU64[rng.Intn(len(hostileU64))])
			case 1:
				inner.Message.Height = specqbft.Height(hostileU64[rng.Intn(len(hostileU64))])
			case 2:
				inner.Signers = nil
			default:
				inner.Message.DataRound = specqbft.Round(hostileU64[rng.Intn(len(hostileU64))])
			}
			if b, err := inner.Encode(); err == nil {
				if len(list) > 0 {
					list[rng.Intn(len(list))] = b
				} else {
					list = append(list, b)
				}
			}
		}
	}
	if len(list) > 13 {
		list = list[:13]
	}
	*target = list
	return fmt.Sprintf("%s-op%d", name, op)
}

func (e *env) genHostilePartial(rng *rand.Rand) *input {
	m0, prefix := e.pick(rng, func(m *vsim.Msg) bool { return m.Part != nil })
	m := m0.Clone()
	p := m.Part
	v := m.Val
	var feats []string
	resign := rng.Intn(4) != 0
	nmut := 1 + rng.Intn(2)
	for i := 0; i < nmut; i++ {
		switch rng.Intn(6) {
		case 0:
			ts := []uint64{0, 1, 2, 3, 4, 5, 6, 7, 255, 1 << 63, 1<<64 - 1}
			p.Message.Type = spectypes.PartialSigMsgType(ts[rng.Intn(len(ts))])
			feats = append(feats, "type")
		case 1:
			s := uint64(p.Message.Slot)
			ss := []uint64{0, 1<<64 - 1, s + 1, s - 1, s + 1<<62, s + 1<<63, s + 100, s - 100, 1 << 63}
			p.Message.Slot = phase0.Slot(ss[rng.Intn(len(ss))])
			feats = append(feats, "slot")
		case 2:
			if len(p.Message.Messages) == 0 {
				p.Message.Messages = m0.Clone().Part.Message.Messages
			}
			switch rng.Intn(6) {
			case 0:
				p.Message.Messages = nil
			case 1:
				for len(p.Message.Messages) < 13 {
					x := *p.Message.Messages[0]
					rng.Read(x.SigningRoot[:])
					p.Message.Messages = append(p.Message.Messages, &x)
				}
			case 2:
				for len(p.Message.Messages) < 14 { // above the SSZ maximum: unencodable, falls back below
					x := *p.Message.Messages[0]
					p.Message.Messages = append(p.Message.Messages, &x)
				}
			case 3:
				x := *p.Message.Messages[0]
				p.Message.Messages = append(p.Message.Messages, &x) // duplicated root
			case 4:
				p.Message.Messages[0].Signer = spectypes.OperatorID(hostileU64[rng.Intn(len(hostileU64))])
			default:
				p.Message.Messages[0].PartialSignature = make([]byte, 96)
			}
			feats = append(feats, "messages")
		case 3:
			ids := []uint64{0, 99, uint64(v.N) + 1, 1<<64 - 1, uint64(1 + rng.Intn(v.N))}
			p.Signer = spectypes.OperatorID(ids[rng.Intn(len(ids))])
			if rng.Intn(2) == 0 {
				for _, x := range p.Message.Messages {
					x.Signer = p.Signer
				}
			}
			feats = append(feats, "signer")
		case 4:
			p.Signature = make([]byte, 96)
			resign = false
			feats = append(feats, "zero-signature")
		default:
			// role / type confusion: partial body under another role's message id
			m.SSV.MsgID = v.MsgID(vsim.AllRoles[rng.Intn(len(vsim.AllRoles))])
			feats = append(feats, "role")
		}
	}
	if resign {
		vsim.SignPartialOuter(v, p, m0.Sender)
	}
	enc, err := p.Encode()
	if err != nil {
		enc, _ = m0.Part.Encode()
		feats = append(feats, "unencodable")
	}
	m.SSV.Data = enc
	post := rng.Intn(2) == 0
	feature := fmt.Sprintf("partial,type=%d,msgs=%d", uint64(p.Message.Type)&0xff, len(p.Message.Messages))
	return &input{class: "hostile-partial/" + strings.Join(feats, "+"), feature: feature, topic: m.Val.Topic(), post: post, wire: e.w.Wire(m.SSV, m.Sender, post), ssv: m.SSV, at: m.At, prefix: prefix}
}

// genHostileOuter: hostile SSVMessage header (type, role byte, domain, validator key), envelope and topic.
func (e *env) genHostileOuter(rng *rand.Rand) *input {
	m0, prefix := e.pick(rng, nil)
	m := m0.Clone()
	post := rng.Intn(2) == 0
	topic := m.Val.Topic()
	feat := ""
	var wire []byte
	switch k := rng.Intn(12); {
	case k == 0:
		ts := []uint64{1, 0, 2, 3, 200, 201, 1 << 63, 1<<64 - 1}
		m.SSV.MsgType = spectypes.MsgType(ts[rng.Intn(len(ts))])
		feat = fmt.Sprintf("ssv-msgtype-%d", uint64(m.SSV.MsgType)&0xffff)
	case k == 1:
		rs := []uint32{7, 8, 255, 1 << 31, 1<<32 - 1, uint32(rng.Intn(7))}
		var id spectypes.MessageID
		copy(id[:], m.SSV.MsgID[:])
		binary.LittleEndian.PutUint32(id[52:], rs[rng.Intn(len(rs))])
		m.SSV.MsgID = id
		feat = "role-byte"
	case k == 2:
		rng.Read(m.SSV.MsgID[:4])
		feat = "domain"
	case k == 3:
		switch rng.Intn(3) {
		case 0:
			rng.Read(m.SSV.MsgID[4:52])
		case 1:
			for i := 4; i < 52; i++ {
				m.SSV.MsgID[i] = 0
			}
		default:
			m.SSV.MsgID[4] |= 0xe0 // flag bits of a compressed point
		}
		if rng.Intn(2) == 0 {
			topic = commons.GetTopicFullName(commons.ValidatorTopicID(m.SSV.MsgID.GetPubKey())[0])
		}
		feat = "validator-key"
	case k == 4:
		m.SSV.Data = nil
		feat = "empty-data"
	case k == 5:
		// consensus body under a role that has no consensus (validator registration / voluntary exit) and vice versa
		m.SSV.MsgID = m.Val.MsgID(vsim.AllRoles[rng.Intn(len(vsim.AllRoles))])
		feat = "role-swap"
	case k == 6:
		ts := []string{"", "ssv.v2.", "ssv.v2.unknown", "ssv.v2.-1", "ssv.v2.128", "unknown", strings.Repeat("ssv.v2.", 2000) + "5", "ssv.v2." + fmt.Sprint(rng.Intn(128)), fmt.Sprint(rng.Intn(128))}
		topic = ts[rng.Intn(len(ts))]
		feat = "topic"
	case k <= 9 && post:
		payload := vsim.EncodeSSV(m.SSV)
		switch rng.Intn(8) {
		case 7:
			// a registered operator whose stored public key is undecodable, named again and again over the child's life
			sig := make([]byte, 256)
			rng.Read(sig)
			wire = commons.EncodeSignedSSVMessage(payload, []spectypes.OperatorID{vsim.BadKeyOperatorA, vsim.BadKeyOperatorB}[rng.Intn(2)], sig)
			feat = "envelope-operator-with-undecodable-registered-key"
		case 0:
			wire = commons.EncodeSignedSSVMessage(payload, 0, make([]byte, 256))
			feat = "envelope-zero"
		case 1:
			sig, _ := e.w.Ops[vsim.UnregisteredOperator].Priv.Sign(payload)
			wire = commons.EncodeSignedSSVMessage(payload, vsim.UnregisteredOperator, sig)
			feat = "envelope-unregistered"
		case 2:
			sig, _ := e.w.Ops[m.Sender].Priv.Sign(payload)
			wire = commons.EncodeSignedSSVMessage(payload, spectypes.OperatorID(hostileU64[rng.Intn(len(hostileU64))]), sig)
			feat = "envelope-operator-id"
		case 3:
			sig := make([]byte, 256)
			rng.Read(sig)
			wire = commons.EncodeSignedSSVMessage(payload, m.Sender, sig)
			feat = "envelope-random-signature"
		case 4:
			wire = e.w.SignEnvelope(payload, m.Sender)
			wire = wire[:rng.Intn(265)]
			feat = "envelope-short"
		case 5:
			wire = e.w.SignEnvelope(payload, 8) // registered, in no committee
			feat = "envelope-foreign-operator"
		default:
			wire = payload // no envelope at all in the envelope phase
			feat = "envelope-missing"
		}
	default:
		// an enveloped message before the envelope phase / double envelope
		payload := vsim.EncodeSSV(m.SSV)
		wire = e.w.SignEnvelope(payload, m.Sender)
		if post {
			wire = e.w.SignEnvelope(wire, m.Sender)
		}
		feat = "envelope-phase-confusion"
	}
	if wire == nil {
		wire = e.w.Wire(m.SSV, m.Sender, post)
	}
	return &input{class: "hostile-outer/" + feat, feature: feat, topic: topic, post: post, wire: wire, ssv: m.SSV, at: m.At, prefix: prefix}
}

// ---- records / handshake payloads -----------------------------------------------------------------------------------

// hostileRecord is a libp2p record with the node-info codec / domain and an arbitrary payload: sealing it gives a
// correctly signed envelope, so Consume gets past the envelope signature and reaches UnmarshalRecord.
type hostileRecord struct{ payload []byte }

func (h *hostileRecord) Domain() string                 { return "ssv" }
func (h *hostileRecord) Codec() []byte                  { return []byte("ssv/nodeinfo") }
func (h *hostileRecord) MarshalRecord() ([]byte, error) { return h.payload, nil }
func (h *hostileRecord) UnmarshalRecord([]byte) error   { return nil }

func (e *env) hostileJSON(rng *rand.Rand, signed bool) ([]byte, string) {
	base := e.niPayload
	if signed {
		base = e.sniPayload
	}
	b := append([]byte(nil), base...)
	switch k := rng.Intn(14); k {
	case 0:
		return []byte(`{"Entries":null}`), "entries-null"
	case 1:
		return []byte(`{"Entries":[]}`), "entries-empty"
	case 2:
		n := rng.Intn(7)
		s := `{"Entries":[`
		for i := 0; i < n; i++ {
			if i > 0 {
				s += ","
			}
			s += `"x"`
		}
		return []byte(s + `]}`), "entries-short"
	case 3:
		return []byte(`{"Entries":["","","99999999999999999999999999","","",""]}`), "timestamp-overflow"
	case 4:
		return []byte(`{"Entries":["!!!","","1","","",""]}`), "bad-base64"
	case 5:
		return []byte(`{"Entries":["","","-9223372036854775808","","","{\"Entries\":[\"\",\"n\",\"{\\\"Subnets\\\":5}\"]}"]}`), "nested-bad-metadata"
	case 6:
		return []byte(`{"Entries":["","n","{\"NodeVersion\":{},\"Subnets\":[1,2]}"]}`), "metadata-wrong-types"
	case 7:
		return []byte(strings.Repeat("[", 20000)), "deep-nesting"
	case 8:
		return []byte(`{"Entries":[1,2,3,4,5,6]}`), "entries-non-string"
	case 9:
		big := strings.Repeat("A", 1+rng.Intn(200000))
		return []byte(`{"Entries":["` + big + `","` + big + `","1","` + big + `","` + big + `","{\"Entries\":[\"\",\"` + big + `\",\"{}\"]}"]}`), "huge-strings"
	case 10:
		return b[:rng.Intn(len(b))], "truncated-json"
	case 11:
		for i := 0; i < 1+rng.Intn(4); i++ {
			b[rng.Intn(len(b))] ^= 1 << uint(rng.Intn(8))
		}
		return b, "bitflip-json"
	case 12:
		return []byte(`{"Entries":["","n","{\"Subnets\":\"` + strings.Repeat("f", rng.Intn(5000)) + `zz\"}"]}`), "metadata-subnets-garbage"
	default:
		r := make([]byte, rng.Intn(300))
		rng.Read(r)
		return r, "random-bytes"
	}
}

func (e *env) runRecords(c *evid.Case, rng *rand.Rand) {
	signed := rng.Intn(2) == 0
	name := "NodeInfo"
	if signed {
		name = "SignedNodeInfo"
	}
	newRec := func() records.AnyNodeInfo {
		if signed {
			return &records.SignedNodeInfo{}
		}
		return &records.NodeInfo{}
	}
	c.Count("inputs", 1)
	// (a) UnmarshalRecord on a hostile payload
	pl, feat := e.hostileJSON(rng, signed)
	class := "record/" + feat
	countClass(c, class)
	e.call(c, "records."+name+".UnmarshalRecord", class, feat, pl, func() string {
		r := newRec()
		err := r.UnmarshalRecord(pl)
		if err == nil {
			touch(r)
		}
		return okErr(err)
	})
	// (b) Consume: correctly sealed envelope around the hostile payload / damaged honest envelope / raw bytes
	var env []byte
	switch rng.Intn(4) {
	case 0:
		ev, err := record.Seal(&hostileRecord{payload: pl}, e.netKey)
		if err == nil {
			env, _ = ev.Marshal()
		}
		class = "sealed-record/" + feat
	case 1:
		src := e.sealedNI
		if signed {
			src = e.sealedSNI
		}
		env = append([]byte(nil), src...)
		if rng.Intn(2) == 0 {
			env = env[:rng.Intn(len(env))]
			class = "envelope/truncated"
		} else {
			for i := 0; i < 1+rng.Intn(3); i++ {
				env[rng.Intn(len(env))] ^= 1 << uint(rng.Intn(8))
			}
			class = "envelope/bitflip"
		}
	case 2:
		// the other record type's honest envelope (type confusion between permissioned / permissionless handshakes)
		env = e.sealedSNI
		if signed {
			env = e.sealedNI
		}
		class = "envelope/other-type"
	default:
		env = make([]byte, rng.Intn(400))
		rng.Read(env)
		class = "envelope/raw"
	}
	countClass(c, class)
	e.call(c, "records."+name+".Consume", class, feat, env, func() string {
		r := newRec()
		err := r.Consume(env)
		if err == nil {
			touch(r)
		}
		return okErr(err)
	})
}

// touch does what the handshaker does with a consumed record: reads the node info and parses its subnets.
func touch(r records.AnyNodeInfo) {
	ni := r.GetNodeInfo()
	if ni != nil && ni.Metadata != nil {
		if s, err := (records.Subnets{}).FromString(ni.Metadata.Subnets); err == nil {
			_ = s.String()
			_ = s.Active()
		}
	}
}

func (e *env) runSubnets(c *evid.Case, rng *rand.Rand) {
	var s, feat string
	switch rng.Intn(8) {
	case 0:
		s, feat = "", "empty"
	case 1:
		s, feat = records.AllSubnets[:rng.Intn(33)], "prefix"
	case 2:
		s, feat = "0x"+records.AllSubnets, "0x"
	case 3:
		s, feat = strings.Repeat("0x", rng.Intn(40)), "0x-repeated"
	case 4:
		b := make([]byte, rng.Intn(64))
		rng.Read(b)
		s, feat = string(b), "random-bytes"
	case 5:
		lim := maxSubnetString
		if c.Lane.Race {
			lim /= 8 // ~100x slower per character under the race detector on a loaded machine
		}
		s, feat = strings.Repeat("f", rng.Intn(lim)), "long-hex"
	case 6:
		s, feat = "zz"+records.ZeroSubnets, "non-hex"
	default:
		b := make([]byte, rng.Intn(40))
		rng.Read(b)
		s, feat = hex.EncodeToString(b), "random-hex"
		if rng.Intn(2) == 0 && len(s) > 0 {
			s = s[:len(s)-1] // odd length
		}
	}
	c.Count("inputs", 1)
	countClass(c, "subnets/"+feat)
	e.call(c, "records.Subnets.FromString", "subnets/"+feat, feat, []byte(s), func() string {
		v, err := (records.Subnets{}).FromString(s)
		if err == nil {
			_ = v.String()
			_ = records.SharedSubnets(v, v, 0)
		}
		return okErr(err)
	})
}
