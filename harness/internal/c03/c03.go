// Package c03: validator-key signatures are released only over the decided, validated duty data (property C03).
//
// Workload: histories on the duty cluster simulator (internal/dsim): real duty runners of N operators run real
// consensus over real duty data while the harness interleaves duty starts (fresh, repeated, stale, far-future, for another
// validator), pre-consensus messages (valid, wrong slot, wrong role, replayed), genuine decided messages for past / future
// heights, for the running height with a valid or an invalid value, for another validator's or another role's identifier,
// Byzantine consensus traffic, and post-consensus messages before / after the decision and after Finished. Driven
// through Runner.Process* directly, through Validator.ProcessMessage, and through Validator.HandleMessage + the real
// queue consumers.
//
// Oracle: over the recorded KeyManager.SignBeaconObject events only (see judge).
package c03

import (
	"bytes"
	"fmt"
	"math/rand"
	"sort"
	"strings"

	"github.com/attestantio/go-eth2-client/spec/phase0"
	specqbft "github.com/bloxapp/ssv-spec/qbft"
	spectypes "github.com/bloxapp/ssv-spec/types"
	"github.com/bloxapp/ssv-spec/types/testingutils"

	"verifharness/internal/dsim"
	"verifharness/internal/evid"
	"verifharness/internal/oracle"
	"verifharness/internal/qsim"
)

func Spec() *evid.Spec {
	lane := func(name, mode string, q, t int) evid.Lane {
		return evid.Lane{Name: name, Children: evid.Const(16, 16), Cases: evid.Const(q, t), TimeoutS: evid.Const(900, 7200),
			Setup: func(ch *evid.Child) { ch.Data = dsim.NewEnv() }, Run: func(c *evid.Case) { runHistory(c, mode) }}
	}
	return &evid.Spec{
		ID:    "C03",
		Level: "exploration",
		Rule: "one case = one history on the duty cluster simulator: role in {attester, proposer full/blinded capella/deneb, aggregator, sync committee, contribution} x N in {4,7} x 0..f adversary-controlled operators; " +
			"real runners + real QBFT; a seeded scheduler interleaves deliveries (reorder, drop, duplicate, timeouts) with a stimulus catalogue (duty starts fresh/repeated/stale/future/other-validator, pre-consensus valid/wrong-slot/wrong-role/replayed, " +
			"decided messages past/future/now-valid/now-invalid/other-validator/other-role, evict-and-redecide, Byzantine proposals/prepares/commits/round-changes, post-consensus early/valid/wrong-slot/after-Finished). " +
			"Lanes: runner (Runner.Process*), validator (Validator.ProcessMessage), queue (HandleMessage + real consumer goroutines). The oracle judges every KeyManager.SignBeaconObject call. " +
			"Non-trivial = history in which at least one illegal-looking stimulus was delivered AND at least one legitimate signature was released; distinct = (role, N, lane, set of delivered stimulus classes, signature count).",
		Assumptions: []string{
			"the spec value-check functions (ssv-spec) and SSZ hash-tree-root are the trusted base; the oracle recomputes them independently of /repo",
			"the fake beacon node's domain is the same for every epoch; far-future slots are judged against the real clock with a margin of ~2^40 slots",
			"calibration: 'the value its running consensus instance decided for the duty's slot' is read as the decision of the duty-slot height, evidenced by the running instance's decided flag or, when the controller has pushed that instance out of its two-slot container, by the verifiable quorum certificate for (role identifier, height = duty slot) being processed; a second signature for the same object in that state is reported (sig .../evicted-instance-redecided/...)",
			"queue lane: timeout events and messages addressed to another validator are not pushed (the former bypass the runner wrapper used for quiescence, the latter are routed away by the network layer in production)",
		},
		MinNontrivial: 60,
		Lanes: []evid.Lane{
			lane("runner", "runner", 22, 420),
			lane("validator", "validator", 20, 360),
			lane("queue", "queue", 8, 160),
		},
	}
}

var illegalTags = map[string]bool{
	"stale": true, "future": true, "repeated": true, "other-validator": true, "other-validator-envelope": true, "wrong-role": true, "wrong-slot": true, "replayed": true,
	"decided-past": true, "decided-future": true, "decided-invalid": true, "evict-redecide": true, "post-early": true, "post-after-finished": true,
}

type hist struct {
	c         *evid.Case
	cl        *dsim.Cluster
	env       *dsim.Env
	rng       *rand.Rand
	role      spectypes.BeaconRole
	n         int
	mode      string
	blinded   bool
	deneb     bool
	slots     []phase0.Slot
	cur       int
	next      map[spectypes.OperatorID]int // next slot index an operator will be started on
	startAt   map[spectypes.OperatorID][]int
	byz       []spectypes.OperatorID
	vpk       []byte
	id        spectypes.MessageID
	seenB     map[spectypes.OperatorID]int
	props     map[phase0.Slot][][]byte                // proposed values seen per height
	pre       map[phase0.Slot][]*spectypes.SSVMessage // honest pre-consensus broadcasts per slot
	post      map[phase0.Slot][]*spectypes.SSVMessage
	delivered map[string]int
	directed  string
	played    bool
}

func hasPre(role spectypes.BeaconRole) bool {
	return role == spectypes.BNRoleProposer || role == spectypes.BNRoleAggregator || role == spectypes.BNRoleSyncCommitteeContribution
}

func runHistory(c *evid.Case, mode string) {
	env := c.Data.(*dsim.Env)
	rng := c.Rng
	h := &hist{c: c, env: env, rng: rng, mode: mode, next: map[spectypes.OperatorID]int{}, startAt: map[spectypes.OperatorID][]int{},
		seenB: map[spectypes.OperatorID]int{}, props: map[phase0.Slot][][]byte{}, pre: map[phase0.Slot][]*spectypes.SSVMessage{}, post: map[phase0.Slot][]*spectypes.SSVMessage{},
		delivered: map[string]int{}}
	h.role = dsim.ConsensusRoles[rng.Intn(len(dsim.ConsensusRoles))]
	h.n = 4
	if rng.Intn(3) == 0 {
		h.n = 7
	}
	if h.role == spectypes.BNRoleProposer {
		h.blinded = rng.Intn(2) == 0
		h.deneb = rng.Intn(4) == 0
	}
	f := (h.n - 1) / 3
	nbyz := rng.Intn(f + 1)
	if rng.Intn(3) == 0 {
		nbyz = f
	}
	byzIdx := rng.Perm(h.n)[:nbyz]
	sort.Ints(byzIdx)
	for _, i := range byzIdx {
		h.byz = append(h.byz, spectypes.OperatorID(i+1))
	}
	nslots := 2
	if rng.Intn(4) == 0 {
		nslots = 3
	}
	if rng.Intn(8) == 0 {
		nslots = 1
	}
	for k := 0; k < nslots; k++ {
		h.slots = append(h.slots, dsim.BaseSlot(h.role, k, h.deneb))
	}
	if h.role != spectypes.BNRoleProposer && rng.Intn(10) == 0 {
		h.slots[0] = 0 // the first-slot fixtures: height 0 is special-cased by the runner
	}
	h.directed = []string{"", "", "", "evict-redecide", "invalid-decided-first", "other-height-midway", "foreign-envelope", "evict-decide-publish-fails"}[rng.Intn(8)]
	cfg := dsim.Config{N: h.n, Byz: byzIdx, Mode: mode, Blinded: h.blinded, Variants: rng.Intn(2) == 0}
	c.Journal("C03 %s role=%s N=%d byz=%v slots=%v blinded=%v deneb=%v directed=%s", mode, h.role, h.n, h.byz, h.slots, h.blinded, h.deneb, h.directed)
	cl := dsim.NewCluster(env, rng, cfg)
	defer cl.Close()
	h.cl = cl
	h.vpk = cl.KS.ValidatorPK.Serialize()
	h.id = dsim.MsgID(h.vpk, h.role)

	steps := 45*h.n + rng.Intn(30*h.n)
	if h.role == spectypes.BNRoleProposer && h.deneb {
		steps = steps * 2 / 3
	}
	// start plan: every operator starts slot k somewhere in the k-th part of the history; some never start the later ones
	for _, op := range cl.Honest() {
		for k := range h.slots {
			at := k*steps/len(h.slots) + rng.Intn(2+3*h.n)
			if k > 0 && rng.Intn(6) == 0 {
				at = steps + 1 // never
			}
			h.startAt[op.ID] = append(h.startAt[op.ID], at)
		}
	}
	for s := 0; s < steps && !cl.QueueStuck; s++ {
		h.harvest()
		h.dueStarts(s)
		h.playDirected()
		k := rng.Intn(100)
		switch {
		case k < 66:
			h.deliverOne()
		case k < 69:
			if len(cl.Pool) > 0 {
				i := rng.Intn(len(cl.Pool))
				cl.Pool = append(cl.Pool[:i], cl.Pool[i+1:]...)
				cl.Dropped++
			}
		case k < 73:
			if len(cl.Pool) > 0 {
				f := *cl.Pool[rng.Intn(len(cl.Pool))]
				cl.Pool = append(cl.Pool, &f)
				cl.Duplicated++
			}
		case k < 78:
			h.timeout()
		case k < 80:
			// fault: the next publish of one operator fails (any kind of message)
			if hs := cl.Honest(); len(hs) > 0 {
				op := hs[rng.Intn(len(hs))]
				op.FailPublish, op.FailPublishTypes = 1, nil
				h.note("publish-failure-armed")
			}
		default:
			h.stimulus()
		}
	}
	// wind down: let what is in flight arrive (bounded), helping stuck instances with timeouts
	for round := 0; round < 4 && !cl.QueueStuck; round++ {
		h.dueStarts(steps)
		cl.DrainAll(60 * h.n * h.n)
		h.harvest()
		h.playDirected()
		h.replayAfterFinished()
		if mode != "queue" {
			for _, op := range cl.Honest() {
				s := dsim.TakeSnap(op.Real[h.role])
				if s.HasInstance && !s.InstDecided && !s.Finished {
					_ = cl.FireTimeout(op, h.role)
				}
			}
		}
	}
	h.finish()
}

// harvest looks at the operators' fresh broadcasts (what an adversary on the wire sees).
func (h *hist) harvest() {
	for _, op := range h.cl.Honest() {
		bs := op.Broadcasts
		for _, b := range bs[h.seenB[op.ID]:] {
			if b.Role != h.role {
				continue
			}
			switch b.Kind {
			case "consensus":
				sm := &specqbft.SignedMessage{}
				if sm.Decode(b.Msg.Data) == nil && sm.Message.MsgType == specqbft.ProposalMsgType && len(sm.FullData) > 0 {
					s := phase0.Slot(sm.Message.Height)
					if len(h.props[s]) < 8 {
						h.props[s] = append(h.props[s], sm.FullData)
					}
				}
			case "pre", "post":
				ps := &spectypes.SignedPartialSignatureMessage{}
				if ps.Decode(b.Msg.Data) == nil {
					if b.Kind == "pre" {
						h.pre[ps.Message.Slot] = append(h.pre[ps.Message.Slot], b.Msg)
					} else {
						h.post[ps.Message.Slot] = append(h.post[ps.Message.Slot], b.Msg)
					}
				}
			}
		}
		h.seenB[op.ID] = len(bs)
	}
}

func (h *hist) dueStarts(step int) {
	for _, op := range h.cl.Honest() {
		k := h.next[op.ID]
		if k < len(h.slots) && h.startAt[op.ID][k] <= step {
			h.next[op.ID] = k + 1
			if k > h.cur {
				h.cur = k
			}
			_ = h.cl.StartDuty(op, dsim.DutyFor(h.role, h.slots[k]), "fresh", nil)
			h.note("fresh")
		}
	}
}

func (h *hist) note(tag string) { h.delivered[tag]++ }

func (h *hist) deliverOne() {
	cl := h.cl
	if len(cl.Pool) == 0 {
		return
	}
	i := 0
	if h.rng.Intn(5) < 2 {
		i = h.rng.Intn(len(cl.Pool))
	}
	tag := cl.Pool[i].Tag
	if tag == "" {
		tag = "cluster"
	}
	_ = cl.DeliverAt(i)
	h.note(tag)
}

func (h *hist) timeout() {
	if h.mode == "queue" {
		return
	}
	var cand []*dsim.Operator
	for _, op := range h.cl.Honest() {
		s := dsim.TakeSnap(op.Real[h.role])
		if s.HasInstance && !s.InstDecided && op.Timers[h.role].ArmedR != 0 && op.Timers[h.role].ArmedR < 4 {
			cand = append(cand, op)
		}
	}
	if len(cand) > 0 {
		_ = h.cl.FireTimeout(cand[h.rng.Intn(len(cand))], h.role)
		h.note("timeout")
	}
}

func (h *hist) curSlot() phase0.Slot { return h.slots[h.cur] }

func (h *hist) someHonest() []*dsim.Operator {
	hs := h.cl.Honest()
	var out []*dsim.Operator
	for _, o := range hs {
		if h.rng.Intn(2) == 0 {
			out = append(out, o)
		}
	}
	if len(out) == 0 {
		out = append(out, hs[h.rng.Intn(len(hs))])
	}
	return out
}

// send delivers a crafted message to the targets now, or puts it in flight.
func (h *hist) send(from spectypes.OperatorID, m *spectypes.SSVMessage, tag string, to []*dsim.Operator) {
	if h.rng.Intn(2) == 0 {
		for _, op := range to {
			_ = h.cl.Deliver(op, m, tag)
			h.note(tag)
		}
		return
	}
	h.cl.Inject(from, m, tag, to...)
}

func (h *hist) sender() spectypes.OperatorID {
	if len(h.byz) > 0 {
		return h.byz[h.rng.Intn(len(h.byz))]
	}
	return 0
}

// quorumSigners: all adversary-controlled operators first, filled up with correct operators' keys (the harness owns
// every share key: decided messages of other heights are genuine certificates, as late or early traffic of the same
// committee would be).
func (h *hist) quorumSigners(extra int) []spectypes.OperatorID {
	k := int(h.cl.KS.Threshold) + extra
	if k > h.n {
		k = h.n
	}
	return dsim.FirstSigners(h.n, k, h.byz...)
}

func (h *hist) decidedMsg(role spectypes.BeaconRole, vpk []byte, height phase0.Slot, value []byte, extra int) *specqbft.SignedMessage {
	id := dsim.MsgID(vpk, role)
	return h.env.Decided(h.cl.KS, id[:], specqbft.Height(height), 1, value, h.quorumSigners(extra))
}

func otherRole(r spectypes.BeaconRole, rng *rand.Rand) spectypes.BeaconRole {
	for {
		o := dsim.ConsensusRoles[rng.Intn(len(dsim.ConsensusRoles))]
		if o != r {
			return o
		}
	}
}

func (h *hist) preRoots(role spectypes.BeaconRole, slot phase0.Slot) ([][32]byte, spectypes.PartialSigMsgType) {
	exp, typ, _ := dsim.PreExpected(dsim.DutyFor(role, slot), h.cl.Ops[0].Share)
	var roots [][32]byte
	for _, e := range exp {
		roots = append(roots, e.SigningRoot)
	}
	return roots, typ
}

func (h *hist) postRoots(value []byte) [][32]byte {
	cd := &spectypes.ConsensusData{}
	if cd.Decode(value) != nil {
		return nil
	}
	exp, err := dsim.PostExpected(h.role, cd)
	if err != nil {
		return nil
	}
	var roots [][32]byte
	for _, e := range exp {
		if h.role == spectypes.BNRoleProposer && strings.HasPrefix(e.Name, "block") != !h.blindedValue(cd) {
			continue
		}
		roots = append(roots, e.SigningRoot)
	}
	return roots
}

func (h *hist) blindedValue(cd *spectypes.ConsensusData) bool {
	_, _, err := cd.GetBlindedBlockData()
	return err == nil
}

func (h *hist) stimulus() {
	rng, cl := h.rng, h.cl
	slot := h.curSlot()
	to := h.someHonest()
	from := h.sender()
	switch k := rng.Intn(100); {
	case k < 6: // repeated start
		for _, op := range to {
			_ = cl.StartDuty(op, dsim.DutyFor(h.role, slot), "repeated", nil)
			h.note("repeated")
		}
	case k < 12: // stale start
		s := h.slots[0]
		if h.cur > 0 && rng.Intn(2) == 0 {
			s = h.slots[rng.Intn(h.cur)]
		} else if s > 3 {
			s -= phase0.Slot(1 + rng.Intn(3))
		}
		for _, op := range to[:1] {
			_ = cl.StartDuty(op, dsim.DutyFor(h.role, s), "stale", nil)
			h.note("stale")
		}
	case k < 15: // far-future start
		op := to[0]
		_ = cl.StartDuty(op, dsim.DutyFor(h.role, phase0.Slot(1)<<40+phase0.Slot(rng.Intn(64))), "future", nil)
		h.note("future")
	case k < 20: // duty start addressed to another validator
		if h.mode != "validator" {
			return
		}
		d := dsim.DutyFor(h.role, slot)
		copy(d.PubKey[:], dsim.OtherValidatorPK())
		if rng.Intn(2) == 0 {
			d = dsim.DutyFor(h.role, slot+phase0.Slot(32*(1+rng.Intn(3)))) // a later duty of ours, wrongly addressed
		}
		id := dsim.MsgID(dsim.OtherValidatorPK(), h.role)
		for _, op := range to[:1] {
			_ = cl.StartDuty(op, d, "other-validator", &id)
			h.note("other-validator")
		}
	case k < 32: // pre-consensus traffic
		h.preStimulus(from, to)
	case k < 62: // decided messages
		h.decidedStimulus(from, to)
	case k < 80: // Byzantine consensus traffic for the running height
		h.byzConsensus(to)
	default:
		h.postStimulus(from, to)
	}
}

func (h *hist) preStimulus(from spectypes.OperatorID, to []*dsim.Operator) {
	rng := h.rng
	slot := h.curSlot()
	if from == 0 {
		from = spectypes.OperatorID(1 + rng.Intn(h.n)) // no adversary-controlled operator: replays and junk only make sense from someone
	}
	switch k := rng.Intn(5); {
	case k == 0 && hasPre(h.role) && len(h.byz) > 0: // the adversary's own correct share
		roots, typ := h.preRoots(h.role, slot)
		h.send(from, dsim.WrapPartial(h.id, h.env.PartialSigMsg(h.cl.KS, from, typ, slot, roots)), "byz-valid", to)
	case k == 1 && hasPre(h.role): // wrong slot
		s := slot + phase0.Slot(1+rng.Intn(40))
		if rng.Intn(2) == 0 && slot > 2 {
			s = slot - phase0.Slot(1+rng.Intn(2))
		}
		roots, typ := h.preRoots(h.role, s)
		msgSlot := s
		if rng.Intn(3) == 0 {
			msgSlot = slot // claims the running slot, signs another slot's object
		}
		h.send(from, dsim.WrapPartial(h.id, h.env.PartialSigMsg(h.cl.KS, from, typ, msgSlot, roots)), "wrong-slot", to)
	case k == 2: // another role's pre-consensus message under this role's id, or this role's under another id
		var o spectypes.BeaconRole
		for {
			o = dsim.AllRoles[rng.Intn(len(dsim.AllRoles))]
			if o != h.role && (hasPre(o) || o == spectypes.BNRoleValidatorRegistration || o == spectypes.BNRoleVoluntaryExit) {
				break
			}
		}
		roots, typ := h.preRoots(o, slot)
		id := h.id
		if hasPre(h.role) && rng.Intn(2) == 0 {
			roots, typ = h.preRoots(h.role, slot)
			id = dsim.MsgID(h.vpk, o)
		}
		h.send(from, dsim.WrapPartial(id, h.env.PartialSigMsg(h.cl.KS, from, typ, slot, roots)), "wrong-role", to)
	case k == 3 && h.cur > 0: // replay of an earlier slot's pre-consensus message
		old := h.pre[h.slots[rng.Intn(h.cur)]]
		if len(old) > 0 {
			h.send(from, old[rng.Intn(len(old))], "replayed", to)
		}
	default: // garbage signature for the right root
		if !hasPre(h.role) {
			return
		}
		roots, typ := h.preRoots(h.role, slot)
		ps := h.env.PartialSigMsg(h.cl.KS, from, typ, slot, roots)
		ps.Message.Messages[0].PartialSignature = dsim.RandomG2([]byte{byte(rng.Intn(256))})
		h.send(from, dsim.WrapPartial(h.id, h.env.SealPartial(h.cl.KS, from, ps.Message)), "byz-garbage", to)
	}
}

func (h *hist) decidedStimulus(from spectypes.OperatorID, to []*dsim.Operator) {
	rng := h.rng
	slot := h.curSlot()
	extra := rng.Intn(2)
	switch k := rng.Intn(12); {
	case k < 2: // past height
		s := slot
		if h.cur > 0 && rng.Intn(2) == 0 {
			s = h.slots[rng.Intn(h.cur)]
		} else if s >= 3 {
			s -= phase0.Slot(1 + rng.Intn(3))
		} else {
			return
		}
		h.send(from, dsim.WrapConsensus(h.id, h.decidedMsg(h.role, h.vpk, s, dsim.ValueFor(h.role, s, byte(40+rng.Intn(3)), h.blinded), extra)), "decided-past", to)
	case k < 5: // future height
		s := slot + phase0.Slot(1+rng.Intn(3))
		h.send(from, dsim.WrapConsensus(h.id, h.decidedMsg(h.role, h.vpk, s, dsim.ValueFor(h.role, s, byte(50+rng.Intn(3)), h.blinded), extra)), "decided-future", to)
	case k < 7: // the running height, a valid value (a genuine early certificate)
		v := dsim.ValueFor(h.role, slot, byte(60+rng.Intn(2)), h.blinded)
		if ps := h.props[slot]; len(ps) > 0 && rng.Intn(2) == 0 {
			v = ps[rng.Intn(len(ps))]
		}
		h.send(from, dsim.WrapConsensus(h.id, h.decidedMsg(h.role, h.vpk, slot, v, extra)), "decided-now", to)
	case k < 9: // the running height, a value that fails the duty's validity check
		v, ok := dsim.InvalidValueFor(h.role, slot, dsim.InvalidKinds[rng.Intn(len(dsim.InvalidKinds))], h.blinded)
		if ok {
			h.send(from, dsim.WrapConsensus(h.id, h.decidedMsg(h.role, h.vpk, slot, v, extra)), "decided-invalid", to)
		}
	case k < 10: // another validator's identifier
		other := dsim.OtherValidatorPK()
		dm := h.decidedMsg(h.role, other, slot, dsim.ValueFor(h.role, slot, 70, h.blinded), extra)
		id := h.id // right envelope, foreign identifier inside
		if h.mode == "validator" && rng.Intn(2) == 0 {
			id = dsim.MsgID(other, h.role)
		}
		h.send(from, dsim.WrapConsensus(id, dm), "other-validator", to)
	default: // another role's identifier
		o := otherRole(h.role, rng)
		dm := h.decidedMsg(o, h.vpk, slot, dsim.ValueFor(o, slot, 80, false), extra)
		id := h.id
		if rng.Intn(2) == 0 {
			id = dsim.MsgID(h.vpk, o)
		}
		h.send(from, dsim.WrapConsensus(id, dm), "wrong-role", to)
	}
}

func (h *hist) byzConsensus(to []*dsim.Operator) {
	if len(h.byz) == 0 {
		return
	}
	rng := h.rng
	b := h.byz[rng.Intn(len(h.byz))]
	slot := h.curSlot()
	height := specqbft.Height(slot)
	round := specqbft.Round(1 + rng.Intn(2))
	value := dsim.ValueFor(h.role, slot, byte(90+rng.Intn(3)), h.blinded)
	if ps := h.props[slot]; len(ps) > 0 && rng.Intn(3) != 0 {
		value = ps[rng.Intn(len(ps))]
	}
	var sm *specqbft.SignedMessage
	switch rng.Intn(5) {
	case 0: // proposal (equivocation comes from selective delivery of different calls)
		if round != 1 {
			round = 1
		}
		sm = h.env.SignQBFT(h.cl.KS, b, &specqbft.Message{MsgType: specqbft.ProposalMsgType, Height: height, Round: round, Identifier: h.id[:], Root: qsim.Root(value)})
		sm.FullData = value
	case 1, 2:
		sm = h.env.SignQBFT(h.cl.KS, b, &specqbft.Message{MsgType: specqbft.PrepareMsgType, Height: height, Round: round, Identifier: h.id[:], Root: qsim.Root(value)})
	case 3:
		sm = h.env.SignQBFT(h.cl.KS, b, &specqbft.Message{MsgType: specqbft.CommitMsgType, Height: height, Round: round, Identifier: h.id[:], Root: qsim.Root(value)})
	default:
		sm = h.env.SignQBFT(h.cl.KS, b, &specqbft.Message{MsgType: specqbft.RoundChangeMsgType, Height: height, Round: round + 1, Identifier: h.id[:]})
	}
	h.send(b, dsim.WrapConsensus(h.id, sm), "byz-consensus", to)
}

func (h *hist) postStimulus(from spectypes.OperatorID, to []*dsim.Operator) {
	rng := h.rng
	slot := h.curSlot()
	if from == 0 {
		from = spectypes.OperatorID(1 + rng.Intn(h.n))
	}
	value := dsim.ValueFor(h.role, slot, 0, h.blinded)
	if ps := h.props[slot]; len(ps) > 0 {
		value = ps[rng.Intn(len(ps))]
	}
	switch rng.Intn(4) {
	case 0, 1: // the adversary's share over the roots of a value in play: early if the target has not decided yet
		if len(h.byz) == 0 {
			return
		}
		roots := h.postRoots(value)
		if len(roots) == 0 {
			return
		}
		m := dsim.WrapPartial(h.id, h.env.PartialSigMsg(h.cl.KS, from, spectypes.PostConsensusPartialSig, slot, roots))
		for _, op := range to {
			tag := "post-byz"
			if s := dsim.TakeSnap(op.Real[h.role]); !s.InstDecided {
				tag = "post-early"
			}
			_ = h.cl.Deliver(op, m, tag)
			h.note(tag)
		}
	case 2: // wrong slot
		roots := h.postRoots(value)
		if len(roots) == 0 {
			return
		}
		h.send(from, dsim.WrapPartial(h.id, h.env.PartialSigMsg(h.cl.KS, from, spectypes.PostConsensusPartialSig, slot+phase0.Slot(1+rng.Intn(5)), roots)), "wrong-slot", to)
	default:
		h.replayAfterFinished()
	}
}

// replayAfterFinished re-delivers recorded post-consensus messages to operators whose duty is finished.
func (h *hist) replayAfterFinished() {
	for _, op := range h.cl.Honest() {
		s := dsim.TakeSnap(op.Real[h.role])
		if !s.HasState || !s.Finished {
			continue
		}
		old := h.post[s.StartSlot]
		if len(old) == 0 || h.rng.Intn(2) == 0 {
			continue
		}
		_ = h.cl.Deliver(op, old[h.rng.Intn(len(old))], "post-after-finished")
		h.note("post-after-finished")
	}
}

func (h *hist) signedPost(op *dsim.Operator, slot phase0.Slot) *dsim.SignEvent {
	for _, ev := range op.Signs {
		if ev.Role == h.role && dsim.IsPostDomain(ev.DomainType) && ev.Snap.InstHeight == specqbft.Height(slot) {
			return ev
		}
	}
	return nil
}

// playDirected plays the history's directed family once, as soon as its precondition holds.
func (h *hist) playDirected() {
	if h.played || h.directed == "" {
		return
	}
	cl, rng := h.cl, h.rng
	slot := h.curSlot()
	switch h.directed {
	case "evict-redecide":
		// an operator that decided and signed: two genuine decided messages of later heights push the running instance out
		// of the controller's two-slot container, then the certificate of the running height arrives again
		for _, op := range cl.Honest() {
			ev := h.signedPost(op, slot)
			if ev == nil {
				continue
			}
			h.played = true
			value := ev.Snap.InstValue
			for d := 1; d <= 2; d++ {
				s := slot + phase0.Slot(d)
				_ = cl.Deliver(op, dsim.WrapConsensus(h.id, h.decidedMsg(h.role, h.vpk, s, dsim.ValueFor(h.role, s, 55, h.blinded), 0)), "decided-future")
				h.note("decided-future")
			}
			if rng.Intn(4) == 0 {
				value = dsim.ValueFor(h.role, slot, 66, h.blinded)
			}
			_ = cl.Deliver(op, dsim.WrapConsensus(h.id, h.decidedMsg(h.role, h.vpk, slot, value, rng.Intn(2))), "evict-redecide")
			h.note("evict-redecide")
			return
		}
	case "evict-decide-publish-fails":
		// an operator whose instance of the running height is not decided yet: two genuine decided messages of later heights push
		// that instance out of the controller's container, then the certificate of the running height arrives while the publish
		// of the operator's post-consensus signature FAILS (Network.Broadcast returns an error), and arrives again afterwards
		for _, op := range cl.Honest() {
			sn := dsim.TakeSnap(op.Real[h.role])
			if !sn.HasInstance || sn.InstDecided || sn.InstHeight != specqbft.Height(slot) {
				continue
			}
			h.played = true
			for d := 1; d <= 2; d++ {
				s := slot + phase0.Slot(d)
				_ = cl.Deliver(op, dsim.WrapConsensus(h.id, h.decidedMsg(h.role, h.vpk, s, dsim.ValueFor(h.role, s, 55, h.blinded), 0)), "decided-future")
				h.note("decided-future")
			}
			v := dsim.ValueFor(h.role, slot, 60, h.blinded)
			if ps := h.props[slot]; len(ps) > 0 && rng.Intn(2) == 0 {
				v = ps[rng.Intn(len(ps))]
			}
			op.FailPublish, op.FailPublishTypes = 1, map[string]bool{"post": true}
			_ = cl.Deliver(op, dsim.WrapConsensus(h.id, h.decidedMsg(h.role, h.vpk, slot, v, 0)), "decided-now-publish-fails")
			h.note("decided-now-publish-fails")
			op.FailPublish, op.FailPublishTypes = 0, nil
			for k := 0; k < 1+rng.Intn(2); k++ {
				_ = cl.Deliver(op, dsim.WrapConsensus(h.id, h.decidedMsg(h.role, h.vpk, slot, v, k)), "decided-now-again")
				h.note("decided-now-again")
			}
			return
		}
	case "invalid-decided-first", "other-height-midway":
		for _, op := range cl.Honest() {
			s := dsim.TakeSnap(op.Real[h.role])
			if !s.HasInstance || s.InstDecided || s.InstHeight != specqbft.Height(slot) {
				continue
			}
			h.played = true
			if h.directed == "invalid-decided-first" {
				v, ok := dsim.InvalidValueFor(h.role, slot, dsim.InvalidKinds[rng.Intn(len(dsim.InvalidKinds))], h.blinded)
				if !ok {
					v, _ = dsim.InvalidValueFor(h.role, slot, "wrong-validator-index", h.blinded)
				}
				_ = cl.Deliver(op, dsim.WrapConsensus(h.id, h.decidedMsg(h.role, h.vpk, slot, v, 0)), "decided-invalid")
				h.note("decided-invalid")
			} else {
				sl := slot + phase0.Slot(1+rng.Intn(2))
				tag := "decided-future"
				if rng.Intn(2) == 0 && slot > 2 {
					sl, tag = slot-1, "decided-past"
				}
				_ = cl.Deliver(op, dsim.WrapConsensus(h.id, h.decidedMsg(h.role, h.vpk, sl, dsim.ValueFor(h.role, sl, 77, h.blinded), 0)), tag)
				h.note(tag)
			}
			if rng.Intn(2) == 0 {
				return
			}
		}
	case "foreign-envelope":
		// genuine traffic of this cluster re-addressed to another validator's message id (validator lane only)
		if h.mode != "validator" || len(cl.Pool) == 0 {
			return
		}
		n := 0
		for i := 0; i < len(cl.Pool) && n < 2*h.n; i++ {
			f := cl.Pool[i]
			if f.Tag != "" || f.Msg.MsgID.GetRoleType() != h.role {
				continue
			}
			m := *f.Msg
			m.MsgID = dsim.MsgID(dsim.OtherValidatorPK(), h.role)
			cl.Pool[i] = &dsim.Flight{Msg: &m, To: f.To, From: f.From, Tag: "other-validator-envelope"}
			n++
		}
		if n > 0 && rng.Intn(3) == 0 {
			h.played = true
		}
	}
}

// ---- the oracle ----------------------------------------------------------------------------------------------

type finding struct {
	kind, sig, detail string
	ev                *dsim.SignEvent
}

// judge decides every recorded SignBeaconObject call of one operator, in order.
func judge(op *dsim.Operator, ks *testingutils.TestKeySet, n int, vpk []byte) (legit int, out []finding) {
	type key struct {
		role   spectypes.BeaconRole
		height specqbft.Height
		root   [32]byte
	}
	signed := map[key]int{}
	for _, ev := range op.Signs {
		role := ev.Role
		dn := dsim.DomainName(ev.DomainType)
		via := "<none>"
		if ev.Action != nil {
			via = ev.Action.Kind + ":" + ev.Action.Tag
		}
		bad := func(kind, code, why string) {
			out = append(out, finding{kind, fmt.Sprintf("%s/%s/%s/%s", role, dn, code, via),
				fmt.Sprintf("operator %d (%s runner) signed a %s object (root %x) with its validator key share: %s. Action in progress: %s; runner call: %s; runner state: %s",
					op.ID, role, dn, ev.ObjRoot[:6], why, ev.Action, callStr(ev.Call), snapStr(ev.Snap)), ev})
		}
		if ev.Action == nil {
			bad("signature-outside-any-input", "no-input", "no driver action in progress")
			continue
		}
		if ev.Action.Foreign {
			bad("signature-caused-by-foreign-message", "other-validator", "the input was addressed to another validator")
			continue
		}
		if ev.Action.Kind != "start-duty" && ev.Action.Kind != "event" && ev.Action.Role != role {
			bad("signature-caused-by-other-role-message", "other-role", fmt.Sprintf("the input was addressed to role %s", ev.Action.Role))
			continue
		}
		if !bytes.Equal(ev.PK, op.Share.SharePubKey) {
			bad("signature-with-foreign-key", "foreign-key", "the key is not this operator's share of the validator key")
			continue
		}
		if ev.Domain != dsim.DomainOf(ev.DomainType) {
			bad("signature-domain-mismatch", "domain-bytes", "domain bytes do not belong to the domain type")
			continue
		}
		switch {
		case dsim.IsPostDomain(ev.DomainType):
			s := ev.Snap
			if dsim.PostDomainOf(role) != ev.DomainType {
				bad("duty-signature-foreign-domain", "other-role-domain", "duty-object domain of another role")
				continue
			}
			if !s.HasState || !s.HasInstance {
				bad("duty-signature-without-decision", "no-instance", "no running consensus instance")
				continue
			}
			if s.InstHeight != specqbft.Height(s.StartSlot) {
				bad("duty-signature-without-decision", "instance-of-other-height", "running instance is not the instance of the duty's slot")
				continue
			}
			value, evicted := s.InstValue, false
			if !s.InstDecided {
				// The running instance object is not marked decided. The decision of the duty's slot may still have been
				// learnt in this very input: a verifiable quorum certificate for (this role's identifier, height = duty
				// slot) - the controller handles such a certificate outside the instance when the instance has been pushed
				// out of its container. The statement asks for the value decided for the duty's slot, not for a flag.
				cert := certOf(ev.Action)
				id := dsim.MsgID(vpk, role)
				if cert == nil {
					bad("duty-signature-without-decision", "instance-not-decided", "running instance not decided")
					continue
				}
				if err := oracle.Certificate(ks, n, dsim.Domain, id[:], specqbft.Height(s.StartSlot), cert); err != nil {
					bad("duty-signature-without-decision", "instance-not-decided-no-certificate", "running instance not decided and the input is no certificate for the duty's slot ("+short(err.Error())+")")
					continue
				}
				value, evicted = cert.FullData, true
			}
			cd := &spectypes.ConsensusData{}
			if err := cd.Decode(value); err != nil {
				bad("duty-signature-over-invalid-value", "undecodable", "decided value undecodable")
				continue
			}
			if err := dsim.ValueCheck(role, testingutils.NewTestingKeyManager(), vpk, op.Share.SharePubKey)(value); err != nil {
				bad("duty-signature-over-invalid-value", "fails-value-check", "decided value fails the duty's validity check ("+short(err.Error())+")")
				continue
			}
			exp, err := dsim.PostExpected(role, cd)
			if err != nil {
				bad("duty-signature-over-invalid-value", "no-object", "no duty object derivable from the decided value")
				continue
			}
			mult := 0
			for _, e := range exp {
				if e.ObjRoot == ev.ObjRoot && e.DomainType == ev.DomainType {
					mult++
				}
			}
			if mult == 0 {
				bad("duty-signature-over-undecided-object", "not-in-decided-value", "object not contained in the value the running instance decided")
				continue
			}
			k := key{role, s.InstHeight, ev.ObjRoot}
			signed[k]++
			if signed[k] > mult {
				if evicted {
					bad("duty-object-signed-twice", "evicted-instance-redecided", "second signature for the same decided object: running instance evicted from the controller and never marked decided, every certificate of its height counts as a first decision")
				} else {
					bad("duty-object-signed-twice", "second-signature", "second signature for the same decided object")
				}
				continue
			}
			legit++
		case dsim.IsPreDomain(ev.DomainType):
			if ev.Call == nil || ev.Call.Method != "StartNewDuty" || ev.Call.Duty == nil {
				bad("pre-consensus-signature-outside-duty-start", "no-duty-start", "not inside a StartDuty call")
				continue
			}
			d := ev.Call.Duty
			if d.Type != role || ev.Call.Role != role {
				bad("pre-consensus-signature-outside-duty-start", "other-role-duty", "duty of another role")
				continue
			}
			exp, _, _ := dsim.PreExpected(d, op.Share)
			ok := false
			for _, e := range exp {
				if e.ObjRoot == ev.ObjRoot && e.DomainType == ev.DomainType {
					ok = true
				}
			}
			if !ok {
				bad("pre-consensus-signature-not-slot-bound", "other-slot-object", fmt.Sprintf("not a pre-consensus object of the started duty (slot %d)", d.Slot))
				continue
			}
			legit++
		default:
			bad("signature-unexpected-domain", "unknown-domain", "domain is neither a duty object nor a pre-consensus proof")
		}
	}
	return legit, out
}

// certOf returns the consensus message of an input if it has the shape of a decided message.
func certOf(a *dsim.Action) *specqbft.SignedMessage {
	if a == nil || a.Msg == nil || a.Msg.MsgType != spectypes.SSVConsensusMsgType {
		return nil
	}
	sm := &specqbft.SignedMessage{}
	if sm.Decode(a.Msg.Data) != nil || sm.Message.MsgType != specqbft.CommitMsgType || len(sm.Signers) < 2 {
		return nil
	}
	return sm
}

func short(s string) string {
	if len(s) > 60 {
		return s[:60]
	}
	return s
}

func callStr(c *dsim.Call) string {
	if c == nil {
		return "<none>"
	}
	if c.Duty != nil {
		return fmt.Sprintf("%s(%s slot %d)", c.Method, c.Duty.Type, c.Duty.Slot)
	}
	return c.Method
}

func snapStr(s dsim.Snap) string {
	return fmt.Sprintf("{state=%v finished=%v dutySlot=%d instance=%v height=%d decided=%v hasDecidedValue=%v ctrlHeight=%d}",
		s.HasState, s.Finished, s.StartSlot, s.HasInstance, s.InstHeight, s.InstDecided, s.HasDecidedVal, s.CtrlHeight)
}

func (h *hist) finish() {
	c, cl := h.c, h.cl
	if cl.QueueStuck || cl.QueueMismatch > 0 {
		c.Inconclusive(fmt.Sprintf("queue lane: the driver's model of the pop filter disagreed with the consumer (mismatch=%d stuck=%v)", cl.QueueMismatch, cl.QueueStuck))
	}
	legit, illegal := 0, 0
	var tags []string
	for t, n := range h.delivered {
		c.Count("input_"+t, int64(n))
		if illegalTags[t] {
			illegal += n
			tags = append(tags, t)
		}
	}
	sort.Strings(tags)
	nsub := 0
	for _, op := range cl.Honest() {
		l, fs := judge(op, cl.KS, h.n, h.vpk)
		legit += l
		for _, f := range fs {
			c.Violation(f.kind, f.sig, f.detail, h.witness(op, f.ev))
		}
		for _, ev := range op.Signs {
			c.Count("sig_domain_"+dsim.DomainName(ev.DomainType), 1)
		}
		c.Count("ssv_root_signatures", int64(len(op.RootSigns)))
		for _, a := range op.Actions {
			c.Count("action_"+a.Kind, 1)
			if a.Err == "" {
				c.Count("actions_accepted", 1)
			} else {
				c.Count("actions_rejected", 1)
			}
		}
		for _, b := range op.Broadcasts {
			c.Count("broadcast_"+b.Kind, 1)
		}
		for _, s := range op.Submits {
			if s.Submit {
				nsub++
				c.Count("submission_role_"+s.Role.String(), 1)
			}
		}
	}
	c.Count("signatures_judged_legitimate", int64(legit))
	c.Count("beacon_submissions", int64(nsub))
	c.Count("histories_"+h.mode, 1)
	c.Count("histories_role_"+h.role.String(), 1)
	if h.played {
		c.Count("directed_played_"+h.directed, 1)
	}
	c.Count("dropped", int64(cl.Dropped))
	c.Count("duplicated", int64(cl.Duplicated))
	c.Count("timeouts_fired", int64(cl.Timeouts))
	if legit > 0 && illegal > 0 {
		c.Nontrivial(evid.Hash(h.role, h.n, h.mode, strings.Join(tags, ","), legit, h.blinded, h.deneb))
		c.Count("histories_nontrivial", 1)
	}
	c.Distinct("history_shapes", evid.Hash(h.role, h.n, h.mode, strings.Join(tags, ","), legit, len(h.byz)))
	for _, t := range tags {
		c.Distinct("role_N_lane_stimulus", evid.Hash(h.role, h.n, h.mode, t))
	}
	if c.Index == 0 && c.Idx < 2 {
		acts := cl.Acts
		if len(acts) > 60 {
			acts = acts[:60]
		}
		c.Sample(map[string]any{"lane": h.mode, "role": h.role.String(), "N": h.n, "adversary_controlled": h.byz, "slots": h.slots, "directed": h.directed,
			"stimuli_delivered": h.delivered, "legitimate_signatures": legit, "first_actions": acts})
	}
}

func (h *hist) witness(op *dsim.Operator, ev *dsim.SignEvent) map[string]any {
	acts := h.cl.Acts
	if len(acts) > 400 {
		acts = acts[len(acts)-400:]
	}
	var mine []string
	for _, a := range op.Actions {
		mine = append(mine, a.String())
	}
	if len(mine) > 250 {
		mine = mine[len(mine)-250:]
	}
	return map[string]any{"lane": h.mode, "role": h.role.String(), "N": h.n, "adversary_controlled": h.byz, "slots": h.slots, "directed": h.directed, "blinded": h.blinded,
		"operator": op.ID, "signature_index": ev.Idx, "operator_inputs": mine, "cluster_actions_tail": acts}
}
