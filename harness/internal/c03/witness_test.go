package c03

import (
	"math/rand"
	"testing"

	"github.com/attestantio/go-eth2-client/spec/phase0"
	specqbft "github.com/bloxapp/ssv-spec/qbft"
	spectypes "github.com/bloxapp/ssv-spec/types"

	"verifharness/internal/dsim"
)

// TestWitnessEvictedRedecide is the minimal history of the finding "evicted-instance-redecided": it documents the
// behaviour of the unchanged tree (it does not fail).
func TestWitnessEvictedRedecide(t *testing.T) {
	env := dsim.NewEnv()
	for _, role := range []spectypes.BeaconRole{spectypes.BNRoleAttester, spectypes.BNRoleSyncCommittee} {
		cl := dsim.NewCluster(env, rand.New(rand.NewSource(1)), dsim.Config{N: 4, Mode: "validator", Only: []int{0}})
		op := cl.Ops[0]
		vpk := cl.KS.ValidatorPK.Serialize()
		id := dsim.MsgID(vpk, role)
		slot := phase0.Slot(12)
		if err := cl.StartDuty(op, dsim.DutyFor(role, slot), "fresh", nil); err != nil {
			t.Fatal(err)
		}
		dec := func(s phase0.Slot, signers ...spectypes.OperatorID) error {
			m := env.Decided(cl.KS, id[:], specqbft.Height(s), 1, dsim.ValueFor(role, s, 0, false), signers)
			return cl.Deliver(op, dsim.WrapConsensus(id, m), "witness")
		}
		t.Logf("%s: decided(13): %v", role, dec(13, 2, 3, 4))
		t.Logf("%s: decided(14): %v", role, dec(14, 2, 3, 4))
		t.Logf("%s: decided(12) by [2 3 4]: %v -> signatures so far %d", role, dec(12, 2, 3, 4), len(op.Signs))
		t.Logf("%s: decided(12) by [1 2 3 4]: %v -> signatures so far %d", role, dec(12, 1, 2, 3, 4), len(op.Signs))
		t.Logf("%s: decided(12) by [2 3 4] again: %v -> signatures so far %d", role, dec(12, 2, 3, 4), len(op.Signs))
		legit, fs := judge(op, cl.KS, 4, vpk)
		t.Logf("%s: oracle: %d legitimate signatures, %d findings", role, legit, len(fs))
		for _, f := range fs {
			t.Logf("   %s %s", f.kind, f.sig)
		}
		posts := 0
		for _, b := range op.Broadcasts {
			if b.Kind == "post" {
				posts++
			}
		}
		t.Logf("%s: post-consensus partial-signature broadcasts: %d", role, posts)
		cl.Close()
	}
}
