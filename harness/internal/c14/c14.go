// Package c14: the validator message queue neither loses nor duplicates messages (property C14).
//
// Sequential lane: random op sequences against a multiset reference model, checked after every op.
// Concurrent lane (-race): producers + the single consumer, history recorded at the client boundary
// and checked with porcupine against the same sequential model.
package c14

import (
	"context"
	"fmt"
	"math/rand"
	"runtime"
	"sync"
	"sync/atomic"
	"time"

	"github.com/anishathalye/porcupine"
	"github.com/attestantio/go-eth2-client/spec/phase0"
	specqbft "github.com/bloxapp/ssv-spec/qbft"
	spectypes "github.com/bloxapp/ssv-spec/types"

	ssvmessage "github.com/bloxapp/ssv/protocol/v2/message"
	"github.com/bloxapp/ssv/protocol/v2/ssv/queue"
	ssvtypes "github.com/bloxapp/ssv/protocol/v2/types"

	"verifharness/internal/dsim"
	"verifharness/internal/evid"
	"verifharness/internal/qsim"
)

func Spec() *evid.Spec {
	return &evid.Spec{
		ID:    "C14",
		Level: "exploration",
		Rule: "sequential lane: seed-determined op sequences (push/try-push/pop/try-pop, 7 filter families incl. the two filters of Validator.ConsumeQueue, random prioritizer state, capacity 1..32) " +
			"against a multiset model checked after every op; concurrent lane: 2-6 producers + 1 consumer, <=14 ops, porcupine linearizability vs the same model, under the race detector. " +
			"consumer lane: the real Validator.HandleMessage + ConsumeQueue goroutines of 4 operators (real filters, real prioritizer) over a whole duty with messages pushed before the duty starts, during it and after it; conservation (pushed = handled + still queued, Len() read at quiescent points) per operator. " +
			"A case is non-trivial if at least one pop ran with a filter that rejects a queued message while another queued message exists, or (concurrent) if two operations overlapped; distinct = hash of the op/outcome sequence",
		Assumptions: []string{
			"documented coarse priority order only: ExecuteDuty > Timeout > current height/slot > higher > lower; finer scores are not re-implemented by the oracle",
			"Pop(ctx) is documented to read the inbox at most every 1ms, so priority maximality for Pop is demanded only when the harness idled >1ms before the call (TryPop always)",
			"single consumer (documented: pops are not thread-safe)",
		},
		MinNontrivial: 50,
		Lanes: []evid.Lane{
			{Name: "seq", Children: evid.Const(8, 16), Cases: evid.Const(6000, 60000), TimeoutS: evid.Const(300, 3000), Run: runSeq},
			{Name: "consumer", Children: evid.Const(8, 16), Cases: evid.Const(6, 120), TimeoutS: evid.Const(900, 7200),
				Setup: func(ch *evid.Child) { ch.Data = dsim.NewEnv(); dsim.QueueWatchdog = 10 * time.Second }, Run: runConsumer},
			{Name: "conc", Race: true, Children: evid.Const(8, 16), Cases: evid.Const(1500, 12000), TimeoutS: evid.Const(400, 3000), Run: runConc},
		},
	}
}

// ---- message generation -------------------------------------------------------------------

type meta struct {
	id    int
	desc  string
	class int // coarse class computed by the oracle from the documented order (given a state)
}

func mkEvent(t ssvtypes.EventType) *queue.DecodedSSVMessage {
	return &queue.DecodedSSVMessage{
		SSVMessage: &spectypes.SSVMessage{MsgType: ssvmessage.SSVEventMsgType},
		Body:       &ssvtypes.EventMsg{Type: t},
	}
}

func mkConsensus(h specqbft.Height, r specqbft.Round, t specqbft.MessageType, signers int) *queue.DecodedSSVMessage {
	s := make([]spectypes.OperatorID, signers)
	for i := range s {
		s[i] = spectypes.OperatorID(i + 1)
	}
	return &queue.DecodedSSVMessage{
		SSVMessage: &spectypes.SSVMessage{MsgType: spectypes.SSVConsensusMsgType},
		Body:       &specqbft.SignedMessage{Signers: s, Message: specqbft.Message{MsgType: t, Height: h, Round: r}},
	}
}

func mkPartial(slot phase0.Slot, t spectypes.PartialSigMsgType) *queue.DecodedSSVMessage {
	return &queue.DecodedSSVMessage{
		SSVMessage: &spectypes.SSVMessage{MsgType: spectypes.SSVPartialSignatureMsgType},
		Body:       &spectypes.SignedPartialSignatureMessage{Message: spectypes.PartialSignatureMessages{Type: t, Slot: slot}},
	}
}

func genMsg(rng *rand.Rand, st *queue.State) (*queue.DecodedSSVMessage, string) {
	switch k := rng.Intn(10); {
	case k == 0:
		return mkEvent(ssvtypes.ExecuteDuty), "ev:execute"
	case k == 1:
		return mkEvent(ssvtypes.Timeout), "ev:timeout"
	case k < 7:
		h := specqbft.Height(int(st.Height) + rng.Intn(3) - 1)
		if st.Height == 0 && h > 1 {
			h = 0
		}
		r := specqbft.Round(int(st.Round) + rng.Intn(3) - 1)
		t := specqbft.MessageType(rng.Intn(4))
		sg := 1
		if t == specqbft.CommitMsgType && rng.Intn(3) == 0 {
			sg = int(st.Quorum) + rng.Intn(2)
		}
		return mkConsensus(h, r, t, sg), fmt.Sprintf("qbft:h%d:r%d:t%d:s%d", h, r, t, sg)
	default:
		s := phase0.Slot(int(st.Slot) + rng.Intn(3) - 1)
		if st.Slot == 0 && s > 1 {
			s = 0
		}
		t := spectypes.PostConsensusPartialSig
		if rng.Intn(2) == 0 {
			t = spectypes.RandaoPartialSig
		}
		return mkPartial(s, t), fmt.Sprintf("psig:slot%d:t%d", s, t)
	}
}

// coarse is the oracle's own reading of the documented order.
func coarse(st *queue.State, m *queue.DecodedSSVMessage) int {
	switch b := m.Body.(type) {
	case *ssvtypes.EventMsg:
		if b.Type == ssvtypes.ExecuteDuty {
			return 100
		}
		if b.Type == ssvtypes.Timeout {
			return 50
		}
		return 0
	case *specqbft.SignedMessage:
		switch {
		case b.Message.Height == st.Height:
			return 3
		case b.Message.Height > st.Height:
			return 2
		}
		return 1
	case *spectypes.SignedPartialSignatureMessage:
		switch {
		case b.Message.Slot == st.Slot:
			return 3
		case b.Message.Slot > st.Slot:
			return 2
		}
		return 1
	}
	return 0
}

type namedFilter struct {
	name string
	f    queue.Filter
}

func filters(st *queue.State, ids map[*queue.DecodedSSVMessage]*meta, rng *rand.Rand) []namedFilter {
	h := st.Height
	par := rng.Intn(2)
	return []namedFilter{
		{"any", queue.FilterAny},
		{"none", func(*queue.DecodedSSVMessage) bool { return false }},
		// copy of ConsumeQueue's idle filter
		{"execute-duty-only", func(m *queue.DecodedSSVMessage) bool {
			e, ok := m.Body.(*ssvtypes.EventMsg)
			return ok && e.Type == ssvtypes.ExecuteDuty
		}},
		// copy of ConsumeQueue's no-proposal-yet filter
		{"hold-prepare-commit", func(m *queue.DecodedSSVMessage) bool {
			sm, ok := m.Body.(*specqbft.SignedMessage)
			if !ok {
				return true
			}
			if sm.Message.Height != st.Height || sm.Message.Round != st.Round {
				return true
			}
			return sm.Message.MsgType != specqbft.PrepareMsgType && sm.Message.MsgType != specqbft.CommitMsgType
		}},
		{"consensus-only", func(m *queue.DecodedSSVMessage) bool { _, ok := m.Body.(*specqbft.SignedMessage); return ok }},
		{"height-only", func(m *queue.DecodedSSVMessage) bool {
			sm, ok := m.Body.(*specqbft.SignedMessage)
			return ok && sm.Message.Height == h
		}},
		{fmt.Sprintf("id-parity-%d", par), func(m *queue.DecodedSSVMessage) bool { return ids[m] != nil && ids[m].id%2 == par }},
	}
}

func genState(rng *rand.Rand) *queue.State {
	return &queue.State{
		HasRunningInstance: rng.Intn(2) == 0,
		Height:             specqbft.Height(rng.Intn(4)),
		Round:              specqbft.Round(1 + rng.Intn(3)),
		Slot:               phase0.Slot(rng.Intn(4)),
		Quorum:             3,
	}
}

// ---- sequential lane ------------------------------------------------------------------------

type opRec struct {
	Op     string `json:"op"`
	Arg    string `json:"arg,omitempty"`
	Result string `json:"result,omitempty"`
	Len    int    `json:"len"`
}

func runSeq(c *evid.Case) {
	rng := c.Rng
	caps := []int{1, 2, 4, 8, 32}
	capacity := caps[rng.Intn(len(caps))]
	q := queue.New(capacity)
	st := genState(rng)
	ids := map[*queue.DecodedSSVMessage]*meta{}
	model := map[*queue.DecodedSSVMessage]*meta{} // queued per the model
	popped := map[*queue.DecodedSSVMessage]bool{}
	inboxUpper := 0 // upper bound of unread inbox entries
	nextID := 0
	nops := 4 + rng.Intn(36)
	var hist []opRec
	nontrivial := false
	violated := false
	hsh := []any{capacity}

	viol := func(kind, sig, detail string) {
		if violated {
			return
		}
		violated = true
		c.Violation(kind, sig, detail, map[string]any{"capacity": capacity, "state": st, "history": hist})
	}
	admissibleIn := func(f queue.Filter) (n int) {
		for m := range model {
			if f(m) {
				n++
			}
		}
		return
	}
	checkPop := func(opname string, nf namedFilter, r *queue.DecodedSSVMessage, strictPrio bool) {
		adm := admissibleIn(nf.f)
		if len(model) >= 2 && adm < len(model) {
			nontrivial = true
		}
		if r == nil {
			if adm > 0 {
				viol("nil-while-admissible", opname+"/"+nf.name, fmt.Sprintf("%s(filter=%s) returned nil while %d admissible of %d queued", opname, nf.name, adm, len(model)))
			}
			return
		}
		mt := ids[r]
		if mt == nil {
			viol("foreign-message", opname, "pop returned a message that was never pushed")
			return
		}
		if popped[r] {
			viol("duplicate-pop", opname+"/"+nf.name, fmt.Sprintf("message #%d (%s) returned twice", mt.id, mt.desc))
			return
		}
		if _, ok := model[r]; !ok {
			viol("pop-of-unqueued", opname, fmt.Sprintf("message #%d returned but not queued per model", mt.id))
			return
		}
		if !nf.f(r) {
			viol("inadmissible-pop", opname+"/"+nf.name, fmt.Sprintf("message #%d (%s) returned by filter %s that rejects it", mt.id, mt.desc, nf.name))
		}
		if strictPrio {
			cr := coarse(st, r)
			for m := range model {
				if m != r && nf.f(m) && coarse(st, m) > cr {
					viol("priority-inversion", opname+"/"+nf.name, fmt.Sprintf("returned #%d (%s, class %d) while admissible #%d (%s, class %d) queued",
						mt.id, mt.desc, cr, ids[m].id, ids[m].desc, coarse(st, m)))
					break
				}
			}
		}
		popped[r] = true
		delete(model, r)
	}
	afterOp := func() {
		if l := q.Len(); l != len(model) {
			viol("len-mismatch", "Len", fmt.Sprintf("Len()=%d but model holds %d (a message was dropped or duplicated by the last operation)", l, len(model)))
		}
		if q.Empty() != (len(model) == 0) {
			viol("empty-mismatch", "Empty", fmt.Sprintf("Empty()=%v but model holds %d", q.Empty(), len(model)))
		}
	}

	for i := 0; i < nops && !violated; i++ {
		fl := filters(st, ids, rng)
		switch k := rng.Intn(10); {
		case k < 4: // push family
			m, d := genMsg(rng, st)
			mt := &meta{id: nextID, desc: d}
			nextID++
			ids[m] = mt
			if rng.Intn(2) == 0 && inboxUpper < capacity {
				q.Push(m)
				model[m] = mt
				inboxUpper++
				hist = append(hist, opRec{Op: "Push", Arg: fmt.Sprintf("#%d %s", mt.id, d), Len: q.Len()})
				hsh = append(hsh, "P", d)
			} else {
				ok := q.TryPush(m)
				if ok {
					model[m] = mt
					inboxUpper++
				} else if inboxUpper < capacity {
					viol("trypush-false-with-room", "TryPush", fmt.Sprintf("TryPush returned false with at most %d of %d inbox slots used", inboxUpper, capacity))
				}
				hist = append(hist, opRec{Op: "TryPush", Arg: fmt.Sprintf("#%d %s", mt.id, d), Result: fmt.Sprint(ok), Len: q.Len()})
				hsh = append(hsh, "T", d, ok)
			}
		case k < 8: // TryPop
			nf := fl[rng.Intn(len(fl))]
			r := q.TryPop(queue.NewMessagePrioritizer(st), nf.f)
			inboxUpper = 0
			rs := "nil"
			if r != nil && ids[r] != nil {
				rs = fmt.Sprintf("#%d %s", ids[r].id, ids[r].desc)
			}
			hist = append(hist, opRec{Op: "TryPop", Arg: nf.name, Result: rs})
			checkPop("TryPop", nf, r, true)
			hist[len(hist)-1].Len = q.Len()
			hsh = append(hsh, "t", nf.name, rs)
		default: // Pop(ctx)
			nf := fl[rng.Intn(len(fl))]
			idle := rng.Intn(8) == 0
			if idle {
				time.Sleep(1200 * time.Microsecond)
			}
			adm := admissibleIn(nf.f)
			ctx, cancel := context.WithCancel(context.Background())
			var r *queue.DecodedSSVMessage
			opn := "Pop(cancelled)"
			if adm > 0 && rng.Intn(2) == 0 {
				// live context: an admissible message is queued, so Pop must return it without the cancel
				opn = "Pop(live)"
				done := make(chan struct{})
				go func() { r = q.Pop(ctx, queue.NewMessagePrioritizer(st), nf.f); close(done) }()
				select {
				case <-done:
				case <-time.After(5 * time.Second):
					cancel()
					<-done
					if r == nil {
						viol("pop-blocked-with-admissible", "Pop/"+nf.name, "Pop blocked 5s and returned nil after cancel although an admissible message was queued")
					} else {
						c.Inconclusive("Pop needed >5s wall although an admissible message was queued (loaded machine?)")
					}
				}
			} else {
				cancel()
				r = q.Pop(ctx, queue.NewMessagePrioritizer(st), nf.f)
			}
			cancel()
			rs := "nil"
			if r != nil && ids[r] != nil {
				rs = fmt.Sprintf("#%d %s", ids[r].id, ids[r].desc)
			}
			hist = append(hist, opRec{Op: opn, Arg: nf.name, Result: rs})
			checkPop(opn, nf, r, idle)
			hist[len(hist)-1].Len = q.Len()
			hsh = append(hsh, "p", nf.name, rs)
		}
		if rng.Intn(6) == 0 {
			st = genState(rng) // prioritizer state changes between pops, like in ConsumeQueue
		}
		afterOp()
		c.Count("seq_ops", 1)
	}
	// conservation: drain
	if !violated {
		for {
			r := q.TryPop(queue.NewMessagePrioritizer(st), queue.FilterAny)
			if r == nil {
				break
			}
			hist = append(hist, opRec{Op: "drain", Result: fmt.Sprintf("#%d", ids[r].id)})
			checkPop("drain", namedFilter{"any", queue.FilterAny}, r, false)
			if violated {
				break
			}
		}
		if !violated && len(model) != 0 {
			for _, mt := range model {
				viol("lost-message", "drain", fmt.Sprintf("message #%d (%s) pushed successfully but never returned by any pop", mt.id, mt.desc))
				break
			}
		}
	}
	c.Count("seq_messages_pushed", int64(len(ids)))
	c.Count("seq_messages_popped", int64(len(popped)))
	if nontrivial {
		c.Nontrivial(evid.Hash(hsh...))
		c.Distinct("seq_histories", evid.Hash(hsh...))
	}
	if c.Index < 2 && c.Idx == 0 {
		c.Sample(map[string]any{"capacity": capacity, "history": hist})
	}
}

func yieldNow() { runtime.Gosched() }

// ---- concurrent lane --------------------------------------------------------------------------

type cin struct {
	Kind   int // 0 push, 1 trypush, 2 trypop, 3 pop(ctx)
	ID     int // pushed id
	Filter int // filter index for pops
}
type cout struct {
	OK bool // trypush result
	ID int  // popped id or -1
}

func runConc(c *evid.Case) {
	rng := c.Rng
	nprod := 2 + rng.Intn(5)
	npush := 4 + rng.Intn(5) // total pushes
	npop := 3 + rng.Intn(4)
	bigCap := rng.Intn(3) != 0
	capacity := 16
	if !bigCap {
		capacity = 1 + rng.Intn(2)
	}
	st := genState(rng)
	q := queue.New(capacity)
	msgs := make([]*queue.DecodedSSVMessage, npush)
	descs := make([]string, npush)
	idOf := map[*queue.DecodedSSVMessage]*meta{}
	for i := range msgs {
		msgs[i], descs[i] = genMsg(rng, st)
		idOf[msgs[i]] = &meta{id: i, desc: descs[i]}
	}
	fl := filters(st, idOf, rng)
	// admissibility & class tables (the model works on ids only)
	adm := make([][]bool, len(fl))
	for f := range fl {
		adm[f] = make([]bool, npush)
		for i, m := range msgs {
			adm[f][i] = fl[f].f(m)
		}
	}
	class := make([]int, npush)
	for i, m := range msgs {
		class[i] = coarse(st, m)
	}

	var clock int64
	var mu sync.Mutex
	var ops []porcupine.Operation
	rec := func(client int, in cin, call int64, out cout) {
		ret := atomic.AddInt64(&clock, 1)
		mu.Lock()
		ops = append(ops, porcupine.Operation{ClientId: client, Input: in, Call: call, Output: out, Return: ret})
		mu.Unlock()
	}

	// distribute pushes over producers
	assign := make([][]int, nprod)
	for i := 0; i < npush; i++ {
		p := rng.Intn(nprod)
		assign[p] = append(assign[p], i)
	}
	useTry := make([]bool, npush)
	for i := range useTry {
		useTry[i] = rng.Intn(2) == 0
	}
	popKinds := make([]cin, npop)
	for i := range popKinds {
		k := 2
		if rng.Intn(3) == 0 {
			k = 3
		}
		popKinds[i] = cin{Kind: k, Filter: rng.Intn(len(fl))}
	}
	yields := make([]int, npush+npop)
	for i := range yields {
		yields[i] = rng.Intn(4)
	}

	var wg sync.WaitGroup
	start := make(chan struct{})
	prodDone := make(chan struct{})
	for p := 0; p < nprod; p++ {
		wg.Add(1)
		go func(p int) {
			defer wg.Done()
			<-start
			for _, i := range assign[p] {
				for y := 0; y < yields[i]; y++ {
					yieldNow()
				}
				in := cin{Kind: 0, ID: i}
				if useTry[i] {
					in.Kind = 1
				}
				call := atomic.AddInt64(&clock, 1)
				ok := true
				if useTry[i] {
					ok = q.TryPush(msgs[i])
				} else {
					q.Push(msgs[i])
				}
				rec(p, in, call, cout{OK: ok, ID: -1})
			}
		}(p)
	}
	go func() { wg.Wait(); close(prodDone) }()

	consDone := make(chan struct{})
	go func() {
		defer close(consDone)
		<-start
		for i, in := range popKinds {
			for y := 0; y < yields[npush+i]; y++ {
				yieldNow()
			}
			call := atomic.AddInt64(&clock, 1)
			var r *queue.DecodedSSVMessage
			if in.Kind == 2 {
				r = q.TryPop(queue.NewMessagePrioritizer(st), fl[in.Filter].f)
			} else {
				ctx, cancel := context.WithCancel(context.Background())
				go func() { <-prodDone; cancel() }() // unblocked by the end of production, not by wall clock
				r = q.Pop(ctx, queue.NewMessagePrioritizer(st), fl[in.Filter].f)
				cancel()
			}
			id := -1
			if r != nil {
				if mt := idOf[r]; mt != nil {
					id = mt.id
				} else {
					id = -2
				}
			}
			rec(nprod, in, call, cout{ID: id})
		}
		nilDrains := 0
		// Push() producers may still be blocked on a full inbox: keep draining until they are done.
		for {
			select {
			case <-prodDone:
				return
			default:
			}
			in := cin{Kind: 2, Filter: 0}
			call := atomic.AddInt64(&clock, 1)
			r := q.TryPop(queue.NewMessagePrioritizer(st), queue.FilterAny)
			id := -1
			if r != nil {
				id = idOf[r].id
			}
			if r != nil || nilDrains < 3 {
				rec(nprod, in, call, cout{ID: id})
			}
			if r == nil {
				nilDrains++ // further nil results are read-only no-ops: leaving them out of the history is sound
			}
			yieldNow()
		}
	}()
	close(start)
	wd := time.After(60 * time.Second)
	select {
	case <-consDone:
	case <-wd:
		c.Inconclusive("concurrent history did not finish within the 60s watchdog")
		return
	}
	<-prodDone

	// final drain (sequential, after everything returned) - part of the history too
	for {
		call := atomic.AddInt64(&clock, 1)
		r := q.TryPop(queue.NewMessagePrioritizer(st), queue.FilterAny)
		id := -1
		if r != nil {
			id = idOf[r].id
		}
		rec(nprod, cin{Kind: 2, Filter: 0}, call, cout{ID: id})
		if r == nil {
			break
		}
	}

	// conservation check (independent of porcupine)
	pushedOK := map[int]bool{}
	popCount := map[int]int{}
	overlap := false
	for i, o := range ops {
		in, out := o.Input.(cin), o.Output.(cout)
		if in.Kind <= 1 && out.OK {
			pushedOK[in.ID] = true
		}
		if in.Kind >= 2 && out.ID >= 0 {
			popCount[out.ID]++
		}
		for j := 0; j < i; j++ {
			if ops[j].Call < o.Return && o.Call < ops[j].Return && ops[j].ClientId != o.ClientId {
				overlap = true
			}
		}
	}
	hist := func() []string {
		var h []string
		for _, o := range ops {
			in, out := o.Input.(cin), o.Output.(cout)
			nm := []string{"Push", "TryPush", "TryPop", "Pop"}[in.Kind]
			if in.Kind <= 1 {
				h = append(h, fmt.Sprintf("[%d,%d] c%d %s(#%d %s)=%v", o.Call, o.Return, o.ClientId, nm, in.ID, descs[in.ID], out.OK))
			} else {
				h = append(h, fmt.Sprintf("[%d,%d] c%d %s(%s)=#%d", o.Call, o.Return, o.ClientId, nm, fl[in.Filter].name, out.ID))
			}
		}
		return h
	}
	for id := range pushedOK {
		if popCount[id] == 0 {
			c.Violation("lost-message", "concurrent", fmt.Sprintf("message #%d (%s) pushed but never popped (drained with FilterAny at the end)", id, descs[id]),
				map[string]any{"capacity": capacity, "history": hist()})
			return
		}
	}
	for id, n := range popCount {
		if n > 1 || !pushedOK[id] {
			c.Violation("duplicate-pop", "concurrent", fmt.Sprintf("message #%d popped %d times (pushed ok: %v)", id, n, pushedOK[id]),
				map[string]any{"capacity": capacity, "history": hist()})
			return
		}
	}

	model := porcupine.Model{
		Init: func() interface{} { return uint32(0) },
		Step: func(state, input, output interface{}) (bool, interface{}) {
			s := state.(uint32)
			in, out := input.(cin), output.(cout)
			switch in.Kind {
			case 0:
				return true, s | 1<<uint(in.ID)
			case 1:
				if out.OK {
					return true, s | 1<<uint(in.ID)
				}
				return !bigCap, s // with capacity >= total pushes a refusal is never legal
			default:
				if out.ID < 0 {
					if out.ID == -2 {
						return false, s
					}
					for i := 0; i < npush; i++ {
						if s&(1<<uint(i)) != 0 && adm[in.Filter][i] {
							return false, s
						}
					}
					return true, s
				}
				if s&(1<<uint(out.ID)) == 0 || !adm[in.Filter][out.ID] {
					return false, s
				}
				if in.Kind == 2 { // TryPop: coarse priority maximality
					for i := 0; i < npush; i++ {
						if s&(1<<uint(i)) != 0 && adm[in.Filter][i] && class[i] > class[out.ID] {
							return false, s
						}
					}
				}
				return true, s &^ (1 << uint(out.ID))
			}
		},
		Equal: func(a, b interface{}) bool { return a.(uint32) == b.(uint32) },
	}
	res, _ := porcupine.CheckOperationsVerbose(model, ops, 20*time.Second)
	c.Count("conc_ops", int64(len(ops)))
	switch res {
	case porcupine.Illegal:
		c.Violation("not-linearizable", "concurrent", "recorded history has no linearization against the multiset/priority model",
			map[string]any{"capacity": capacity, "state": st, "history": hist()})
	case porcupine.Unknown:
		c.Inconclusive("porcupine timed out")
	default:
		c.Count("conc_histories_linearizable", 1)
		if overlap {
			h := evid.Hash(fmt.Sprint(hist()))
			c.Nontrivial(h)
			c.Distinct("conc_interleavings", h)
		}
	}
	if c.Index == 0 && c.Idx == 0 {
		c.Sample(map[string]any{"capacity": capacity, "producers": nprod, "history": hist()})
	}
}

// ---- consumer lane: the real queue consumer of the validator ------------------------------------------------

// runConsumer pushes messages through Validator.HandleMessage before a duty starts (only ExecuteDuty is admitted then),
// runs the duty with the whole cluster's real traffic through the real consumer goroutines, pushes late messages, and
// checks conservation at quiescent points: what the driver pushed and no consumer handled must still be in the real
// queue (Len()), nothing may be handled that was not pushed, nothing twice.
func runConsumer(c *evid.Case) {
	env := c.Data.(*dsim.Env)
	rng := c.Rng
	n := 4
	role := []spectypes.BeaconRole{spectypes.BNRoleAttester, spectypes.BNRoleAggregator, spectypes.BNRoleProposer, spectypes.BNRoleSyncCommittee,
		spectypes.BNRoleSyncCommitteeContribution}[rng.Intn(5)]
	cl := dsim.NewCluster(env, rng, dsim.Config{N: n, Mode: "queue", Variants: true})
	defer cl.Close()
	slot := dsim.BaseSlot(role, 0, false)
	height := specqbft.Height(slot)
	id := dsim.MsgID(cl.KS.ValidatorPK.Serialize(), role)
	hon := cl.Honest()
	violated := false
	leftQueuedSeen, handled := 0, 0
	check := func(phase string) {
		if violated {
			return
		}
		if cl.QueueStuck {
			violated = true
			c.Violation("pop-blocked-with-admissible", role.String()+"/"+phase, "the consumer did not pop a queued message that its filter admits (50 s watchdog): lost, or the pop never returned it", map[string]any{"actions": tailS(cl.Acts, 80)})
			return
		}
		for _, op := range hon {
			real, model := op.QueueRealLen(role), op.QueueModelLen(role)
			if model > 0 {
				leftQueuedSeen++
			}
			// A message the filter does not admit gives no completion signal: the consumer may be between taking it from the
			// inbox channel and linking it into its list. Re-read for up to 2 s; a lost message stays lost.
			for try := 0; real != model && try < 200; try++ {
				time.Sleep(10 * time.Millisecond)
				real, model = op.QueueRealLen(role), op.QueueModelLen(role)
			}
			if real != model {
				violated = true
				c.Violation("consumer-queue-conservation", role.String()+"/"+phase,
					fmt.Sprintf("operator %d role %s after %s: the real queue holds %d messages, but %d pushed messages have not been handled by any consumer (a message was lost or handled twice)", op.ID, role, phase, real, model),
					map[string]any{"role": role.String(), "phase": phase, "actions": tailS(cl.Acts, 80)})
				return
			}
		}
		if cl.QueueMismatch != 0 {
			violated = true
			c.Violation("consumer-handled-unexpected-message", role.String()+"/"+phase, fmt.Sprintf("%d runner calls from the consumer did not correspond to a queued message (duplicate or foreign pop)", cl.QueueMismatch),
				map[string]any{"role": role.String(), "actions": tailS(cl.Acts, 80)})
		}
		if cl.QueueStuck {
			violated = true
			c.Violation("pop-blocked-with-admissible", role.String()+"/"+phase, "the consumer did not pop a message that the filter admits (watchdog)", map[string]any{"actions": tailS(cl.Acts, 80)})
		}
	}
	// phase 0: early consensus traffic for the coming duty while no duty is running (must stay queued)
	early := 1 + rng.Intn(5)
	for i := 0; i < early; i++ {
		from := spectypes.OperatorID(1 + rng.Intn(n))
		t := []specqbft.MessageType{specqbft.PrepareMsgType, specqbft.CommitMsgType, specqbft.RoundChangeMsgType}[rng.Intn(3)]
		sm := env.SignQBFT(cl.KS, from, &specqbft.Message{MsgType: t, Height: height, Round: specqbft.Round(1 + rng.Intn(2)), Identifier: id[:], Root: qsim.Root([]byte("V-early"))})
		for _, op := range hon {
			if rng.Intn(2) == 0 && !cl.QueueStuck {
				_ = cl.Deliver(op, dsim.WrapConsensus(id, sm), "early")
			}
		}
	}
	check("early-traffic")
	// phase 1: the duty, with everything the cluster says going through the real queues
	duty := dsim.DutyFor(role, slot)
	for _, op := range hon {
		if violated {
			break
		}
		_ = cl.StartDuty(op, duty, "fresh", nil)
		check("duty-start")
	}
	for k := 0; k < 400 && !violated && !cl.QueueStuck; k++ {
		if cl.DrainAll(5+rng.Intn(20)) == 0 {
			break
		}
		check("duty-traffic")
	}
	for _, op := range hon {
		handled += len(op.Actions)
	}
	// phase 2: late messages after the duty
	for i := 0; i < 3 && !violated && !cl.QueueStuck; i++ {
		from := spectypes.OperatorID(1 + rng.Intn(n))
		sm := env.SignQBFT(cl.KS, from, &specqbft.Message{MsgType: specqbft.CommitMsgType, Height: height + specqbft.Height(rng.Intn(2)), Round: 1, Identifier: id[:], Root: qsim.Root([]byte("V-late"))})
		for _, op := range hon {
			_ = cl.Deliver(op, dsim.WrapConsensus(id, sm), "late")
		}
	}
	check("late-traffic")
	c.Count("consumer_histories", 1)
	c.Count("consumer_actions_handled", int64(handled))
	c.Count("consumer_checkpoints_with_messages_left_queued", int64(leftQueuedSeen))
	if leftQueuedSeen > 0 && handled > 0 {
		c.Nontrivial(evid.Hash("consumer", role, early, handled, leftQueuedSeen))
	}
	if c.Index == 0 && c.Idx == 0 {
		c.Sample(map[string]any{"lane": "consumer", "role": role.String(), "actions": tailS(cl.Acts, 40)})
	}
}

func tailS(a []string, n int) []string {
	if len(a) > n {
		return a[len(a)-n:]
	}
	return a
}
