// Package c06: the node's QBFT instance is observationally equal to the reference ssv-spec instance,
// and compaction does not change later outputs (property C06). Differential runtime monitor: the same
// input stream is fed to (R) specqbft.Instance, (N) instance.Instance, (C) instance.Instance compacted
// exactly when runner.compactInstanceIfNeeded would; everything observable is compared after every input.
package c06

import (
	"bytes"
	"encoding/hex"
	"fmt"
	"math/rand"
	"sort"
	"strings"

	specqbft "github.com/bloxapp/ssv-spec/qbft"
	spectypes "github.com/bloxapp/ssv-spec/types"
	"github.com/bloxapp/ssv-spec/types/testingutils"
	"go.uber.org/zap"

	"github.com/bloxapp/ssv/protocol/v2/qbft"
	"github.com/bloxapp/ssv/protocol/v2/qbft/instance"

	"verifharness/internal/evid"
	"verifharness/internal/qrun"
	"verifharness/internal/qsim"
)

func Spec() *evid.Spec {
	return &evid.Spec{
		ID:    "C06",
		Level: "exploration",
		Rule: "each case: the input stream one honest operator received in an adversarial cluster execution (committee 4 or 7, justified proposals, prepared round-changes, later rounds, decided messages, Byzantine traffic), " +
			"with seed-chosen single-field mutations (type/height/round/root/signers/signature/justifications/full data; re-signed or not), duplicates, replays (also after the decision) and extra timeouts, 1..90 inputs, " +
			"is fed to the spec instance, the node instance and a node instance compacted like the runner does; error/nil, encoded broadcasts, timer arms, (decided,value,aggregated commit) and state roots are compared after every input. " +
			"Non-trivial = at least one message was accepted (err==nil) by the instances and at least 5 inputs compared; distinct = hash of (input kinds, accept pattern)",
		Assumptions: []string{
			"reference = github.com/bloxapp/ssv-spec v0.3.7 (the version pinned in go.mod); behaviour both share is by definition not a difference",
			"compaction is applied after a message exactly when runner.compactInstanceIfNeeded does (round-change or decided-shaped message)",
		},
		MinNontrivial: 100,
		Lanes: []evid.Lane{{
			Name: "differential", Children: evid.Const(16, 16), Cases: evid.Const(40, 1000), TimeoutS: evid.Const(600, 7200),
			Setup: func(ch *evid.Child) { ch.Data = qsim.NewEnv() },
			Run:   run,
		}},
	}
}

type capNet struct{ out [][]byte }

func (n *capNet) Broadcast(m *spectypes.SSVMessage) error {
	b := append([]byte{byte(m.MsgType)}, m.MsgID[:]...)
	n.out = append(n.out, append(b, m.Data...))
	return nil
}

type specTimer struct{ arms []specqbft.Round }

func (t *specTimer) TimeoutForRound(r specqbft.Round) { t.arms = append(t.arms, r) }

type nodeTimer struct {
	arms    []specqbft.Round
	heights []specqbft.Height
}

func (t *nodeTimer) TimeoutForRound(h specqbft.Height, r specqbft.Round) {
	t.arms = append(t.arms, r)
	t.heights = append(t.heights, h)
}

type input struct {
	kind   qsim.InputKind
	msg    *specqbft.SignedMessage
	note   string
	replay bool
}

func cloneMsg(m *specqbft.SignedMessage) *specqbft.SignedMessage {
	b, err := m.Encode()
	if err != nil {
		return m
	}
	r := &specqbft.SignedMessage{}
	if r.Decode(b) != nil {
		return m
	}
	return r
}

// mutate applies one single-field mutation.
func mutate(rng *rand.Rand, ks *testingutils.TestKeySet, n int, m *specqbft.SignedMessage) (*specqbft.SignedMessage, string) {
	m = cloneMsg(m)
	resign := rng.Intn(2) == 0
	name := ""
	pick := rng.Intn(12)
	if (len(m.Message.RoundChangeJustification) > 0 || len(m.Message.PrepareJustification) > 0) && rng.Intn(2) == 0 {
		pick = 12
	}
	switch pick {
	case 12:
		// one field of one EMBEDDED justification message changes (as if taken from another height / round / value of the same
		// signer: the embedded message is re-signed by its own signer, so only the field itself can make it unacceptable)
		name = "embedded-" + mutateEmbedded(rng, ks, m)
		resign = true
	case 0:
		m.Message.MsgType = specqbft.MessageType(rng.Intn(5))
		name = "type"
	case 1:
		if rng.Intn(2) == 0 {
			m.Message.Height++
		} else {
			m.Message.Height--
		}
		name = "height"
	case 2:
		d := []int{-1, 1, 2, 5}[rng.Intn(4)]
		m.Message.Round = specqbft.Round(int(m.Message.Round) + d)
		name = "round"
	case 3:
		m.Message.Root[rng.Intn(32)] ^= 1
		name = "root"
	case 4:
		switch rng.Intn(4) {
		case 0:
			m.Signers = append(m.Signers, m.Signers[0])
		case 1:
			m.Signers = []spectypes.OperatorID{spectypes.OperatorID(1 + rng.Intn(n+1))}
		case 2:
			m.Signers = []spectypes.OperatorID{0}
		default:
			m.Signers = nil
		}
		name = "signers"
		resign = false
	case 5:
		m.Signature = append([]byte{}, m.Signature...)
		m.Signature[rng.Intn(len(m.Signature))] ^= 0x40
		name = "signature"
		resign = false
	case 6:
		if len(m.Message.RoundChangeJustification) > 0 {
			m.Message.RoundChangeJustification = m.Message.RoundChangeJustification[:len(m.Message.RoundChangeJustification)-1]
		} else {
			m.Message.RoundChangeJustification = [][]byte{{1, 2, 3}}
		}
		name = "rc-justification"
	case 7:
		if len(m.Message.PrepareJustification) > 0 {
			m.Message.PrepareJustification = m.Message.PrepareJustification[1:]
		} else {
			m.Message.PrepareJustification = [][]byte{{9}}
		}
		name = "prepare-justification"
	case 8:
		if len(m.FullData) > 0 && rng.Intn(2) == 0 {
			m.FullData = nil
		} else {
			m.FullData = []byte("V9-mutated")
		}
		name = "fulldata"
		resign = false
	case 9:
		m.Message.DataRound = specqbft.Round(rng.Intn(4))
		name = "data-round"
	case 10:
		m.FullData = []byte("V9-mutated")
		m.Message.Root = qsim.Root(m.FullData)
		name = "value+root"
	default:
		m.Message.Identifier = append([]byte{}, m.Message.Identifier...)
		if len(m.Message.Identifier) > 0 {
			m.Message.Identifier[len(m.Message.Identifier)-1] ^= 1
		}
		name = "identifier"
	}
	if resign && len(m.Signers) == 1 {
		if _, ok := ks.Shares[m.Signers[0]]; ok {
			s := qsim.Sign(ks, m.Signers[0], &m.Message)
			m.Signature = s.Signature
			name += "+resigned"
		}
	}
	return m, name
}

// mutateEmbedded changes one field of one message inside m's round-change or prepare justification (or, one level deeper, of
// a prepare inside an embedded round-change) and re-signs that embedded message with its own signer's key.
func mutateEmbedded(rng *rand.Rand, ks *testingutils.TestKeySet, m *specqbft.SignedMessage) string {
	edit := func(list [][]byte, depth int) ([][]byte, string) {
		i := rng.Intn(len(list))
		em := &specqbft.SignedMessage{}
		if em.Decode(list[i]) != nil {
			return list, "undecodable"
		}
		what := ""
		if depth == 0 && len(em.Message.RoundChangeJustification) > 0 && rng.Intn(3) == 0 {
			var inner string
			em.Message.RoundChangeJustification, inner = editList(rng, ks, em.Message.RoundChangeJustification)
			what = "nested-" + inner
		} else {
			what = editField(rng, &em.Message)
		}
		if len(em.Signers) == 1 {
			if _, ok := ks.Shares[em.Signers[0]]; ok {
				em.Signature = qsim.Sign(ks, em.Signers[0], &em.Message).Signature
			}
		}
		if b, err := em.Encode(); err == nil {
			list = append([][]byte{}, list...)
			list[i] = b
		}
		return list, what
	}
	var what string
	if len(m.Message.RoundChangeJustification) > 0 && (len(m.Message.PrepareJustification) == 0 || rng.Intn(2) == 0) {
		m.Message.RoundChangeJustification, what = edit(m.Message.RoundChangeJustification, 0)
		return "rc-" + what
	}
	m.Message.PrepareJustification, what = edit(m.Message.PrepareJustification, 1)
	return "prepare-" + what
}

func editList(rng *rand.Rand, ks *testingutils.TestKeySet, list [][]byte) ([][]byte, string) {
	i := rng.Intn(len(list))
	em := &specqbft.SignedMessage{}
	if em.Decode(list[i]) != nil {
		return list, "undecodable"
	}
	what := editField(rng, &em.Message)
	if len(em.Signers) == 1 {
		if _, ok := ks.Shares[em.Signers[0]]; ok {
			em.Signature = qsim.Sign(ks, em.Signers[0], &em.Message).Signature
		}
	}
	if b, err := em.Encode(); err == nil {
		list = append([][]byte{}, list...)
		list[i] = b
	}
	return list, what
}

func editField(rng *rand.Rand, msg *specqbft.Message) string {
	switch rng.Intn(6) {
	case 0:
		if rng.Intn(2) == 0 || msg.Height == 0 {
			msg.Height++
		} else {
			msg.Height--
		}
		return "height"
	case 1:
		d := []int{-1, 1, 2}[rng.Intn(3)]
		msg.Round = specqbft.Round(int(msg.Round) + d)
		return "round"
	case 2:
		msg.Root[rng.Intn(32)] ^= 1
		return "root"
	case 3:
		msg.MsgType = specqbft.MessageType(rng.Intn(5))
		return "type"
	case 4:
		msg.DataRound = specqbft.Round(rng.Intn(4))
		return "data-round"
	default:
		msg.Identifier = append([]byte{}, msg.Identifier...)
		if len(msg.Identifier) > 0 {
			msg.Identifier[len(msg.Identifier)-1] ^= 1
		}
		return "identifier"
	}
}

func run(c *evid.Case) {
	env := c.Data.(*qsim.Env)
	rng := c.Rng
	cfg := qrun.GenConfig(rng, "quick") // committees of 4 and 7 (the property's quantifier)
	if rng.Intn(2) == 0 {
		// half of the streams come from calmer executions so that decisions (and what follows them) are reached often
		cfg.Policy = 2
		if cfg.NumByz > 1 {
			cfg.NumByz = 1
		}
	}
	cfg.MaxSteps = 40*cfg.N + rng.Intn(60*cfg.N)
	res := qrun.Run(c, env, cfg, nil)
	cl := res.Cl
	hs := cl.Honest()
	target := hs[rng.Intn(len(hs))]
	// build the input stream
	var ins []input
	for _, t := range target.Trace {
		switch t.Kind {
		case qsim.InStart:
		case qsim.InTimeout:
			ins = append(ins, input{kind: qsim.InTimeout})
		case qsim.InMsg:
			m := t.Msg
			note := ""
			hasJust := len(m.Message.RoundChangeJustification) > 0 || len(m.Message.PrepareJustification) > 0
			if rng.Intn(7) == 0 || (hasJust && rng.Intn(3) == 0) {
				m, note = mutate(rng, cl.KS, cfg.N, m)
			}
			ins = append(ins, input{kind: qsim.InMsg, msg: m, note: note})
			if rng.Intn(15) == 0 {
				ins = append(ins, input{kind: qsim.InMsg, msg: m, note: "duplicate"})
			}
			if rng.Intn(25) == 0 {
				ins = append(ins, input{kind: qsim.InTimeout, note: "extra"})
			}
		}
		if len(ins) > 90 {
			break
		}
	}
	// replays of earlier messages at later positions (incl. after the decision at the end)
	nrep := rng.Intn(6)
	for i := 0; i < nrep && len(ins) > 2; i++ {
		src := rng.Intn(len(ins))
		if ins[src].kind != qsim.InMsg {
			continue
		}
		pos := src + 1 + rng.Intn(len(ins)-src)
		if rng.Intn(2) == 0 {
			pos = len(ins)
		}
		rep := input{kind: qsim.InMsg, msg: ins[src].msg, note: "replay"}
		ins = append(ins[:pos], append([]input{rep}, ins[pos:]...)...)
	}

	share := qsim.ShareFor(cl.KS, target.ID)
	km := testingutils.NewTestingKeyManager()
	rNet, nNet, cNet := &capNet{}, &capNet{}, &capNet{}
	rTim, nTim, cTim := &specTimer{}, &nodeTimer{}, &nodeTimer{}
	R := specqbft.NewInstance(&specqbft.Config{Signer: km, SigningPK: share.SharePubKey, Domain: qsim.Domain, ValueCheckF: qsim.ValueCheck,
		ProposerF: specqbft.RoundRobinProposer, Network: rNet, Timer: rTim}, qsim.ShareFor(cl.KS, target.ID), cl.ID, cfg.Height)
	mk := func(net *capNet, tm *nodeTimer) *instance.Instance {
		return instance.NewInstance(&qbft.Config{Signer: km, SigningPK: share.SharePubKey, Domain: qsim.Domain, ValueCheckF: qsim.ValueCheck,
			ProposerF: specqbft.RoundRobinProposer, Network: net, Timer: tm, SignatureVerification: true}, qsim.ShareFor(cl.KS, target.ID), cl.ID, cfg.Height)
	}
	N := mk(nNet, nTim)
	C := mk(cNet, cTim)
	lg := zap.NewNop()

	var hist []string
	var ownOut [][]byte // everything the reference instance broadcast so far
	diverged := false
	accepted := 0
	seenEnc := map[string]bool{}
	pattern := []any{cfg.N}
	report := func(idx int, in input, side, what, detail string, decidedBefore, isReplay bool) {
		if diverged {
			return
		}
		diverged = true
		kind := "node-differs-from-spec"
		if side == "C" {
			kind = "compaction-changes-output"
		}
		it := "TIMEOUT"
		if in.kind == qsim.InMsg {
			it = []string{"PROPOSAL", "PREPARE", "COMMIT", "RC", "UNKNOWN"}[min(int(in.msg.Message.MsgType), 4)]
		}
		ctx := "undecided"
		if decidedBefore {
			ctx = "decided"
		}
		rp := "fresh"
		if isReplay {
			rp = "replay"
		}
		sig := fmt.Sprintf("%s/%s/%s/%s", ctx, rp, it, what)
		c.Violation(kind, sig, fmt.Sprintf("input #%d (%s %s): %s: %s", idx, it, in.note, what, detail),
			map[string]any{"config": cfg, "target": target.ID, "inputs": hist, "cluster_actions": cl.Acts})
	}

	// start
	R.Start(target.Start, cfg.Height)
	N.Start(lg, target.Start, cfg.Height)
	C.Start(lg, target.Start, cfg.Height)
	cmpOut := func(idx int, in input, decidedBefore, isReplay bool) {
		if !eqOut(rNet.out, nNet.out) {
			report(idx, in, "N", "broadcasts", fmt.Sprintf("spec broadcast %s, node broadcast %s", descOut(rNet.out), descOut(nNet.out)), decidedBefore, isReplay)
		}
		if !eqOut(rNet.out, cNet.out) {
			report(idx, in, "C", "broadcasts", fmt.Sprintf("uncompacted/spec broadcast %s, compacted node broadcast %s", descOut(rNet.out), descOut(cNet.out)), decidedBefore, isReplay)
		}
		if fmt.Sprint(rTim.arms) != fmt.Sprint(nTim.arms) {
			report(idx, in, "N", "timer-arms", fmt.Sprintf("spec %v node %v", rTim.arms, nTim.arms), decidedBefore, isReplay)
		}
		if fmt.Sprint(rTim.arms) != fmt.Sprint(cTim.arms) {
			report(idx, in, "C", "timer-arms", fmt.Sprintf("spec %v compacted %v", rTim.arms, cTim.arms), decidedBefore, isReplay)
		}
		for _, h := range append(nTim.heights, cTim.heights...) {
			if h != cfg.Height {
				report(idx, in, "N", "timer-height", fmt.Sprintf("armed for height %d, instance height %d", h, cfg.Height), decidedBefore, isReplay)
			}
		}
		ownOut = append(ownOut, rNet.out...)
		rNet.out, nNet.out, cNet.out = nil, nil, nil
		rTim.arms, nTim.arms, cTim.arms, nTim.heights, cTim.heights = nil, nil, nil, nil, nil
		rr, _ := R.State.GetRoot()
		nr, _ := N.State.GetRoot()
		if rr != nr {
			report(idx, in, "N", "state-root", "State.GetRoot() differs between spec and node instance", decidedBefore, isReplay)
		}
		cr, _ := instance.CompactCopy(C.State, nil).GetRoot()
		rc, _ := instance.CompactCopy(R.State, nil).GetRoot()
		if cr != rc {
			report(idx, in, "C", "state-root", "compacted state differs from the compacted copy of the reference state", decidedBefore, isReplay)
		}
	}
	cmpOut(-1, input{kind: qsim.InTimeout, note: "start"}, false, false)

	// state-aware bursts: at seed-chosen points a quorum-sized burst of crafted, correctly signed messages aimed at the
	// reference instance's CURRENT round is spliced into the stream (round-changes for the current or next round from
	// distinct other operators, prepares / commits for the accepted or another root, the node's own earlier proposal looped
	// back): orders that an honest trace never produces, e.g. a round-change quorum completing after a proposal was accepted.
	burst := func() []input {
		st := R.State
		var out []input
		others := []spectypes.OperatorID{}
		for id := spectypes.OperatorID(1); int(id) <= cfg.N; id++ {
			if id != target.ID {
				others = append(others, id)
			}
		}
		rng.Shuffle(len(others), func(i, j int) { others[i], others[j] = others[j], others[i] })
		k := int(share.Quorum)
		if k > len(others) {
			k = len(others)
		}
		mk := func(id spectypes.OperatorID, m *specqbft.Message, full []byte) input {
			m.Height, m.Identifier = cfg.Height, cl.ID
			sm := qsim.Sign(cl.KS, id, m)
			sm.FullData = full
			return input{kind: qsim.InMsg, msg: sm, note: "burst"}
		}
		switch rng.Intn(6) {
		case 5: // f+1 .. quorum round-changes for a far round, up to the cut-off round: the f+1 rule jumps there
			r := specqbft.Round(9 + rng.Intn(7))
			kk := int(share.PartialQuorum) + rng.Intn(k-int(share.PartialQuorum)+1)
			for _, id := range others[:kk] {
				out = append(out, mk(id, &specqbft.Message{MsgType: specqbft.RoundChangeMsgType, Round: r}, nil))
			}
		case 0, 1: // round-change quorum for the current (or next) round
			r := st.Round + specqbft.Round(rng.Intn(2))
			for _, id := range others[:k] {
				out = append(out, mk(id, &specqbft.Message{MsgType: specqbft.RoundChangeMsgType, Round: r}, nil))
			}
		case 2: // prepares for the accepted proposal's root (or another root)
			root := qsim.Root([]byte("V9-burst"))
			if st.ProposalAcceptedForCurrentRound != nil && rng.Intn(4) != 0 {
				root = st.ProposalAcceptedForCurrentRound.Message.Root
			}
			for _, id := range others[:k] {
				out = append(out, mk(id, &specqbft.Message{MsgType: specqbft.PrepareMsgType, Round: st.Round, Root: root}, nil))
			}
		case 3: // commits
			root := qsim.Root([]byte("V9-burst"))
			if st.ProposalAcceptedForCurrentRound != nil && rng.Intn(4) != 0 {
				root = st.ProposalAcceptedForCurrentRound.Message.Root
			}
			for _, id := range others[:k] {
				out = append(out, mk(id, &specqbft.Message{MsgType: specqbft.CommitMsgType, Round: st.Round, Root: root}, nil))
			}
		default: // the node's own earlier broadcasts looped back (its proposal first), then a round-change quorum for that round
			for _, b := range ownOut {
				m := &specqbft.SignedMessage{}
				if len(b) > 57 && m.Decode(b[57:]) == nil && m.Message.MsgType == specqbft.ProposalMsgType {
					out = append(out, input{kind: qsim.InMsg, msg: m, note: "burst-own-proposal"})
					for _, id := range others[:k] {
						out = append(out, mk(id, &specqbft.Message{MsgType: specqbft.RoundChangeMsgType, Round: m.Message.Round}, nil))
					}
					break
				}
			}
		}
		return out
	}
	if rng.Intn(6) == 0 && len(ins) > 0 {
		// a walk of consecutive timeouts through the round cut-off, spliced in at a seed-chosen position
		pos := rng.Intn(len(ins) + 1)
		var walk []input
		for i := 0; i < 16; i++ {
			walk = append(walk, input{kind: qsim.InTimeout, note: "walk"})
		}
		ins = append(ins[:pos], append(walk, ins[pos:]...)...)
		c.Count("timeout_walks_spliced", 1)
	}
	queue := append([]input{}, ins...)
	for idx := 0; len(queue) > 0 && idx < 400; idx++ {
		if rng.Intn(14) == 0 {
			queue = append(burst(), queue...)
			c.Count("bursts_spliced", 1)
			if len(queue) == 0 {
				break
			}
		}
		in := queue[0]
		queue = queue[1:]
		if diverged {
			break
		}
		decidedBefore := R.State.Decided
		switch in.kind {
		case qsim.InTimeout:
			hist = append(hist, "timeout "+in.note)
			re := R.UponRoundTimeout()
			ne := N.UponRoundTimeout(lg)
			ce := C.UponRoundTimeout(lg)
			if (re == nil) != (ne == nil) {
				report(idx, in, "N", "error", fmt.Sprintf("spec err=%v node err=%v", re, ne), decidedBefore, false)
			}
			if (re == nil) != (ce == nil) {
				report(idx, in, "C", "error", fmt.Sprintf("spec err=%v compacted err=%v", re, ce), decidedBefore, false)
			}
			pattern = append(pattern, "T", re == nil)
			cmpOut(idx, in, decidedBefore, false)
		case qsim.InMsg:
			enc, _ := in.msg.Encode()
			isReplay := seenEnc[string(enc)]
			seenEnc[string(enc)] = true
			hist = append(hist, fmt.Sprintf("%s %s", qsim.Desc(in.msg), in.note))
			rd, rv, ra, re := R.ProcessMsg(cloneMsg(in.msg))
			nd, nv, na, ne := N.ProcessMsg(lg, cloneMsg(in.msg))
			cd, cv, ca, ce := C.ProcessMsg(lg, cloneMsg(in.msg))
			// compaction exactly when runner.compactInstanceIfNeeded would
			if in.msg.Message.MsgType == specqbft.RoundChangeMsgType ||
				(in.msg.Message.MsgType == specqbft.CommitMsgType && uint64(len(in.msg.Signers)) >= share.Quorum) {
				instance.Compact(C.State, in.msg)
				c.Count("compactions", 1)
			}
			if re == nil {
				accepted++
			}
			pattern = append(pattern, int(in.msg.Message.MsgType), re == nil)
			if (re == nil) != (ne == nil) {
				report(idx, in, "N", "error", fmt.Sprintf("spec err=%v node err=%v", re, ne), decidedBefore, isReplay)
			}
			if (re == nil) != (ce == nil) {
				report(idx, in, "C", "error", fmt.Sprintf("spec err=%v compacted err=%v", re, ce), decidedBefore, isReplay)
			}
			if rd != nd || !bytes.Equal(rv, nv) || encOf(ra) != encOf(na) {
				report(idx, in, "N", "decision", fmt.Sprintf("spec (%v,%q,%s) node (%v,%q,%s)", rd, rv, descM(ra), nd, nv, descM(na)), decidedBefore, isReplay)
			}
			if rd != cd || !bytes.Equal(rv, cv) || encOf(ra) != encOf(ca) {
				report(idx, in, "C", "decision", fmt.Sprintf("spec (%v,%q,%s) compacted (%v,%q,%s)", rd, rv, descM(ra), cd, cv, descM(ca)), decidedBefore, isReplay)
			}
			cmpOut(idx, in, decidedBefore, isReplay)
		}
		c.Count("inputs_compared", 1)
		if in.kind == qsim.InMsg && in.note != "" {
			n := in.note
			if i := strings.Index(n, "+resigned"); i >= 0 {
				n = n[:i]
			}
			c.Count("mutated_or_crafted/"+n, 1)
		}
	}
	c.Count("messages_accepted_by_reference", int64(accepted))
	if R.State.Decided {
		c.Count("sequences_reaching_decision", 1)
	}
	c.Max("max_round_reached", int64(R.State.Round))
	if accepted > 0 && len(ins) >= 5 {
		h := evid.Hash(pattern...)
		c.Nontrivial(h)
	}
	if c.Index == 0 && c.Idx < 2 {
		hh := hist
		if len(hh) > 40 {
			hh = hh[:40]
		}
		c.Sample(map[string]any{"config": cfg, "target": target.ID, "inputs": hh, "accepted": accepted})
	}
}

func eqOut(a, b [][]byte) bool {
	if len(a) != len(b) {
		return false
	}
	for i := range a {
		if !bytes.Equal(a[i], b[i]) {
			return false
		}
	}
	return true
}

func descOut(o [][]byte) string {
	s := "["
	for _, b := range o {
		m := &specqbft.SignedMessage{}
		if len(b) > 57 && m.Decode(b[57:]) == nil {
			s += qsim.Desc(m) + " "
		} else {
			s += hex.EncodeToString(b[:min(len(b), 8)]) + ".. "
		}
	}
	return s + "]"
}

// encOf renders an aggregated commit for comparison. The node deliberately sorts the signer list of the aggregate
// (its gossip validation demands sorted signers), the spec keeps arrival order: the certificate - message, set of
// signers, aggregate signature, value - is the same decision, so signer order is normalised before comparing.
func encOf(m *specqbft.SignedMessage) string {
	if m == nil {
		return "<nil>"
	}
	m = cloneMsg(m)
	sort.Slice(m.Signers, func(i, j int) bool { return m.Signers[i] < m.Signers[j] })
	b, _ := m.Encode()
	return string(b) + "|" + string(m.FullData)
}

func descM(m *specqbft.SignedMessage) string {
	if m == nil {
		return "<nil>"
	}
	return qsim.Desc(m)
}

func min(a, b int) int {
	if a < b {
		return a
	}
	return b
}
