package qrun

import (
	"fmt"
	"math/rand"

	specqbft "github.com/bloxapp/ssv-spec/qbft"

	"verifharness/internal/qsim"
)

// directedConfig fixes the Byzantine operators and a height such that a Byzantine operator leads a round in 2..4
// (the "break" round of the lock-then-break strategy).
func directedConfig(rng *rand.Rand, cfg qsim.Config) qsim.Config {
	n := cfg.N
	ids := rng.Perm(n)[:cfg.NumByz]
	cfg.ByzIDs = ids
	isByz := map[int]bool{}
	for _, i := range ids {
		isByz[i] = true
	}
	for try := 0; try < 50; try++ {
		h := specqbft.Height(rng.Intn(4 * n))
		for r := 1 + rng.Intn(2); r <= 4; r++ {
			if isByz[int(qsim.Leader(n, h, specqbft.Round(r)))-1] {
				cfg.Height = h
				try = 1000
				break
			}
		}
	}
	cfg.ValueMode = 1 + rng.Intn(2)
	if cfg.MaxRound < 5 {
		cfg.MaxRound = 5
	}
	return cfg
}

// LockThenBreak is a directed strategy (a scheduling policy parametrised by the rng, not a fixed trace):
//
//	lost rounds   - 0..1 rounds in which the proposal is lost and everybody times out (leaves unprepared round-changes around)
//	lock round    - proposal and prepares reach every correct operator, commits reach only one of them (D): D decides v,
//	                the others are prepared on v but undecided; D's decided message is lost
//	break round   - the next Byzantine-led round: the correct operators other than D time out into it and the Byzantine
//	                leader proposes v' != v justified by one trick from a catalogue (stale round-changes, unprepared
//	                sub-quorum, mismatching highest prepared, no justification, forged prepared round-change, mixed rounds),
//	                after which all Byzantine operators prepare and commit v' towards everybody.
//
// Correct code rejects every trick; the monitors run after every delivery (track).
func LockThenBreak(cl *qsim.Cluster, track func()) string {
	rng := cl.Rng
	n, h := cl.Cfg.N, cl.Cfg.Height
	byz := cl.ByzNodes()
	hon := cl.Honest()
	if len(byz) == 0 {
		return ""
	}
	isByz := func(r specqbft.Round) *qsim.Node {
		nd := cl.Nodes[qsim.Leader(n, h, r)-1]
		if nd.Byz {
			return nd
		}
		return nil
	}
	var rB specqbft.Round
	for r := specqbft.Round(2); r <= 4; r++ {
		if isByz(r) != nil {
			rB = r
			break
		}
	}
	if rB == 0 {
		return ""
	}
	b := isByz(rB)
	rL := rB - 1
	if rB >= 3 && rng.Intn(2) == 0 {
		rL = rB - 2
	}
	D := hon[rng.Intn(len(hon))]
	v := []byte(nil)
	typeIs := func(t specqbft.MessageType) func(f *qsim.Flight) bool {
		return func(f *qsim.Flight) bool { return f.Msg.Message.MsgType == t && len(f.Msg.Signers) == 1 }
	}
	any := func(*qsim.Flight) bool { return true }
	timeoutAll := func(nodes []*qsim.Node, r specqbft.Round) {
		for _, nd := range nodes {
			if st := nd.Inst(); st != nil && !st.Decided && st.Round == r {
				_ = cl.FireTimeoutFor(nd, h, r)
				cl.Act("timeout n%d r%d", nd.ID, r)
				track()
			}
		}
	}
	byzRC := func(r specqbft.Round) {
		for _, z := range byz {
			cl.ByzSendTo(z, cl.MkRoundChange(z, r, false), "round-change", hon)
		}
	}
	// rounds before the lock round are lost
	for r := specqbft.Round(1); r < rL; r++ {
		cl.DropWhere(any)
		timeoutAll(hon, r)
		byzRC(r + 1)
		cl.DeliverWhere(typeIs(specqbft.RoundChangeMsgType), track)
	}
	// lock round: if a Byzantine operator leads it, it proposes honestly
	if z := isByz(rL); z != nil {
		val := cl.Values[rng.Intn(len(cl.Values))]
		var rcs []*specqbft.SignedMessage
		if rL > 1 {
			rcs = qsim.UniqueBySigner(cl.SeenOf(specqbft.RoundChangeMsgType, rL), nil)
		}
		cl.ByzSendTo(z, cl.MkProposal(z, rL, val, rcs, nil), "honest-looking proposal", hon)
	}
	cl.DeliverWhere(typeIs(specqbft.ProposalMsgType), track)
	// which value got accepted?
	for _, nd := range hon {
		if st := nd.Inst(); st != nil && st.ProposalAcceptedForCurrentRound != nil && st.Round == rL {
			v = st.ProposalAcceptedForCurrentRound.FullData
		}
	}
	if v == nil {
		return "lock-then-break(aborted: no proposal accepted in the lock round)"
	}
	for _, z := range byz {
		cl.ByzSendTo(z, cl.MkSimple(z, specqbft.PrepareMsgType, rL, qsim.Root(v)), "prepare", hon)
	}
	cl.DeliverWhere(typeIs(specqbft.PrepareMsgType), track)
	// commits reach only D (plus the Byzantine commits), everything else is lost
	for _, z := range byz {
		cl.ByzSendTo(z, cl.MkSimple(z, specqbft.CommitMsgType, rL, qsim.Root(v)), "commit", []*qsim.Node{D})
	}
	cl.DeliverWhere(func(f *qsim.Flight) bool {
		return f.To == D.ID && f.Msg.Message.MsgType == specqbft.CommitMsgType && len(f.Msg.Signers) == 1
	}, track)
	cl.DropWhere(any)
	others := []*qsim.Node{}
	for _, nd := range hon {
		if nd != D {
			others = append(others, nd)
		}
	}
	// honest-led rounds between lock and break are lost for the others
	for r := rL; r < rB; r++ {
		timeoutAll(others, r)
		if r+1 < rB {
			cl.DeliverWhere(func(f *qsim.Flight) bool { return f.Msg.Message.MsgType == specqbft.RoundChangeMsgType && f.To != D.ID }, track)
			cl.DropWhere(any)
		}
	}
	// break round
	var vp []byte
	for _, x := range cl.Values {
		if string(x) != string(v) {
			vp = x
		}
	}
	trick := rng.Intn(10)
	// a neighbouring height of the same validator and role, at which the correct operators signed messages too
	hOther := h + 1
	if h > 0 {
		hOther = h - 1
	}
	var rcs, prs []*specqbft.SignedMessage
	cur := qsim.UniqueBySigner(cl.SeenOf(specqbft.RoundChangeMsgType, rB), nil)
	name := ""
	switch trick {
	case 0:
		name = "stale-round-changes-of-earlier-rounds"
		rcs = qsim.UniqueBySigner(cl.SeenOf(specqbft.RoundChangeMsgType, 0), func(m *specqbft.SignedMessage) bool {
			return m.Message.Round < rB && !m.Message.RoundChangePrepared()
		})
	case 1:
		name = "current-round-changes-but-other-value"
		rcs = append(cur, cl.MkRoundChange(b, rB, false))
		for _, m := range rcs {
			if m.Message.RoundChangePrepared() {
				prs, _ = m.Message.GetRoundChangeJustifications()
			}
		}
	case 2:
		name = "unprepared-sub-quorum"
		for _, z := range byz {
			rcs = append(rcs, cl.MkRoundChange(z, rB, false))
		}
	case 3:
		name = "no-justification"
	case 4:
		name = "forged-higher-prepared-round-change"
		forged := cl.MkForgedPreparedRC(b, rB, rB-1, vp, byz)
		rcs = append(cur, forged)
		prs, _ = forged.Message.GetRoundChangeJustifications()
	case 5:
		name = "mixed-rounds"
		rcs = qsim.UniqueBySigner(cl.SeenOf(specqbft.RoundChangeMsgType, 0), func(m *specqbft.SignedMessage) bool { return !m.Message.RoundChangePrepared() })
		rcs = append(rcs, cl.MkRoundChange(b, rB, false))
	case 6:
		name = "prepared-round-changes-with-stale-prepares-of-other-round"
		rcs = append(cur, cl.MkRoundChange(b, rB, false))
		prs = qsim.UniqueBySigner(cl.SeenOf(specqbft.PrepareMsgType, 0), nil)
	case 8:
		// the correct operators' unprepared round-changes for this very round number, but signed at another height (where that
		// round had failed too), plus a fresh one of the leader
		name = "round-changes-replayed-from-another-height"
		rcs = []*specqbft.SignedMessage{cl.MkRoundChange(b, rB, false)}
		for _, x := range hon {
			rcs = append(rcs, cl.MkUnpreparedRCAt(x, hOther, rB))
		}
	case 9:
		// the leader claims to be prepared on the other value in round rB-1, "justified" by prepares the correct operators signed
		// for that round and value at another height
		name = "prepares-replayed-from-another-height"
		var ps []*specqbft.SignedMessage
		for _, z := range byz {
			ps = append(ps, cl.MkSimple(z, specqbft.PrepareMsgType, rB-1, qsim.Root(vp)))
		}
		for _, x := range hon {
			ps = append(ps, cl.MkSimpleAt(x, hOther, specqbft.PrepareMsgType, rB-1, qsim.Root(vp)))
		}
		forged := cl.MkPreparedRCWith(b, rB, rB-1, vp, ps)
		rcs = append(cur, forged)
		prs = ps
	default:
		name = "duplicate-byzantine-round-changes"
		for i := 0; i < n; i++ {
			rcs = append(rcs, cl.MkRoundChange(b, rB, false))
		}
	}
	cl.ByzSendTo(b, cl.MkProposal(b, rB, vp, rcs, prs), "break proposal ["+name+"]", hon)
	cl.DeliverWhere(typeIs(specqbft.ProposalMsgType), track)
	for _, z := range byz {
		cl.ByzSendTo(z, cl.MkSimple(z, specqbft.PrepareMsgType, rB, qsim.Root(vp)), "prepare", hon)
	}
	cl.DeliverWhere(typeIs(specqbft.PrepareMsgType), track)
	for _, z := range byz {
		cl.ByzSendTo(z, cl.MkSimple(z, specqbft.CommitMsgType, rB, qsim.Root(vp)), "commit", hon)
	}
	cl.DeliverWhere(typeIs(specqbft.CommitMsgType), track)
	return fmt.Sprintf("lock-then-break(lock r%d, break r%d, %s)", rL, rB, name)
}

// SplitPrepare is a directed prefix (parametrised by the rng): one correct operator a becomes prepared on v in round 1
// (only it receives the prepare quorum), everybody times out, and in round 2 the other correct operators accept and
// prepare a different value v' that is legitimately justified by a quorum of UNPREPARED round-changes (theirs plus the
// Byzantine ones; a's prepared round-change arrives late). Commits are lost. Result: correct operators prepared on two
// values in different rounds - reachable with asynchrony and <= f Byzantine operators that follow the message grammar.
func SplitPrepare(cl *qsim.Cluster, track func()) bool { return SplitPrepareUpTo(cl, track, false) }

// SplitPrepareUpTo with early = true stops right after the round-2 leader has received its quorum of unprepared round-changes:
// if that leader is correct its proposal is in flight to everybody, including the operator that prepared alone in round 1.
func SplitPrepareUpTo(cl *qsim.Cluster, track func(), early bool) bool {
	n, h := cl.Cfg.N, cl.Cfg.Height
	hon, byz := cl.Honest(), cl.ByzNodes()
	if len(byz) == 0 {
		return false
	}
	isT := func(t specqbft.MessageType) func(f *qsim.Flight) bool {
		return func(f *qsim.Flight) bool { return f.Msg.Message.MsgType == t && len(f.Msg.Signers) == 1 }
	}
	anyF := func(*qsim.Flight) bool { return true }
	l1, l2 := cl.Nodes[qsim.Leader(n, h, 1)-1], cl.Nodes[qsim.Leader(n, h, 2)-1]
	// a: a correct operator that does not lead round 2
	var a *qsim.Node
	for _, x := range hon {
		if x != l2 {
			a = x
			break
		}
	}
	if a == nil {
		return false
	}
	// round 1 proposal reaches every correct operator
	if l1.Byz {
		cl.ByzSendTo(l1, cl.MkProposal(l1, 1, cl.Values[0], nil, nil), "proposal", hon)
	}
	cl.DeliverWhere(isT(specqbft.ProposalMsgType), track)
	st := a.Inst()
	if st == nil || st.ProposalAcceptedForCurrentRound == nil {
		return false
	}
	v := st.ProposalAcceptedForCurrentRound.FullData
	for _, z := range byz {
		cl.ByzSendTo(z, cl.MkSimple(z, specqbft.PrepareMsgType, 1, qsim.Root(v)), "prepare", []*qsim.Node{a})
	}
	// only a receives the prepares
	cl.DeliverWhere(func(f *qsim.Flight) bool { return f.To == a.ID && isT(specqbft.PrepareMsgType)(f) }, track)
	cl.DropWhere(anyF)
	if a.Inst().LastPreparedRound != 1 {
		return false
	}
	// everybody times out of round 1
	for _, x := range hon {
		_ = cl.FireTimeoutFor(x, h, 1)
	}
	var others []*qsim.Node
	for _, x := range hon {
		if x != a {
			others = append(others, x)
		}
	}
	// round 2: unprepared round-changes of the others and of the Byzantine operators reach the others (a's is delayed)
	for _, z := range byz {
		cl.ByzSendTo(z, cl.MkRoundChange(z, 2, false), "round-change", others)
	}
	cl.DeliverWhere(func(f *qsim.Flight) bool {
		return f.To != a.ID && f.From != a.ID && f.Msg.Message.MsgType == specqbft.RoundChangeMsgType && f.Msg.Message.Round == 2
	}, track)
	if early {
		if l2.Byz {
			return false
		}
		cl.Act("split-prepare (early cut): n%d prepared alone on %s in round 1, the round-2 leader n%d has a quorum of unprepared round-changes", a.ID, v[:2], l2.ID)
		if cl.Rng.Intn(2) == 0 {
			// round 2 goes on with complete delivery of the correct leader's proposal and of the prepares (the Byzantine operators
			// prepare it too); only the commits are lost
			cl.DeliverWhere(isT(specqbft.ProposalMsgType), track)
			var vp []byte
			for _, x := range others {
				if st := x.Inst(); st != nil && st.ProposalAcceptedForCurrentRound != nil && st.Round == 2 {
					vp = st.ProposalAcceptedForCurrentRound.FullData
				}
			}
			if vp != nil {
				for _, z := range byz {
					cl.ByzSendTo(z, cl.MkSimple(z, specqbft.PrepareMsgType, 2, qsim.Root(vp)), "prepare", hon)
				}
				cl.DeliverWhere(isT(specqbft.PrepareMsgType), track)
			}
			cl.DropWhere(func(f *qsim.Flight) bool { return f.Msg.Message.MsgType == specqbft.CommitMsgType })
		}
		return true
	}
	if l2.Byz {
		var vp []byte
		for _, x := range cl.Values {
			if string(x) != string(v) {
				vp = x
			}
		}
		rcs := qsim.UniqueBySigner(cl.SeenOf(specqbft.RoundChangeMsgType, 2), func(m *specqbft.SignedMessage) bool {
			return !m.Message.RoundChangePrepared()
		})
		cl.ByzSendTo(l2, cl.MkProposal(l2, 2, vp, rcs, nil), "proposal justified by unprepared round-changes", others)
	}
	cl.DeliverWhere(func(f *qsim.Flight) bool { return f.To != a.ID && isT(specqbft.ProposalMsgType)(f) }, track)
	var vp []byte
	for _, x := range others {
		if st := x.Inst(); st != nil && st.ProposalAcceptedForCurrentRound != nil && st.Round == 2 {
			vp = st.ProposalAcceptedForCurrentRound.FullData
		}
	}
	if vp == nil || string(vp) == string(v) {
		cl.DropWhere(anyF)
		return false
	}
	for _, z := range byz {
		cl.ByzSendTo(z, cl.MkSimple(z, specqbft.PrepareMsgType, 2, qsim.Root(vp)), "prepare", others)
	}
	cl.DeliverWhere(func(f *qsim.Flight) bool { return f.To != a.ID && isT(specqbft.PrepareMsgType)(f) }, track)
	// commits and everything else in flight are lost
	cl.DropWhere(anyF)
	cl.Act("split-prepare done: n%d prepared on %s in round 1, the other correct operators on %s in round 2", a.ID, v[:2], vp[:2])
	return true
}

// SplitVote is a directed strategy: in the first Byzantine-led round (earlier rounds are lost) the Byzantine leader
// equivocates - value v to one part of the correct operators (f+1 of them), value v' to the rest - with a legitimate
// justification where one is needed, and all Byzantine operators prepare and commit v towards the first part and v' towards
// the second. Quorum intersection must let at most one side decide.
func SplitVote(cl *qsim.Cluster, track func()) string {
	n, h := cl.Cfg.N, cl.Cfg.Height
	byz, hon := cl.ByzNodes(), cl.Honest()
	if len(byz) == 0 || len(hon) < 2 {
		return ""
	}
	var rB specqbft.Round
	var b *qsim.Node
	for r := specqbft.Round(1); r <= 4 && b == nil; r++ {
		if nd := cl.Nodes[qsim.Leader(n, h, r)-1]; nd.Byz {
			rB, b = r, nd
		}
	}
	if b == nil {
		return ""
	}
	isT := func(t specqbft.MessageType) func(f *qsim.Flight) bool {
		return func(f *qsim.Flight) bool { return f.Msg.Message.MsgType == t && len(f.Msg.Signers) == 1 }
	}
	anyF := func(*qsim.Flight) bool { return true }
	for r := specqbft.Round(1); r < rB; r++ { // lost rounds
		cl.DropWhere(anyF)
		for _, x := range hon {
			if st := x.Inst(); st != nil && !st.Decided && st.Round == r {
				_ = cl.FireTimeoutFor(x, h, r)
				track()
			}
		}
		for _, z := range byz {
			cl.ByzSendTo(z, cl.MkRoundChange(z, r+1, false), "round-change", hon)
		}
		cl.DeliverWhere(isT(specqbft.RoundChangeMsgType), track)
	}
	cl.DropWhere(isT(specqbft.ProposalMsgType))
	k := cl.F + 1 + cl.Rng.Intn(2) // size of the first part: f+1 (or f+2: then the second part is even further from a quorum)
	if k > len(hon)-1 {
		k = len(hon) - 1
	}
	perm := cl.Rng.Perm(len(hon))
	var h1, h2 []*qsim.Node
	for i, pi := range perm {
		if i < k {
			h1 = append(h1, hon[pi])
		} else {
			h2 = append(h2, hon[pi])
		}
	}
	v, vp := cl.Values[0], cl.Values[1]
	var rcs []*specqbft.SignedMessage
	if rB > 1 {
		rcs = qsim.UniqueBySigner(cl.SeenOf(specqbft.RoundChangeMsgType, rB), func(m *specqbft.SignedMessage) bool { return !m.Message.RoundChangePrepared() })
	}
	cl.ByzSendTo(b, cl.MkProposal(b, rB, v, rcs, nil), "split proposal v", h1)
	cl.ByzSendTo(b, cl.MkProposal(b, rB, vp, rcs, nil), "split proposal v'", h2)
	cl.DeliverWhere(isT(specqbft.ProposalMsgType), track)
	for _, z := range byz {
		cl.ByzSendTo(z, cl.MkSimple(z, specqbft.PrepareMsgType, rB, qsim.Root(v)), "prepare v", h1)
		cl.ByzSendTo(z, cl.MkSimple(z, specqbft.PrepareMsgType, rB, qsim.Root(vp)), "prepare v'", h2)
	}
	cl.DeliverWhere(isT(specqbft.PrepareMsgType), track)
	for _, z := range byz {
		cl.ByzSendTo(z, cl.MkSimple(z, specqbft.CommitMsgType, rB, qsim.Root(v)), "commit v", h1)
		cl.ByzSendTo(z, cl.MkSimple(z, specqbft.CommitMsgType, rB, qsim.Root(vp)), "commit v'", h2)
	}
	cl.DeliverWhere(isT(specqbft.CommitMsgType), track)
	return fmt.Sprintf("split-vote(round %d, parts %d/%d)", rB, len(h1), len(h2))
}

// DecideThenEquivocate is a directed strategy: in the first Byzantine-led round rB (earlier rounds are lost) the Byzantine
// leader shows value X only to the "fast" correct operators, which prepare, commit and decide it (one slow correct operator C
// sees nothing). Then the leader equivocates: a second, correctly signed proposal for another value Y in the SAME round goes
// to C and to the already decided operators, followed by the Byzantine prepares and commits for Y. An operator that already
// voted in that round must not vote again, whatever happened to its instance in between (runner compaction after a
// round-change or decided message, a timeout that came before the decided message). Variants (by the rng):
//
//	plain    - the fast operators decide by their own commit quorum
//	late     - one fast operator V times out of rB first and learns the decision from the decided message of another one
//	           (UponDecided lowers its round back to rB)
//
// In both, a Byzantine round-change is delivered to the decided operators before the second proposal (the real runner
// compacts the instance after every round-change message).
func DecideThenEquivocate(cl *qsim.Cluster, track func()) string {
	n, h := cl.Cfg.N, cl.Cfg.Height
	rng := cl.Rng
	byz, hon := cl.ByzNodes(), cl.Honest()
	if len(byz) == 0 || len(hon) < 3 {
		return ""
	}
	var rB specqbft.Round
	var b *qsim.Node
	for r := specqbft.Round(1); r <= 3 && b == nil; r++ {
		if nd := cl.Nodes[qsim.Leader(n, h, r)-1]; nd.Byz {
			rB, b = r, nd
		}
	}
	if b == nil || len(cl.Values) < 2 {
		return ""
	}
	typeIs := func(t specqbft.MessageType) func(f *qsim.Flight) bool {
		return func(f *qsim.Flight) bool { return f.Msg.Message.MsgType == t && len(f.Msg.Signers) == 1 }
	}
	any := func(*qsim.Flight) bool { return true }
	// earlier rounds are lost
	for r := specqbft.Round(1); r < rB; r++ {
		cl.DropWhere(any)
		for _, nd := range hon {
			if st := nd.Inst(); st != nil && !st.Decided && st.Round == r {
				_ = cl.FireTimeoutFor(nd, h, r)
				track()
			}
		}
		for _, z := range byz {
			cl.ByzSendTo(z, cl.MkRoundChange(z, r+1, false), "round-change", hon)
		}
		cl.DeliverWhere(typeIs(specqbft.RoundChangeMsgType), track)
	}
	cl.DropWhere(any)
	C := hon[rng.Intn(len(hon))]
	var fast []*qsim.Node
	for _, nd := range hon {
		if nd != C {
			fast = append(fast, nd)
		}
	}
	if len(fast)+len(byz) < n-cl.F {
		return ""
	}
	X, Y := cl.Values[0], cl.Values[1]
	if rng.Intn(2) == 0 {
		X, Y = Y, X
	}
	toFast := func(f *qsim.Flight) bool {
		for _, nd := range fast {
			if f.To == nd.ID {
				return true
			}
		}
		return false
	}
	var rcs []*specqbft.SignedMessage
	if rB > 1 {
		rcs = qsim.UniqueBySigner(cl.SeenOf(specqbft.RoundChangeMsgType, rB), func(m *specqbft.SignedMessage) bool { return !m.Message.RoundChangePrepared() })
	}
	cl.ByzSendTo(b, cl.MkProposal(b, rB, X, rcs, nil), "proposal X (fast operators only)", fast)
	cl.DeliverWhere(func(f *qsim.Flight) bool { return typeIs(specqbft.ProposalMsgType)(f) && toFast(f) }, track)
	for _, z := range byz {
		cl.ByzSendTo(z, cl.MkSimple(z, specqbft.PrepareMsgType, rB, qsim.Root(X)), "prepare X", fast)
	}
	cl.DeliverWhere(func(f *qsim.Flight) bool { return typeIs(specqbft.PrepareMsgType)(f) && toFast(f) }, track)
	variant := "plain"
	var V *qsim.Node
	if rng.Intn(2) == 0 && len(fast) >= 2 {
		variant = "late"
		V = fast[rng.Intn(len(fast))]
	}
	for _, z := range byz {
		cl.ByzSendTo(z, cl.MkSimple(z, specqbft.CommitMsgType, rB, qsim.Root(X)), "commit X", fast)
	}
	if V != nil {
		// V does not see the commit quorum: it times out first and then learns the decision from another operator's decided message
		cl.DeliverWhere(func(f *qsim.Flight) bool { return typeIs(specqbft.CommitMsgType)(f) && toFast(f) && f.To != V.ID }, track)
		if st := V.Inst(); st != nil && !st.Decided && st.Round == rB {
			_ = cl.FireTimeoutFor(V, h, rB)
			cl.Act("timeout n%d r%d (before the decided message)", V.ID, rB)
			track()
		}
		cl.DeliverWhere(func(f *qsim.Flight) bool {
			return f.To == V.ID && f.Msg.Message.MsgType == specqbft.CommitMsgType && len(f.Msg.Signers) > 1
		}, track)
	} else {
		cl.DeliverWhere(func(f *qsim.Flight) bool { return typeIs(specqbft.CommitMsgType)(f) && toFast(f) }, track)
	}
	// nothing of all this reaches C
	cl.DropWhere(func(f *qsim.Flight) bool { return f.To == C.ID })
	// a Byzantine round-change to the decided operators (the runner compacts after round-change messages)
	for _, z := range byz {
		cl.ByzSendTo(z, cl.MkRoundChange(z, rB+1, false), "round-change", fast)
	}
	cl.DeliverWhere(func(f *qsim.Flight) bool { return f.Byz && typeIs(specqbft.RoundChangeMsgType)(f) && toFast(f) }, track)
	// the equivocation: Y in the same round, to everybody
	cl.ByzSendTo(b, cl.MkProposal(b, rB, Y, rcs, nil), "second proposal Y (same round)", hon)
	cl.DeliverWhere(func(f *qsim.Flight) bool { return f.Byz && typeIs(specqbft.ProposalMsgType)(f) }, track)
	for _, z := range byz {
		cl.ByzSendTo(z, cl.MkSimple(z, specqbft.PrepareMsgType, rB, qsim.Root(Y)), "prepare Y", hon)
	}
	cl.DeliverWhere(func(f *qsim.Flight) bool {
		return typeIs(specqbft.PrepareMsgType)(f) && f.Msg.Message.Root == qsim.Root(Y)
	}, track)
	for _, z := range byz {
		cl.ByzSendTo(z, cl.MkSimple(z, specqbft.CommitMsgType, rB, qsim.Root(Y)), "commit Y", hon)
	}
	cl.DeliverWhere(func(f *qsim.Flight) bool {
		return typeIs(specqbft.CommitMsgType)(f) && f.Msg.Message.Root == qsim.Root(Y)
	}, track)
	return fmt.Sprintf("decide-then-equivocate(r%d, %s)", rB, variant)
}

// ReproposePrepared is a directed prefix for executions with an operator X whose own value check refuses a value the others
// accept (Config.Picky): the round-1 leader's value is made the refused one, everybody else accepts and prepares it, the commits
// are lost, everybody times out, and the round-2 leader re-proposes the prepared value with its justification. X must refuse
// that proposal like the first one; the others decide. No Byzantine operator takes part in the script.
func ReproposePrepared(cl *qsim.Cluster, track func()) string {
	n, h := cl.Cfg.N, cl.Cfg.Height
	var x *qsim.Node
	for _, nd := range cl.Honest() {
		if nd.Refuses != nil {
			x = nd
		}
	}
	l1 := cl.Nodes[qsim.Leader(n, h, 1)-1]
	l2 := cl.Nodes[qsim.Leader(n, h, 2)-1]
	if x == nil || l1.Byz || l2.Byz || l1 == x {
		return ""
	}
	x.Refuses = l1.Start
	typeIs := func(t specqbft.MessageType) func(f *qsim.Flight) bool {
		return func(f *qsim.Flight) bool { return f.Msg.Message.MsgType == t && len(f.Msg.Signers) == 1 && !f.Byz }
	}
	cl.DeliverWhere(typeIs(specqbft.ProposalMsgType), track)
	cl.DeliverWhere(typeIs(specqbft.PrepareMsgType), track)
	cl.DropWhere(func(f *qsim.Flight) bool { return f.Msg.Message.MsgType == specqbft.CommitMsgType })
	for _, nd := range cl.Honest() {
		if st := nd.Inst(); st != nil && !st.Decided && st.Round == 1 {
			_ = cl.FireTimeoutFor(nd, h, 1)
			track()
		}
	}
	cl.DeliverWhere(typeIs(specqbft.RoundChangeMsgType), track)
	cl.DeliverWhere(typeIs(specqbft.ProposalMsgType), track)
	cl.DeliverWhere(typeIs(specqbft.PrepareMsgType), track)
	cl.DeliverWhere(typeIs(specqbft.CommitMsgType), track)
	return "repropose-prepared"
}
