// Package qrun runs one adversarial execution of the QBFT cluster simulator with the consensus monitors
// (agreement C01, certificates C02) attached; the property packages choose which observations they report.
package qrun

import (
	"bytes"
	"fmt"
	"math/rand"

	specqbft "github.com/bloxapp/ssv-spec/qbft"
	spectypes "github.com/bloxapp/ssv-spec/types"

	"verifharness/internal/evid"
	"verifharness/internal/oracle"
	"verifharness/internal/qsim"
)

type Finding struct {
	Kind, Sig, Detail string
}

type Result struct {
	Cl         *qsim.Cluster
	Agreement  []Finding // C01 observations
	Certs      []Finding // C02 observations
	Decisions  int       // honest nodes that decided
	LocalDec   int       // decisions reached by counting commits
	RemoteDec  int       // decisions reached by accepting a decided message
	CertsSeen  int       // certificates checked by the oracle
	Traj       uint64    // hash of the abstract-state trajectory
	States     []uint64
	MaxRound   specqbft.Round
	Nontrivial bool
	Directed   string // directed strategy played first ("" = none)
}

// GenConfig draws an execution configuration.
func GenConfig(rng *rand.Rand, tier string) qsim.Config {
	n := 4
	switch k := rng.Intn(20); {
	case k < 9:
		n = 4
	case k < 18:
		n = 7
	case tier == "thorough" && k == 18:
		n = 10
	case tier == "thorough":
		n = 13
	case k == 18:
		n = 4
	default:
		n = 7
	}
	f := (n - 1) / 3
	cfg := qsim.Config{N: n}
	switch rng.Intn(4) {
	case 0:
		cfg.Height = specqbft.Height(rng.Intn(n)) // every leader rotation incl. height 0
	case 1:
		cfg.Height = specqbft.Height(n * (1 + rng.Intn(5))) // multiples of N
	default:
		cfg.Height = specqbft.Height(1 + rng.Intn(1000))
	}
	cfg.NumByz = rng.Intn(f + 1)
	if rng.Intn(3) == 0 {
		cfg.NumByz = f
	}
	cfg.SilentByz = cfg.NumByz > 0 && rng.Intn(5) == 0
	cfg.ValueMode = rng.Intn(3)
	cfg.Policy = rng.Intn(5)
	cfg.MaxSteps = 100*n + rng.Intn(40*n)
	cfg.MaxRound = 2 + rng.Intn(5)
	cfg.FullNode = rng.Intn(2) == 0
	cfg.Role = spectypes.BNRoleAttester
	cfg.RunnerCompaction = rng.Intn(3) == 0 // a third of the executions: instances compacted like the real node's runner does
	return cfg
}

func isDecidedShape(n int, m *specqbft.SignedMessage) bool {
	f := (n - 1) / 3
	return m.Message.MsgType == specqbft.CommitMsgType && len(m.Signers) >= 2*f+1
}

// Mon is the set of consensus monitors attached to one cluster.
type Mon struct {
	Res   *Result
	Check func()
}

// Attach wires the certificate monitors into the cluster's hooks and returns the per-step agreement/decision check.
func Attach(cl *qsim.Cluster) *Mon {
	cfg := cl.Cfg
	res := &Result{Cl: cl}
	n := cfg.N
	first := map[spectypes.OperatorID][]byte{} // first decided value reported per honest node

	cl.OnReturned = func(nd *qsim.Node, dec *specqbft.SignedMessage, via *specqbft.SignedMessage) {
		// C02: every decided message returned by Controller.ProcessMsg must be a verifiable certificate
		res.CertsSeen++
		if err := oracle.Certificate(cl.KS, n, qsim.Domain, cl.ID, dec.Message.Height, dec); err != nil {
			res.Certs = append(res.Certs, Finding{"returned-decision-without-valid-certificate", "ProcessMsg-return/" + classify(err),
				fmt.Sprintf("node %d: Controller.ProcessMsg(%s) returned decided %s which is not a valid quorum certificate: %v", nd.ID, qsim.Desc(via), qsim.Desc(dec), err)})
		}
	}
	cl.OnSave = func(nd *qsim.Node, ev qsim.SaveEvent) {
		res.CertsSeen++
		st := ev.Stored
		if st == nil || st.DecidedMessage == nil || st.State == nil {
			res.Certs = append(res.Certs, Finding{"stored-instance-without-certificate", ev.Kind, fmt.Sprintf("node %d: %s with nil certificate/state", nd.ID, ev.Kind)})
			return
		}
		if err := oracle.Certificate(cl.KS, n, qsim.Domain, cl.ID, st.State.Height, st.DecidedMessage); err != nil {
			res.Certs = append(res.Certs, Finding{"stored-instance-without-valid-certificate", ev.Kind + "/" + classify(err),
				fmt.Sprintf("node %d: %s stores %s: %v", nd.ID, ev.Kind, qsim.Desc(st.DecidedMessage), err)})
		}
		if !st.State.Decided || !bytes.Equal(st.State.DecidedValue, st.DecidedMessage.FullData) {
			res.Certs = append(res.Certs, Finding{"stored-state-disagrees-with-certificate", ev.Kind,
				fmt.Sprintf("node %d: stored state decided=%v value=%q vs certificate value %q", nd.ID, st.State.Decided, st.State.DecidedValue, st.DecidedMessage.FullData)})
		}
	}

	prevDecided := map[spectypes.OperatorID]bool{}
	check := func() {
		if len(res.Agreement) > 0 || len(res.Certs) > 3 {
			return // one witness per execution is enough
		}
		var ref []byte
		var refNode spectypes.OperatorID
		for _, nd := range cl.Honest() {
			st := nd.Inst()
			if st == nil {
				continue
			}
			if st.Round > res.MaxRound {
				res.MaxRound = st.Round
			}
			if !st.Decided {
				if prevDecided[nd.ID] {
					res.Agreement = append(res.Agreement, Finding{"decision-revoked", "state", fmt.Sprintf("node %d was decided and is not any more", nd.ID)})
				}
				continue
			}
			if !prevDecided[nd.ID] {
				// a fresh decision: how was it reached?
				prevDecided[nd.ID] = true
				res.Decisions++
				first[nd.ID] = append([]byte{}, st.DecidedValue...)
				last := nd.Trace[len(nd.Trace)-1]
				if last.Kind == qsim.InMsg && isDecidedShape(n, last.Msg) {
					res.RemoteDec++
					res.CertsSeen++
					if err := oracle.Certificate(cl.KS, n, qsim.Domain, cl.ID, cfg.Height, last.Msg); err != nil {
						res.Certs = append(res.Certs, Finding{"decided-by-invalid-decided-message", "UponDecided/" + classify(err),
							fmt.Sprintf("node %d decided on %s which is not a valid certificate: %v", nd.ID, qsim.Desc(last.Msg), err)})
					} else if !bytes.Equal(last.Msg.FullData, st.DecidedValue) {
						res.Certs = append(res.Certs, Finding{"decided-value-differs-from-certificate", "UponDecided", fmt.Sprintf("node %d", nd.ID)})
					}
				} else {
					res.LocalDec++
					// locally reached: value check + legitimate leader of the round + certificate returned
					if err := nd.ValueCheck(st.DecidedValue); err != nil {
						res.Certs = append(res.Certs, Finding{"local-decision-on-value-failing-value-check", "value-check",
							fmt.Sprintf("node %d decided %q which fails its own value check", nd.ID, st.DecidedValue)})
					}
					p := st.ProposalAcceptedForCurrentRound
					if p == nil {
						res.Certs = append(res.Certs, Finding{"local-decision-without-accepted-proposal", "proposal", fmt.Sprintf("node %d", nd.ID)})
					} else {
						ld := qsim.Leader(n, cfg.Height, p.Message.Round)
						if len(p.Signers) != 1 || p.Signers[0] != ld {
							res.Certs = append(res.Certs, Finding{"local-decision-on-proposal-not-from-leader", "leader",
								fmt.Sprintf("node %d decided in round %d on a proposal signed by %v, leader is %d", nd.ID, p.Message.Round, p.Signers, ld)})
						} else if err := oracle.VerifyAggregate(cl.KS, qsim.Domain, p); err != nil {
							res.Certs = append(res.Certs, Finding{"local-decision-on-proposal-with-bad-signature", "leader-signature", fmt.Sprintf("node %d: %v", nd.ID, err)})
						}
						if !bytes.Equal(p.FullData, st.DecidedValue) || qsim.Root(p.FullData) != p.Message.Root {
							res.Certs = append(res.Certs, Finding{"local-decision-value-not-the-proposed-value", "proposal-value", fmt.Sprintf("node %d", nd.ID)})
						}
					}
					if len(nd.Returned) == 0 {
						res.Certs = append(res.Certs, Finding{"local-decision-without-returned-certificate", "ProcessMsg-return", fmt.Sprintf("node %d", nd.ID)})
					}
				}
			} else if !bytes.Equal(first[nd.ID], st.DecidedValue) {
				sig := "state"
				if dv := doubleVote(cl); dv != "" {
					sig = dv
				}
				res.Agreement = append(res.Agreement, Finding{"decided-value-changed", sig,
					fmt.Sprintf("node %d first reported %q, now %q", nd.ID, first[nd.ID], st.DecidedValue)})
			}
			if ref == nil {
				ref, refNode = st.DecidedValue, nd.ID
			} else if !bytes.Equal(ref, st.DecidedValue) {
				sig := fmt.Sprintf("N=%d", n)
				if dv := doubleVote(cl); dv != "" {
					sig = dv
				}
				res.Agreement = append(res.Agreement, Finding{"disagreement", sig,
					fmt.Sprintf("node %d decided %q, node %d decided %q (height %d)", refNode, ref, nd.ID, st.DecidedValue, cfg.Height)})
			}
		}
		// decided messages returned must carry the same value as the state's
		for _, nd := range cl.Honest() {
			for _, d := range nd.Returned {
				if v, ok := first[nd.ID]; ok && d.Message.Height == cfg.Height && !bytes.Equal(d.FullData, v) {
					res.Agreement = append(res.Agreement, Finding{"returned-value-differs-from-state", "ProcessMsg-return",
						fmt.Sprintf("node %d returned decided value %q but state holds %q", nd.ID, d.FullData, v)})
				}
			}
		}
	}
	return &Mon{Res: res, Check: check}
}

// doubleVote names, for the signature of an agreement violation, how a CORRECT operator came to broadcast two commits for
// different values in one round (empty if none did): the history "timed out of the round, then learnt that round's decision
// from a decided message (UponDecided moves it back into the round, its accepted-proposal marker is gone), then the runner's
// compaction of the decided state cleared the propose container" is told apart from every other double vote.
func doubleVote(cl *qsim.Cluster) string {
	for _, nd := range cl.Honest() {
		seen := map[specqbft.Round][32]byte{}
		for _, m := range nd.AllOut {
			if m.Message.MsgType != specqbft.CommitMsgType || len(m.Signers) != 1 || m.Message.Height != cl.Cfg.Height {
				continue
			}
			r := m.Message.Round
			prev, ok := seen[r]
			if !ok {
				seen[r] = m.Message.Root
				continue
			}
			if prev == m.Message.Root {
				continue
			}
			// nd committed twice in round r
			timedOut, learnt := false, false
			for _, in := range nd.Trace {
				if in.Kind == qsim.InTimeout && in.Round == r && !in.Err {
					timedOut = true
				}
				if timedOut && in.Kind == qsim.InMsg && in.Msg != nil && !in.Err && in.Msg.Message.MsgType == specqbft.CommitMsgType &&
					len(in.Msg.Signers) > 1 && in.Msg.Message.Round == r {
					learnt = true
				}
			}
			if cl.Cfg.RunnerCompaction && timedOut && learnt {
				return "correct-operator-committed-twice-in-a-round/timeout-then-decided-message-of-that-round-then-runner-compaction"
			}
			if cl.Cfg.RunnerCompaction {
				return "correct-operator-committed-twice-in-a-round/runner-compaction"
			}
			return "correct-operator-committed-twice-in-a-round"
		}
	}
	return ""
}

// Run executes one adversarial execution and returns what the monitors observed. One execution in three opens with a
// directed strategy (lock-then-break) before the seed-driven scheduler takes over.
func Run(c *evid.Case, env *qsim.Env, cfg qsim.Config, after func(cl *qsim.Cluster)) *Result {
	directed := cfg.NumByz > 0 && !cfg.SilentByz && c.Rng.Intn(3) == 0
	if directed {
		cfg = directedConfig(c.Rng, cfg)
	}
	cl := qsim.NewCluster(env, c.Rng, cfg)
	mon := Attach(cl)
	res := mon.Res
	traj := []any{cfg.N, cfg.NumByz}
	lastState := ""
	track := func() {
		mon.Check()
		s := cl.AbstractState()
		if s != lastState {
			lastState = s
			res.States = append(res.States, evid.Hash(cfg.N, s))
			traj = append(traj, s)
		}
	}
	cl.StartAll()
	track()
	if cfg.Picky > 0 && c.Rng.Intn(2) == 0 {
		res.Directed = ReproposePrepared(cl, track)
	}
	if directed && res.Directed == "" {
		switch c.Rng.Intn(6) {
		case 0:
			if SplitPrepare(cl, track) {
				res.Directed = "split-prepare"
			}
		case 1:
			res.Directed = SplitVote(cl, track)
		case 2:
			res.Directed = DecideThenEquivocate(cl, track)
		default:
			res.Directed = LockThenBreak(cl, track)
		}
	}
	for len(res.Agreement) == 0 && cl.Step() {
		track()
		if after != nil {
			after(cl)
		}
		if len(res.Agreement) > 0 || len(res.Certs) > 3 {
			break
		}
		if cl.AllHonestDecided() && cl.Steps > 20 && c.Rng.Intn(10) == 0 {
			break // keep running a while after the decision (late messages, decided replays), then stop
		}
	}
	res.Traj = evid.Hash(traj...)
	res.Nontrivial = res.Decisions > 0 && (cl.ByzAccepted > 0 || cl.Timeouts > 0)
	return res
}

func classify(err error) string {
	s := err.Error()
	for _, k := range []string{"not commit", "height", "identifier", "zero signer", "duplicate signer", "foreign signer", "quorum", "hash to root", "deserialize", "not a committee member", "does not verify"} {
		if bytes.Contains([]byte(s), []byte(k)) {
			return k
		}
	}
	return "other"
}

// Witness renders the execution for a replay file.
func Witness(res *Result) map[string]any {
	return map[string]any{"config": res.Cl.Cfg, "actions": res.Cl.Acts, "final_state": res.Cl.AbstractState()}
}
