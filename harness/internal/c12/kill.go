package c12

// Lane "kill": validation of the in-process crash model against a real process death.
//
// For sampled interruption points the same sequence is run by a helper process (this binary,
// re-executed with VERIF_C12_KID set) on an ON-DISK badger; at the chosen operation the helper
// sends itself SIGKILL (before the operation takes effect, or right after). A second helper
// process then starts on the surviving directory, resumes from last processed + 1, finishes and
// reports the final records. They must equal what the in-process model (faultdb panic + dropped
// transactions + rebuilt objects) predicts for the same point; a disagreement makes the run
// inconclusive (the model would be unfaithful), a divergence from the uninterrupted run that only
// the real kill shows is a violation.

import (
	"encoding/json"
	"fmt"
	"os"
	"os/exec"
	"path/filepath"
	"sort"
	"strings"
	"syscall"
	"time"

	ethcommon "github.com/ethereum/go-ethereum/common"
	ethtypes "github.com/ethereum/go-ethereum/core/types"
	"go.uber.org/zap"

	"github.com/bloxapp/ssv/storage/basedb"
	"github.com/bloxapp/ssv/storage/kv"

	"verifharness/internal/evid"
	"verifharness/internal/faultdb"
	"verifharness/internal/regsim"
)

const kidEnv = "VERIF_C12_KID"

type kidInput struct {
	PEM    []byte              `json:"pem"`
	Nums   []uint64            `json:"nums"`
	Logs   [][]ethtypes.Log    `json:"logs"`
	Owners []ethcommon.Address `json:"owners"`
	At     int                 `json:"at"`
	Mode   int                 `json:"mode"`
	Dir    string              `json:"dir"`
}

type kidOutput struct {
	State  []string `json:"state"`
	Keys   []string `json:"keys"`
	From   uint64   `json:"from"`
	Err    string   `json:"err,omitempty"`
	NumOps int      `json:"ops"`
}

// The helper process is this very binary: when VERIF_C12_KID names an input file, the process is
// a helper and never reaches main().
func init() {
	if p := os.Getenv(kidEnv); p != "" {
		os.Exit(kidMain(p))
	}
}

func kidMain(path string) int {
	var in kidInput
	b, err := os.ReadFile(path)
	if err != nil || json.Unmarshal(b, &in) != nil {
		fmt.Fprintln(os.Stderr, "kid: bad input", err)
		return 2
	}
	out := kidOutput{}
	finish := func(code int) int {
		ob, _ := json.Marshal(&out)
		_ = os.WriteFile(filepath.Join(in.Dir, "out.json.tmp"), ob, 0o644)
		_ = os.Rename(filepath.Join(in.Dir, "out.json.tmp"), filepath.Join(in.Dir, "out.json"))
		return code
	}
	env, err := regsim.NewEnvFromPEM(in.PEM)
	if err != nil {
		out.Err = "env: " + err.Error()
		return finish(2)
	}
	db, err := kv.New(zap.NewNop(), basedb.Options{Path: filepath.Join(in.Dir, "db")})
	if err != nil {
		out.Err = "open badger: " + err.Error()
		return finish(2)
	}
	inj := faultdb.NewInjector()
	if in.At >= 0 {
		inj.Arm(in.At, faultdb.Mode(in.Mode))
		inj.OnCrash = func(*faultdb.Crash) {
			_ = syscall.Kill(os.Getpid(), syscall.SIGKILL)
			select {} // never returns: the signal is on its way
		}
	}
	node, err := env.NewNode(faultdb.Wrap(db, inj), regsim.NodeOpts{WrapKM: func(km regsim.KeyManager) regsim.KeyManager { return &kmDec{KeyManager: km, in: inj} }})
	if err != nil {
		out.Err = "start-up: " + err.Error()
		return finish(2)
	}
	from, err := node.ResumeFrom(in.Nums[0])
	if err != nil {
		out.Err = "resume: " + err.Error()
		return finish(2)
	}
	out.From = from
	for bi, n := range in.Nums {
		if n < from {
			continue
		}
		inj.Enable(true)
		err := node.ProcessBlock(n, in.Logs[bi])
		inj.Enable(false)
		if err != nil {
			out.Err = fmt.Sprintf("block %d: %v", n, err)
			return finish(3)
		}
	}
	out.NumOps = inj.Count()
	raw, err := env.ViewRaw(db)
	if err != nil {
		out.Err = "raw: " + err.Error()
		return finish(3)
	}
	out.State = raw.Lines(regsim.LineOpts{Extra: true, NonOwnLiquid: true})
	ks, err := env.ViewKeys(db, node.KM)
	if err != nil {
		out.Err = "keys: " + err.Error()
		return finish(3)
	}
	out.Keys = ks.Lines()
	_ = db.Close()
	return finish(0)
}

// runKid runs one helper process; killed reports death by SIGKILL.
func runKid(dir string, in *kidInput) (out *kidOutput, killed bool, diag string) {
	in.Dir = dir
	ib, _ := json.Marshal(in)
	ip := filepath.Join(dir, "in.json")
	if err := os.WriteFile(ip, ib, 0o644); err != nil {
		return nil, false, err.Error()
	}
	_ = os.Remove(filepath.Join(dir, "out.json"))
	self, err := os.Executable()
	if err != nil {
		return nil, false, err.Error()
	}
	cmd := exec.Command(self)
	cmd.Env = append(os.Environ(), kidEnv+"="+ip)
	var sb strings.Builder
	cmd.Stdout, cmd.Stderr = &sb, &sb
	if err := cmd.Start(); err != nil {
		return nil, false, err.Error()
	}
	done := make(chan error, 1)
	go func() { done <- cmd.Wait() }()
	select {
	case err = <-done:
	case <-time.After(120 * time.Second):
		_ = cmd.Process.Kill()
		<-done
		return nil, false, "helper process timed out"
	}
	if ee, ok := err.(*exec.ExitError); ok {
		if ws, ok := ee.Sys().(syscall.WaitStatus); ok && ws.Signaled() && ws.Signal() == syscall.SIGKILL {
			return nil, true, ""
		}
	}
	b, rerr := os.ReadFile(filepath.Join(dir, "out.json"))
	if rerr != nil {
		return nil, false, fmt.Sprintf("helper left no result (%v): %s", err, tail(sb.String()))
	}
	out = &kidOutput{}
	if jerr := json.Unmarshal(b, out); jerr != nil {
		return nil, false, jerr.Error()
	}
	return out, false, tail(sb.String())
}

func tail(s string) string {
	if len(s) > 600 {
		return s[len(s)-600:]
	}
	return s
}

func runKill(c *evid.Case) {
	cd := c.Child.Data.(*childData)
	env := cd.env
	rng := c.Rng
	cfg := regsim.GenCfg{MinEvents: 6, MaxEvents: 18, MalRate: 0.15, OwnBias: 0.9, MaxVals: 3, MaxOps: 7}
	w, evs, err := env.Generate(rng, cfg)
	if err != nil {
		c.Inconclusive("generator: " + err.Error())
		return
	}
	nums, blocks := regsim.Split(rng, evs, "random", uint64(1+rng.Intn(1000)))
	logs := make([][]ethtypes.Log, len(blocks))
	var desc []string
	for bi := range blocks {
		l, err := env.EncodeBlock(blocks[bi], nums[bi])
		if err != nil {
			c.Inconclusive("encode: " + err.Error())
			return
		}
		logs[bi] = l
		for _, e := range blocks[bi] {
			desc = append(desc, fmt.Sprintf("block %d: %s", nums[bi], e))
		}
	}
	ref := execute(env, w.Owners, nums, blocks, logs, -1, faultdb.None)
	if ref.err != "" {
		c.Inconclusive("kill lane: uninterrupted run failed: " + ref.err)
		return
	}
	var hot, cold []int
	for _, o := range ref.trace {
		switch {
		case o.Kind == "txn.Commit", o.Kind == "db.Set", o.Kind == "db.Delete", strings.HasPrefix(o.Kind, "km."), o.Kind == "txn.SetMany", o.Kind == "txn.Set":
			hot = append(hot, o.Index)
		default:
			cold = append(cold, o.Index)
		}
	}
	rng.Shuffle(len(hot), func(i, j int) { hot[i], hot[j] = hot[j], hot[i] })
	rng.Shuffle(len(cold), func(i, j int) { cold[i], cold[j] = cold[j], cold[i] })
	want := 4
	if c.Tier == "thorough" {
		want = 20
	}
	points := hot
	if len(points) > want*3/4 {
		points = points[:want*3/4]
	}
	for _, k := range cold {
		if len(points) >= want {
			break
		}
		points = append(points, k)
	}
	sort.Ints(points)

	tmp, err := os.MkdirTemp("", "c12kill-")
	if err != nil {
		c.Inconclusive("kill lane: " + err.Error())
		return
	}
	defer os.RemoveAll(tmp)
	pemBytes := env.KeyPEM()
	for _, k := range points {
		op := ref.trace[k]
		for _, mode := range []faultdb.Mode{faultdb.CrashBefore, faultdb.CrashAfter} {
			c.Journal("case %d: SIGKILL %s at k=%d/%d %s %s", c.Index, mode, k, ref.k, op.Kind, op.Detail)
			model := execute(env, w.Owners, nums, blocks, logs, k, mode)
			dir := filepath.Join(tmp, fmt.Sprintf("p%d-%d", k, mode))
			if err := os.MkdirAll(dir, 0o755); err != nil {
				c.Inconclusive("kill lane: " + err.Error())
				return
			}
			in := &kidInput{PEM: pemBytes, Nums: nums, Logs: logs, Owners: w.Owners, At: k, Mode: int(mode)}
			out1, killed, diag := runKid(dir, in)
			c.Count("kill_helper_runs", 1)
			if !killed {
				c.Count("kill_fault_did_not_kill", 1)
				c.Inconclusive(fmt.Sprintf("kill lane: helper was not killed at k=%d (%s %s): %v %s", k, op.Kind, op.Detail, out1, diag))
				_ = os.RemoveAll(dir)
				continue
			}
			c.Count("kills", 1)
			c.Count("kills_at_"+op.Kind, 1)
			in.At = -1
			out2, killed2, diag2 := runKid(dir, in)
			c.Count("kill_helper_runs", 1)
			_ = os.RemoveAll(dir)
			if killed2 || out2 == nil || out2.Err != "" {
				e := diag2
				if out2 != nil {
					e = out2.Err
				}
				c.Violation("no-recovery", "sigkill/"+mode.String()+"@"+op.Kind+"/"+keyClass(op.Detail),
					fmt.Sprintf("after SIGKILL %s operation %d (%s %s) the restarted process did not finish: %s", mode, k, op.Kind, op.Detail, e),
					map[string]any{"events": desc, "k": k, "mode": mode.String()})
				continue
			}
			c.Nontrivial(evid.Hash("kill", c.Idx, c.Index, k, mode.String()))
			c.Distinct("kill_points", evid.Hash(op.Kind, keyClass(op.Detail), mode.String()))
			dState, dKeys := regsim.Diff(model.state, out2.State), regsim.Diff(model.keys, out2.Keys)
			if len(dState)+len(dKeys) == 0 {
				c.Count("kill_model_agrees", 1)
				continue
			}
			c.Count("kill_model_disagrees", 1)
			// does the real kill show a divergence from the uninterrupted run that the in-process model does not?
			realDiv := len(regsim.Diff(ref.state, out2.State))+len(regsim.Diff(ref.keys, out2.Keys)) > 0
			modelDiv := len(regsim.Diff(ref.state, model.state))+len(regsim.Diff(ref.keys, model.keys)) > 0
			detail := fmt.Sprintf("SIGKILL %s operation %d of %d (%s %s), resumed from block %d: final records of the real processes differ from the in-process crash model (- model, + real):\n%s\n%s",
				mode, k, ref.k, op.Kind, op.Detail, out2.From, strings.Join(dState, "\n"), strings.Join(dKeys, "\n"))
			if realDiv && !modelDiv {
				c.Violation("sigkill-divergence", mode.String()+"@"+op.Kind+"/"+keyClass(op.Detail), detail, map[string]any{"events": desc, "k": k, "mode": mode.String()})
			} else {
				c.Inconclusive("in-process crash model disagrees with a real process death: " + detail)
			}
		}
	}
}
