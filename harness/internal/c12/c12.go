// Package c12: block event processing is atomic and exactly-once across crashes (property C12).
//
// Fault enumeration. For a generated block sequence the harness first does an uninterrupted run of
// the REAL event handler / node storage / eth-key-manager through faultdb (which numbers every
// storage operation on the database and on transactions) and a key-manager decorator (AddShare /
// RemoveShare / BumpSlashingProtection numbered in the same index space): K interruption points.
// For the chosen points k it re-runs the sequence from scratch with ONE fault at k:
//
//	crash-before  sentinel panic before operation k takes effect
//	crash-after   operation k takes effect, then the sentinel panic
//	error         operation k is not executed and returns an error (the node would Fatal)
//
// After a crash (or an error that the handler returns) every in-memory object is thrown away,
// transactions that were not committed are dropped, and a NEW node storage / operator data store /
// key manager / event handler is built on the surviving database exactly like at start-up; processing
// resumes at GetLastProcessedBlock()+1 (the rule of setupEventHandling in cli/operator/node.go).
// Oracle: the final registry records, nonces, liquidation flags, last processed block, key-manager
// account records and slashing-protection records equal those of the uninterrupted run; re-delivery
// of a block <= last processed returns ErrInferiorBlock and changes nothing.
package c12

import (
	"errors"
	"fmt"
	"sort"
	"strings"

	ethcommon "github.com/ethereum/go-ethereum/common"
	ethtypes "github.com/ethereum/go-ethereum/core/types"
	"github.com/herumi/bls-eth-go-binary/bls"

	"github.com/bloxapp/ssv/eth/eventhandler"

	"verifharness/internal/evid"
	"verifharness/internal/faultdb"
	"verifharness/internal/regsim"
)

func Spec() *evid.Spec {
	return &evid.Spec{
		ID:    "C12",
		Level: "fault_enumeration",
		Rule: "seed-determined sequences of 6-24 registry events (operators, validator adds/removes/exits, liquidations/reactivations, fee recipients; 20% malformed; the node's operator in most committees) " +
			"in random blocks; uninterrupted run through faultdb + key-manager decorator gives K numbered interruption points (every Get/Set/SetMany/Delete/GetMany/GetAll/DeletePrefix/Begin/Commit/Discard on database and " +
			"transactions, AddShare/RemoveShare/BumpSlashingProtection); quick: every point of a write/commit/key-manager kind up to 45 plus random others up to 60 per sequence, thorough: all points; each point in three modes " +
			"(crash before the operation takes effect, crash after, error returned), then restart on the surviving database and resume from last processed + 1. Non-trivial = a fault that fired inside block processing; " +
			"distinct = (sequence shape, point, mode); crash_points = (operation kind, record class, inside/outside a key-manager call, mode). " +
			"Lane kill (validation of the crash model): for 4 (thorough 20) points of a sequence a helper process on an on-disk badger SIGKILLs itself before / after the operation, a second process restarts on the directory and finishes; " +
			"its final records must equal the in-process model's prediction for that point (kill_model_agrees / kill_model_disagrees)",
		Assumptions: []string{
			"in-process crash model: a committed badger transaction and every database-level Set/SetMany/Delete/DeletePrefix that returned are durable; uncommitted transactions vanish; all in-memory objects (share map, operator data store, wallet) are rebuilt from the database",
			"one fault per run; the restarted process runs without faults",
			"the clock of the key manager is frozen so that slashing-protection records are comparable between runs",
			"an injected error makes the operation fail without taking effect",
			"the wallet's index record is not compared (it holds random account ids); account records, their number and the protection records are",
			"lane kill: a helper process on an on-disk badger that SIGKILLs itself at the operation stands for a node crash (no power loss: the page cache survives)",
		},
		MinNontrivial: 500,
		Lanes: []evid.Lane{
			{Name: "enum", Children: evid.Const(16, 16), Cases: evid.Const(3, 25), TimeoutS: evid.Const(600, 3400), Setup: setup, Run: run},
			// validation of the in-process crash model: on-disk badger, helper process SIGKILLed at the operation (see kill.go)
			{Name: "kill", Children: evid.Const(4, 16), Cases: evid.Const(1, 3), TimeoutS: evid.Const(600, 3400), Setup: setup, Run: runKill},
		},
	}
}

// childData: the fixture plus the (kind, sig) pairs this child already reported with a witness. The
// driver stops a child after 25 violations; a defect that shows at every sequence (a known finding)
// must not eat that budget, so each (kind, sig) is witnessed once per child and counted every time.
type childData struct {
	env  *regsim.Env
	seen map[string]bool
}

func setup(ch *evid.Child) {
	env, err := regsim.NewEnv()
	if err != nil {
		panic(err)
	}
	ch.Data = &childData{env: env, seen: map[string]bool{}}
}

// kmDec numbers the key-manager calls of the event handler in the injector's index space.
type kmDec struct {
	regsim.KeyManager
	in *faultdb.Injector
}

func (k *kmDec) AddShare(sk *bls.SecretKey) error {
	return k.in.Do("km.AddShare", sk.GetPublicKey().SerializeToHexStr()[:12], true, func() error { return k.KeyManager.AddShare(sk) })
}
func (k *kmDec) RemoveShare(pubKey string) error {
	d := pubKey
	if len(d) > 12 {
		d = d[:12]
	}
	return k.in.Do("km.RemoveShare", d, true, func() error { return k.KeyManager.RemoveShare(pubKey) })
}
func (k *kmDec) BumpSlashingProtection(pubKey []byte) error {
	return k.in.Do("km.BumpSlashingProtection", fmt.Sprintf("%x", pubKey)[:12], true, func() error { return k.KeyManager.BumpSlashingProtection(pubKey) })
}

// result of one execution of the whole sequence.
type result struct {
	state      []string // registry records decoded from the database
	mem        []string // registry through the final node's getters
	keys       []string // key-manager records
	keyState   *regsim.KeyState
	k          int
	trace      []faultdb.Op
	fired      *faultdb.Op
	restarts   int
	swallowed  bool
	err        string // fatal problem (could not finish)
	redeliv    string // violation text of the re-delivery check
	log        []string
	faultBlock int // index of the block during which the node died (-1: none)
}

func keyClass(detail string) string {
	for _, p := range [][2]string{
		{"signer_data-accounts-", "account"}, {"signer_data-wallet-", "wallet"}, {"signer_data-highest_att-", "highest-att"},
		{"signer_data-highest_prop-", "highest-prop"}, {"operator/shares", "share"}, {"operator/operators", "operator"},
		{"operator/recipients", "recipient"}, {"operator/syncOffset", "last-block"}, {"operator/hashed", "key-hash"},
		{"ATTESTER", "qbft"}, {"PROPOSER", "qbft"},
	} {
		if strings.Contains(detail, p[0]) {
			return p[1]
		}
	}
	return "-"
}

// enclosing returns the key-manager operation (depth 0 call) the operation at index i is nested in, or "".
func enclosing(trace []faultdb.Op, i int) string {
	if i < 0 || i >= len(trace) || trace[i].Depth == 0 {
		return ""
	}
	for j := i - 1; j >= 0; j-- {
		if trace[j].Depth < trace[i].Depth && strings.HasPrefix(trace[j].Kind, "km.") {
			return trace[j].Kind
		}
		if trace[j].Depth == 0 && !strings.HasPrefix(trace[j].Kind, "km.") {
			break
		}
	}
	return ""
}

func execute(env *regsim.Env, owners []ethcommon.Address, nums []uint64, blocks [][]*regsim.Event, logs [][]ethtypes.Log, at int, mode faultdb.Mode) *result {
	r := &result{faultBlock: -1}
	disk := env.NewMemDB()
	defer disk.Close()
	inj := faultdb.NewInjector()
	inj.Arm(at, mode)
	boot := func() (*regsim.Node, error) {
		return env.NewNode(faultdb.Wrap(disk, inj), regsim.NodeOpts{WrapKM: func(km regsim.KeyManager) regsim.KeyManager { return &kmDec{KeyManager: km, in: inj} }})
	}
	node, err := boot()
	if err != nil {
		r.err = "start-up: " + err.Error()
		return r
	}
	first := nums[0]
	for bi := 0; bi < len(nums); {
		var perr error
		inj.Enable(true)
		crash := faultdb.Recover(func() { perr = node.ProcessBlock(nums[bi], logs[bi]) })
		inj.Enable(false)
		if crash == nil && perr == nil {
			if f := inj.Fired(); f != nil && mode == faultdb.Error && !r.swallowed && r.restarts == 0 {
				r.swallowed = true // the injected error did not stop the node
				r.log = append(r.log, fmt.Sprintf("block %d: injected error at op %d %s %s was swallowed", nums[bi], f.Index, f.Kind, f.Detail))
			}
			bi++
			continue
		}
		// the process is gone: drop what a process death drops, start a new one on the surviving database
		if r.faultBlock < 0 {
			r.faultBlock = bi
		}
		if crash != nil {
			r.log = append(r.log, fmt.Sprintf("block %d: %s", nums[bi], crash))
		} else {
			r.log = append(r.log, fmt.Sprintf("block %d: handler returned error (node stops): %v", nums[bi], perr))
			if inj.Fired() == nil || r.restarts > 0 {
				r.err = fmt.Sprintf("block %d: handler error without an injected fault: %v", nums[bi], perr)
				return r
			}
		}
		inj.DropOpenTxns()
		inj.Revive()
		r.restarts++
		if r.restarts > 2 {
			r.err = "node does not get past the block after restart"
			return r
		}
		node, err = boot()
		if err != nil {
			r.err = "restart: " + err.Error()
			return r
		}
		from, err := node.ResumeFrom(first)
		if err != nil {
			r.err = "resume point: " + err.Error()
			return r
		}
		nb := len(nums)
		for i, n := range nums {
			if n >= from {
				nb = i
				break
			}
		}
		r.log = append(r.log, fmt.Sprintf("restart #%d: resume from block %d (index %d)", r.restarts, from, nb))
		bi = nb
	}
	r.k, r.trace, r.fired = inj.Count(), inj.Trace(), inj.Fired()

	full := regsim.LineOpts{Extra: true, NonOwnLiquid: true}
	raw, err := env.ViewRaw(disk)
	if err != nil {
		r.err = "raw records: " + err.Error()
		return r
	}
	r.state = raw.Lines(full)
	g, err := node.ViewGetters(owners)
	if err != nil {
		r.err = "getters: " + err.Error()
		return r
	}
	r.mem = g.Lines(full)
	ks, err := env.ViewKeys(disk, node.KM)
	if err != nil {
		r.err = "key state: " + err.Error()
		return r
	}
	r.keyState, r.keys = ks, ks.Lines()

	// re-delivery of blocks that are not newer than the last processed one
	before, _, _ := regsim.DumpHash(disk)
	for _, bi := range []int{len(nums) - 1, 0} {
		err := node.ProcessBlock(nums[bi], logs[bi])
		if !errors.Is(err, eventhandler.ErrInferiorBlock) {
			r.redeliv = fmt.Sprintf("re-delivery of block %d (last processed %d) returned %v, want ErrInferiorBlock", nums[bi], nums[len(nums)-1], err)
		}
	}
	if after, _, _ := regsim.DumpHash(disk); after != before && r.redeliv == "" {
		r.redeliv = "re-delivery of old blocks changed the database"
	}
	return r
}

func run(c *evid.Case) {
	cd := c.Child.Data.(*childData)
	env := cd.env
	if err := env.Disk.Recycle(3000); err != nil {
		c.Inconclusive("badger: " + err.Error())
		return
	}
	rng := c.Rng
	cfg := regsim.GenCfg{MinEvents: 6, MaxEvents: 24, MalRate: 0.2, OwnBias: 0.85, MaxVals: 3, MaxOps: 7}
	w, evs, err := env.Generate(rng, cfg)
	if err != nil {
		c.Inconclusive("generator: " + err.Error())
		return
	}
	nums, blocks := regsim.Split(rng, evs, "random", uint64(1+rng.Intn(1000)))
	logs := make([][]ethtypes.Log, len(blocks))
	var shape []any
	var desc []string
	for bi := range blocks {
		l, err := env.EncodeBlock(blocks[bi], nums[bi])
		if err != nil {
			c.Inconclusive("encode: " + err.Error())
			return
		}
		logs[bi] = l
		for _, e := range blocks[bi] {
			shape = append(shape, e.Label())
			desc = append(desc, fmt.Sprintf("block %d: %s", nums[bi], e))
			c.Count("events_"+string(e.Kind), 1)
			if e.Mal != "" {
				c.Count("events_malformed", 1)
			}
		}
		shape = append(shape, "|")
	}
	shapeH := evid.Hash(shape...)
	c.Distinct("sequence_shapes", shapeH)
	c.Count("sequences", 1)
	c.Count("blocks", int64(len(blocks)))
	c.Journal("case %d: %d events, %d blocks: uninterrupted run", c.Index, len(evs), len(blocks))

	ref := execute(env, w.Owners, nums, blocks, logs, -1, faultdb.None)
	witness := func(r *result, k int, mode faultdb.Mode) any {
		w := map[string]any{"events": desc, "K": ref.k}
		if r != nil {
			w["fault"] = map[string]any{"k": k, "mode": mode.String(), "run_log": r.log}
			lo, hi := k-6, k+4
			if lo < 0 {
				lo = 0
			}
			if hi > len(ref.trace) {
				hi = len(ref.trace)
			}
			if k >= 0 {
				w["ops_around_fault"] = ref.trace[lo:hi]
			}
		}
		return w
	}
	if ref.err != "" || ref.restarts > 0 {
		c.Violation("processing-error", "uninterrupted-run", "the uninterrupted run did not finish: "+ref.err+" "+strings.Join(ref.log, "; "), witness(nil, -1, faultdb.None))
		return
	}
	if d := regsim.Diff(ref.state, ref.mem); len(d) > 0 {
		c.Violation("memory-vs-database", "uninterrupted-run", "uninterrupted run: getters differ from database records:\n"+strings.Join(d, "\n"), witness(nil, -1, faultdb.None))
		return
	}
	if ref.redeliv != "" {
		c.Violation("inferior-block", "uninterrupted-run", ref.redeliv, witness(nil, -1, faultdb.None))
		return
	}
	c.Count("interruption_points_total", int64(ref.k))
	c.Max("max_interruption_points", int64(ref.k))
	for _, o := range ref.trace {
		c.Count("ops_"+o.Kind, 1)
	}

	// choose the points
	var points []int
	if c.Tier == "thorough" || ref.k <= 60 {
		for k := 0; k < ref.k; k++ {
			points = append(points, k)
		}
	} else {
		var hot, cold []int
		for _, o := range ref.trace {
			switch {
			case strings.HasPrefix(o.Kind, "km."), o.Kind == "txn.Commit", o.Kind == "db.Set", o.Kind == "db.Delete", o.Kind == "db.SetMany", o.Kind == "db.DeletePrefix":
				hot = append(hot, o.Index)
			default:
				cold = append(cold, o.Index)
			}
		}
		rng.Shuffle(len(hot), func(i, j int) { hot[i], hot[j] = hot[j], hot[i] })
		rng.Shuffle(len(cold), func(i, j int) { cold[i], cold[j] = cold[j], cold[i] })
		if len(hot) > 45 {
			hot = hot[:45]
		}
		points = append(points, hot...)
		for _, k := range cold {
			if len(points) >= 60 {
				break
			}
			points = append(points, k)
		}
		sort.Ints(points)
	}

	seen := cd.seen
	for _, k := range points {
		op := ref.trace[k]
		enc := enclosing(ref.trace, k)
		where := "top"
		if enc != "" {
			where = "in-" + enc
		}
		for _, mode := range []faultdb.Mode{faultdb.CrashBefore, faultdb.CrashAfter, faultdb.Error} {
			if mode == faultdb.Error && op.Kind == "txn.Discard" {
				continue // Discard cannot fail
			}
			c.Journal("case %d: fault k=%d/%d %s at %s %s", c.Index, k, ref.k, mode, op.Kind, op.Detail)
			r := execute(env, w.Owners, nums, blocks, logs, k, mode)
			c.Count("fault_runs", 1)
			c.AddEvaluations(1)
			c.Count("fault_runs_"+mode.String(), 1)
			c.Count("points_"+op.Kind, 1)
			c.Count("restarts", int64(r.restarts))
			if r.swallowed {
				c.Count("errors_swallowed", 1)
				c.Count("errors_swallowed_at "+op.Kind+"/"+keyClass(op.Detail)+"/"+where, 1)
			}
			if r.fired == nil && r.err == "" {
				c.Count("fault_did_not_fire", 1)
				continue
			}
			c.Nontrivial(evid.Hash(shapeH, k, mode.String()))
			c.Distinct("crash_points", evid.Hash(op.Kind, keyClass(op.Detail), where, mode.String()))
			viol := func(kind, sig, detail string) {
				key := kind + "|" + sig
				c.Count("divergences_"+kind, 1)
				c.Count("divergence "+key, 1)
				if seen[key] {
					return // one witness per (kind, sig) and child process
				}
				seen[key] = true
				c.Violation(kind, sig, detail, witness(r, k, mode))
			}
			base := fmt.Sprintf("%s@%s/%s/%s", mode, op.Kind, keyClass(op.Detail), where)
			if r.swallowed {
				// the failed storage operation did not stop the node: whatever differs afterwards is the consequence of carrying on
				swSig := fmt.Sprintf("%s/%s/%s", op.Kind, keyClass(op.Detail), where)
				if op.Kind == "txn.GetMany" && keyClass(op.Detail) == "operator" {
					swSig = "OperatorsExist-error-treated-as-malformed-ValidatorAdded"
				}
				dr, dk := regsim.Diff(ref.state, r.state), regsim.Diff(ref.keys, r.keys)
				if len(dr)+len(dk) > 0 {
					viol("storage-error-swallowed", swSig, fmt.Sprintf("storage error injected at operation %d of %d (%s %s) did not stop block processing (the handler returned nil and the block was committed); "+
						"final state differs from the uninterrupted run (- uninterrupted, + faulty run):\n%s\n%s", k, ref.k, op.Kind, op.Detail, strings.Join(dr, "\n"), strings.Join(dk, "\n")))
				}
				if r.redeliv != "" {
					viol("inferior-block", base, r.redeliv)
				}
				continue
			}
			head := fmt.Sprintf("fault %s at operation %d of %d (%s %s, %s); run: %s\n", mode, k, ref.k, op.Kind, op.Detail, where, strings.Join(r.log, "; "))
			if r.err != "" {
				viol("no-recovery", base, head+r.err)
				continue
			}
			if d := regsim.Diff(ref.state, r.state); len(d) > 0 {
				viol("registry-differs-after-recovery", base+"/"+firstClass(d), head+"final registry records differ from the uninterrupted run (- uninterrupted, + recovered):\n"+strings.Join(d, "\n"))
			}
			if d := regsim.Diff(r.state, r.mem); len(d) > 0 {
				viol("memory-vs-database", base+"/"+firstClass(d), head+"after recovery the node's getters differ from its database (- records, + getters):\n"+strings.Join(d, "\n"))
			}
			if d := regsim.Diff(ref.keys, r.keys); len(d) > 0 {
				kind, sig := classifyKeys(d, ref, r, k, mode, blocks)
				if kind == "orphan-slashing-protection-record" {
					// Only slashing-protection records of a share that no longer exists differ. The statement compares
					// "registry state, nonces and stored key shares"; protection records are none of these, so this is
					// counted as an observation, not reported (an earlier version of this oracle demanded more than stated).
					c.Count("observed_leftover_protection_records_only (not demanded by the statement) "+sig, 1)
					continue
				}
				viol(kind, sig, head+"final key-manager records differ from the uninterrupted run (- uninterrupted, + recovered):\n"+strings.Join(d, "\n")+
					fmt.Sprintf("\naccounts uninterrupted=%v recovered=%v wallet-index recovered=%v", shorts(ref.keyState.Accounts), shorts(r.keyState.Accounts), shorts(r.keyState.WalletIndex)))
			}
			if r.redeliv != "" {
				viol("inferior-block", base, head+r.redeliv)
			}
		}
	}
	if c.Idx == 0 && c.Index == 0 {
		tr := ref.trace
		if len(tr) > 80 {
			tr = tr[:80]
		}
		c.Sample(map[string]any{"events": desc, "K": ref.k, "ops": tr})
	}
}

func shorts(l []string) []string {
	var o []string
	for _, s := range l {
		if len(s) > 12 {
			s = s[:12]
		}
		o = append(o, s)
	}
	return o
}

func firstClass(d []string) string {
	cl := map[string]bool{}
	for _, l := range d {
		if f := strings.Fields(l); len(f) > 1 {
			cl[f[1]] = true
		}
	}
	var o []string
	for k := range cl {
		o = append(o, k)
	}
	sort.Strings(o)
	return strings.Join(o, "+")
}

// classifyKeys names key-manager divergences. An account record that the recovered run has in excess
// and that is not reachable through the wallet index is an orphan; when the fault sits between
// SaveAccount (db.Set of the account record) and SaveWallet (db.Set of the wallet record) inside
// AddShare the signature says so.
func classifyKeys(d []string, ref, r *result, k int, mode faultdb.Mode, blocks [][]*regsim.Event) (string, string) {
	op := ref.trace[k]
	enc := enclosing(ref.trace, k)
	kc := keyClass(op.Detail)
	extraAcc, extraSP, otherDiff := 0, 0, false
	for _, l := range d {
		switch {
		case strings.HasPrefix(l, "+ account "):
			extraAcc++
		case strings.HasPrefix(l, "+ raw-account-records"), strings.HasPrefix(l, "- raw-account-records"):
		case strings.HasPrefix(l, "+ highest-att "), strings.HasPrefix(l, "+ highest-prop "):
			extraSP++
		default:
			otherDiff = true
		}
	}
	// Protection records left behind for a key share that no longer exists. Known shape: the re-processed
	// block reactivates the validator's cluster (BumpSlashingProtection re-creates the records that the first
	// attempt's RemoveShare had deleted) and then removes the validator (RemoveShare finds no account any more
	// and skips the protection cleanup).
	if extraSP > 0 && extraAcc == 0 && !otherDiff {
		if r.faultBlock >= 0 && r.faultBlock < len(blocks) {
			react := false
			for _, e := range blocks[r.faultBlock] {
				if e.Kind == regsim.Reactivated && e.Unparsable == "" {
					react = true
				}
				if e.Kind == regsim.ValidatorRemoved && e.Unparsable == "" && react {
					return "orphan-slashing-protection-record", "reprocessed-block-Reactivated-then-Removed-after-RemoveShare-took-effect"
				}
			}
		}
		return "orphan-slashing-protection-record", fmt.Sprintf("%s@%s/%s/%s", mode, op.Kind, kc, enc)
	}
	if extraAcc > 0 && !otherDiff && r.keyState.RawAccounts > ref.keyState.RawAccounts {
		between := enc == "km.AddShare" && op.Kind == "db.Set" &&
			((kc == "account" && mode == faultdb.CrashAfter) || (kc == "wallet" && (mode == faultdb.CrashBefore || mode == faultdb.Error)))
		if between && mode == faultdb.Error {
			return "orphan-account-record", "error-in-SaveWallet-after-SaveAccount"
		}
		if between {
			return "orphan-account-record", "crash-between-SaveAccount-and-SaveWallet"
		}
		return "orphan-account-record", fmt.Sprintf("%s@%s/%s/%s", mode, op.Kind, kc, enc)
	}
	return "key-shares-differ-after-recovery", fmt.Sprintf("%s@%s/%s/%s", mode, op.Kind, kc, enc)
}
