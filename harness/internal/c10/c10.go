// Package c10: messages produced by correct operators are never rejected by correct peers (property C10).
//
// Executions of real duty runners (dsim) are forced through round changes up to the role's maximum round; every
// broadcast of every correct operator is stamped with a virtual emission time inside the round window given by the
// round timer's rule for the role, and validated by a real message validator per peer (vsim) at emission + d with d
// inside the sender's round window. Oracle: never ValidationReject; in fault-free in-order timely runs: always accept.
package c10

import (
	"fmt"
	"sort"
	"time"

	eth2apiv1 "github.com/attestantio/go-eth2-client/api/v1"
	"github.com/attestantio/go-eth2-client/spec/phase0"
	specqbft "github.com/bloxapp/ssv-spec/qbft"
	spectypes "github.com/bloxapp/ssv-spec/types"
	pubsub "github.com/libp2p/go-libp2p-pubsub"

	"verifharness/internal/dsim"
	"verifharness/internal/evid"
	"verifharness/internal/qsim"
	"verifharness/internal/vsim"
)

func Spec() *evid.Spec {
	return &evid.Spec{
		ID:    "C10",
		Level: "exploration",
		Rule: "each case = one execution of real duty runners (committee 4 or 7, one of the 5 consensus roles, 0..f silent operators) forced through r-1 failed rounds (proposal lost / prepared but commits lost / proposal seen by a subset / a single operator prepared whose prepared round-change reaches the next leader last; all, only f+1, or all operators but the next leader time out) " +
			"and decided in round r <= the role's maximum; every broadcast (pre-consensus, proposal, prepare, commit, round-change with and without prepared value, justified proposals, aggregated decided, post-consensus) gets a virtual emission time inside the " +
			"round window derived from the round timer's rule and is validated on a per-peer real validator (both envelope phases) at emission + d, d = 0 / random / end of the sender's round window. Oracle: never reject; fault-free in-order timely runs: accept. " +
			"Non-trivial = execution that decided after at least one failed round (or fault-free for the accept clause); distinct = (role, N, failure pattern, decision round)",
		Assumptions: []string{
			"timing model (the property's premise made explicit): an operator is in round r during [slot start + role base + cumulative allowance(r-1), ... (r)) with the production constants 2 s / 2 min, proposer: from duty start; a message of round r is emitted inside that window and arrives before its end",
			"own messages are not validated by the sender's own validator (pubsub self-accept)",
		},
		MinNontrivial: 40,
		Lanes: []evid.Lane{
			{Name: "executions", Children: evid.Const(16, 16), Cases: evid.Const(9, 200), TimeoutS: evid.Const(900, 7200), Setup: setup, Run: run},
			{Name: "staggered", Children: evid.Const(4, 8), Cases: evid.Const(2, 12), TimeoutS: evid.Const(900, 7200), Setup: setup, Run: runStaggered},
		},
	}
}

type env struct {
	d  *dsim.Env
	w4 *vsim.World
	w7 *vsim.World
}

func setup(ch *evid.Child) {
	e := &env{d: dsim.NewEnv(), w4: vsim.NewWorld(), w7: vsim.NewWorldNative(7)}
	// the duty slots of the runner fixtures lie in epochs 1.. of the virtual chain: signed envelopes active from epoch 1
	e.w4.NetPost.PermissionlessActivationEpoch = 0
	e.w7.NetPost.PermissionlessActivationEpoch = 0
	ch.Data = e
}

var roles = []spectypes.BeaconRole{spectypes.BNRoleAttester, spectypes.BNRoleProposer, spectypes.BNRoleAggregator,
	spectypes.BNRoleSyncCommittee, spectypes.BNRoleSyncCommitteeContribution}

const (
	quick = 2 * time.Second
	slow  = 2 * time.Minute
	thr   = 8
)

func cum(k int) time.Duration {
	if k <= thr {
		return time.Duration(k) * quick
	}
	return thr*quick + time.Duration(k-thr)*slow
}

func base(role spectypes.BeaconRole) time.Duration {
	switch role {
	case spectypes.BNRoleAttester, spectypes.BNRoleSyncCommittee:
		return 4 * time.Second
	case spectypes.BNRoleAggregator, spectypes.BNRoleSyncCommitteeContribution:
		return 8 * time.Second
	}
	return 200 * time.Millisecond // proposer: consensus starts once the randao quorum is in
}

// window of round r relative to the slot start
func window(role spectypes.BeaconRole, r int) (time.Duration, time.Duration) {
	return base(role) + cum(r-1), base(role) + cum(r)
}

type emitted struct {
	ev    *dsim.BroadcastEvent
	round int // protocol round the message belongs to (0 = pre-consensus)
	desc  string
	at    time.Duration // since slot start
	end   time.Duration // end of the sender's round window
}

func decode(m *spectypes.SSVMessage) (*specqbft.SignedMessage, *spectypes.SignedPartialSignatureMessage) {
	switch m.MsgType {
	case spectypes.SSVConsensusMsgType:
		sm := &specqbft.SignedMessage{}
		if sm.Decode(m.Data) == nil {
			return sm, nil
		}
	case spectypes.SSVPartialSignatureMsgType:
		ps := &spectypes.SignedPartialSignatureMessage{}
		if ps.Decode(m.Data) == nil {
			return nil, ps
		}
	}
	return nil, nil
}

func isType(t specqbft.MessageType, round int) func(f *dsim.Flight) bool {
	return func(f *dsim.Flight) bool {
		sm, _ := decode(f.Msg)
		return sm != nil && sm.Message.MsgType == t && len(sm.Signers) == 1 && (round == 0 || int(sm.Message.Round) == round)
	}
}

func run(c *evid.Case) {
	e := c.Data.(*env)
	rng := c.Rng
	n := []int{4, 7}[rng.Intn(2)]
	w := e.w4
	val := w.Vals[vsim.Known4]
	if n == 7 {
		w = e.w7
		val = w.Vals[vsim.Known7]
	}
	f := (n - 1) / 3
	role := roles[rng.Intn(len(roles))]
	maxR := int(vsim.MaxRound(role))
	faultFree := rng.Intn(4) == 0
	target := 1
	if !faultFree {
		target = 1 + rng.Intn(maxR)
		if rng.Intn(3) == 0 {
			target = maxR
		}
	}
	var byz []int
	if !faultFree && rng.Intn(3) == 0 {
		byz = rng.Perm(n)[:1+rng.Intn(f)]
	}
	post := rng.Intn(2) == 0
	slot := dsim.BaseSlot(role, 1+rng.Intn(2), false) // epoch >= 1
	cl := dsim.NewCluster(e.d, rng, dsim.Config{N: n, Byz: byz, Mode: "runner", Variants: !faultFree})
	defer cl.Close()
	duty := dsim.DutyFor(role, slot)
	hon := cl.Honest()
	// the validator's world must know the duty
	if role == spectypes.BNRoleProposer {
		w.AddProposerDuty(val, slot)
	}
	if role == spectypes.BNRoleSyncCommittee || role == spectypes.BNRoleSyncCommitteeContribution {
		p := w.Beacon.EstimatedSyncCommitteePeriodAtEpoch(w.Beacon.EstimatedEpochAtSlot(slot))
		w.Duties.SyncCommittee.Add(p, val.Index, &eth2apiv1.SyncCommitteeDuty{ValidatorIndex: val.Index}, true)
	}

	for _, op := range hon {
		if err := cl.StartDuty(op, duty, "fresh", nil); err != nil {
			c.Inconclusive("harness: StartDuty failed: " + err.Error())
			return
		}
	}
	// pre-consensus traffic
	cl.DeliverWhere(func(fl *dsim.Flight) bool { _, ps := decode(fl.Msg); return ps != nil }, 100000)

	height := specqbft.Height(slot)
	roundOf := func(op *dsim.Operator) int {
		if ctrl := op.Ctrls[role]; ctrl != nil {
			if in := ctrl.StoredInstances.FindInstance(height); in != nil {
				return int(in.State.Round)
			}
		}
		return 0
	}
	decidedAll := func() bool {
		for _, op := range hon {
			ctrl := op.Ctrls[role]
			if ctrl == nil {
				return false
			}
			in := ctrl.StoredInstances.FindInstance(height)
			if in == nil || !in.State.Decided {
				return false
			}
		}
		return true
	}
	pattern := ""
	for r := 1; r <= maxR+1 && !decidedAll(); r++ {
		leaderSilent := false
		for _, b := range byz {
			if int(qsim.Leader(n, height, specqbft.Round(r)))-1 == b {
				leaderSilent = true
			}
		}
		if r >= target && !leaderSilent {
			cl.DrainAll(200000)
			pattern += "D"
			continue
		}
		// this round fails
		mode := rng.Intn(4)
		if leaderSilent {
			mode = 0
		}
		var lockedOp spectypes.OperatorID // the only operator that prepared in this round (mode 3)
		switch mode {
		case 0: // proposal lost
			cl.DropWhere(isType(specqbft.ProposalMsgType, r))
			pattern += "l"
		case 1: // everybody prepares, the commits are lost
			cl.DeliverWhere(isType(specqbft.RoundChangeMsgType, 0), 100000)
			cl.DeliverWhere(isType(specqbft.ProposalMsgType, r), 100000)
			cl.DeliverWhere(isType(specqbft.PrepareMsgType, r), 100000)
			cl.DropWhere(isType(specqbft.CommitMsgType, r))
			pattern += "p"
		case 3: // everybody accepts the proposal, only one operator sees the prepare quorum: a prepared minority whose
			// round change reaches the next leader after that leader's quorum of unprepared ones (and before the leader's own
			// proposal comes back to it)
			lockedOp = hon[rng.Intn(len(hon))].ID
			cl.DeliverWhere(isType(specqbft.RoundChangeMsgType, 0), 100000)
			cl.DeliverWhere(isType(specqbft.ProposalMsgType, r), 100000)
			cl.DeliverWhere(func(fl *dsim.Flight) bool { return isType(specqbft.PrepareMsgType, r)(fl) && fl.To == lockedOp }, 100000)
			cl.DropWhere(isType(specqbft.PrepareMsgType, r))
			cl.DropWhere(isType(specqbft.CommitMsgType, r))
			pattern += "m"
		default: // the proposal reaches only a subset, no prepare quorum
			keep := hon[rng.Intn(len(hon))].ID
			cl.DeliverWhere(isType(specqbft.RoundChangeMsgType, 0), 100000)
			cl.DeliverWhere(func(fl *dsim.Flight) bool { return isType(specqbft.ProposalMsgType, r)(fl) && fl.To == keep }, 100000)
			cl.DropWhere(isType(specqbft.ProposalMsgType, r))
			cl.DeliverWhere(isType(specqbft.PrepareMsgType, r), 100000)
			cl.DropWhere(isType(specqbft.CommitMsgType, r))
			pattern += "s"
		}
		cl.DropWhere(func(fl *dsim.Flight) bool {
			sm, _ := decode(fl.Msg)
			return sm != nil && sm.Message.MsgType != specqbft.RoundChangeMsgType
		})
		// timeouts: all, or only f+1 (the others follow through the partial quorum)
		tos := hon
		switch rng.Intn(3) {
		case 0:
			if len(hon) > f+1 {
				tos = hon[:f+1]
				pattern += "q"
			}
		case 1:
			// everybody but the next round's leader times out: the leader hears a whole quorum of round-changes for the next
			// round before its own timer (it must first be pulled forward by the f+1 rule and only then propose)
			nl := qsim.Leader(n, height, specqbft.Round(r+1))
			var rest []*dsim.Operator
			for _, op := range hon {
				if op.ID != nl {
					rest = append(rest, op)
				}
			}
			if len(rest) < len(hon) {
				tos = rest
				pattern += "L"
			}
		}
		lateLocked := lockedOp != 0 && rng.Intn(4) != 0
		deliverRCs := func() {
			if lateLocked {
				cl.DeliverWhere(func(fl *dsim.Flight) bool { return isType(specqbft.RoundChangeMsgType, 0)(fl) && fl.From != lockedOp }, 100000)
			}
			cl.DeliverWhere(isType(specqbft.RoundChangeMsgType, 0), 100000)
		}
		for _, op := range tos {
			if roundOf(op) == r {
				_ = cl.FireTimeout(op, role)
			}
		}
		deliverRCs()
		for _, op := range hon { // stragglers that did not follow
			if roundOf(op) == r {
				_ = cl.FireTimeout(op, role)
			}
		}
		deliverRCs()
	}
	cl.DrainAll(200000)
	decided := decidedAll()
	decRound := 0
	if decided {
		decRound = roundOf(hon[0])
	}

	judge(c, e, cl, w, role, n, slot, maxR, faultFree, post, pattern, byz, decided, decRound, hon)
}

// judge stamps every broadcast of every correct operator with its virtual emission time and validates it on every
// other correct operator's own validator.
func judge(c *evid.Case, e *env, cl *dsim.Cluster, w *vsim.World, role spectypes.BeaconRole, n int, slot phase0.Slot, maxR int,
	faultFree, post bool, pattern string, byz []int, decided bool, decRound int, hon []*dsim.Operator) {
	rng := c.Rng
	var ems []*emitted
	idxInRound := map[int]int{}
	curRound := 1
	for _, ev := range cl.AllBroadcasts() {
		if ev.Role != role {
			continue
		}
		sm, ps := decode(ev.Msg)
		em := &emitted{ev: ev}
		switch {
		case sm != nil:
			em.round = int(sm.Message.Round)
			em.desc = qsim.Desc(sm)
			if em.round > curRound {
				curRound = em.round
			}
		case ps != nil && ps.Message.Type == spectypes.PostConsensusPartialSig:
			em.round = curRound // after the decision, in the decision round's window
			em.desc = fmt.Sprintf("POST-CONSENSUS{slot %d signer %d roots %d}", ps.Message.Slot, ps.Signer, len(ps.Message.Messages))
		case ps != nil:
			em.round = 0
			em.desc = fmt.Sprintf("PRE-CONSENSUS{type %d slot %d signer %d}", ps.Message.Type, ps.Message.Slot, ps.Signer)
		default:
			continue
		}
		if em.round > maxR {
			continue // beyond the role's maximum round the validator is allowed to ignore (and the quantifier stops there)
		}
		k := idxInRound[em.round]
		idxInRound[em.round]++
		if em.round == 0 {
			em.at, em.end = time.Duration(k)*time.Millisecond, base(role)
			if role == spectypes.BNRoleProposer {
				em.end = 150 * time.Millisecond
			}
		} else {
			s, en := window(role, em.round)
			em.at, em.end = s+time.Duration(k)*time.Millisecond, en
			if em.at >= en {
				em.at = en - time.Millisecond
			}
		}
		ems = append(ems, em)
	}

	slotStart := w.Beacon.GetSlotStartTime(slot)
	type recv struct {
		em *emitted
		at time.Duration
	}
	rejects, ignores, accepts := 0, 0, 0
	ignoreTexts := map[string]int{}
	violated := false
	for _, op := range hon {
		peer := w.NewPeer(post, op.ID)
		var rs []recv
		for _, em := range ems {
			if em.ev.Op == op.ID {
				continue
			}
			d := time.Duration(0)
			if !faultFree {
				switch rng.Intn(4) {
				case 0:
				case 1:
					d = em.end - em.at - time.Millisecond
				default:
					if span := int64(em.end - em.at); span > 1 {
						d = time.Duration(rng.Int63n(span))
					}
				}
			}
			if d < 0 {
				d = 0
			}
			rs = append(rs, recv{em, em.at + d})
		}
		sort.SliceStable(rs, func(i, j int) bool { return rs[i].at < rs[j].at })
		for _, r := range rs {
			res := peer.ValidateBroadcast(r.em.ev.Msg, r.em.ev.Op, slotStart.Add(r.at))
			c.Count("validations", 1)
			switch res.Res {
			case pubsub.ValidationAccept:
				accepts++
			case pubsub.ValidationIgnore:
				ignores++
				ignoreTexts[res.ErrText()]++
				if faultFree && !violated {
					violated = true
					c.Violation("honest-message-not-accepted-in-fault-free-run", fmt.Sprintf("%s/%s/%s", role, kindOf(r.em), res.ErrText()),
						fmt.Sprintf("fault-free in-order timely run (N=%d role %s, envelope phase %v): %s emitted by operator %d at slot start + %v, validated by operator %d at + %v -> ignored: %v",
							n, role, post, r.em.desc, r.em.ev.Op, r.em.at, op.ID, r.at, res.Err),
						map[string]any{"N": n, "role": role.String(), "pattern": pattern, "actions": tail(cl.Acts, 80)})
				}
			default:
				rejects++
				if !violated {
					violated = true
					c.Violation("honest-message-rejected", fmt.Sprintf("%s/%s/%s", role, kindOf(r.em), res.ErrText()),
						fmt.Sprintf("N=%d role %s pattern %s (decision round %d, envelope phase %v): %s emitted by correct operator %d in its round window (slot start + %v) was validated by correct operator %d at slot start + %v inside that window (ends + %v) and REJECTED: %v",
							n, role, pattern, decRound, post, r.em.desc, r.em.ev.Op, r.em.at, op.ID, r.at, r.em.end, res.Err),
						map[string]any{"N": n, "role": role.String(), "pattern": pattern, "silent": byz, "actions": tail(cl.Acts, 120)})
				}
			}
		}
	}
	c.Count("broadcasts_stamped", int64(len(ems)))
	c.Count("accepted", int64(accepts))
	c.Count("ignored", int64(ignores))
	c.Count("rejected", int64(rejects))
	for t, k := range ignoreTexts {
		c.Count("ignored: "+t, int64(k))
	}
	c.Max("max_decision_round", int64(decRound))
	if decided {
		c.Count("executions_decided", 1)
	}
	if faultFree {
		c.Count("executions_fault_free", 1)
	}
	if decided && (faultFree || decRound > 1) {
		c.Nontrivial(evid.Hash(role, n, pattern, decRound, post))
		c.Distinct("role_x_pattern", evid.Hash(role, n, pattern))
	}
	if c.Index == 0 && c.Idx < 3 {
		var sm []string
		for i, em := range ems {
			if i < 25 {
				sm = append(sm, fmt.Sprintf("+%v op%d %s", em.at, em.ev.Op, em.desc))
			}
		}
		c.Sample(map[string]any{"N": n, "role": role.String(), "pattern": pattern, "decision_round": decRound, "broadcasts": sm, "accepted": accepts, "ignored": ignores})
	}
}

func kindOf(em *emitted) string {
	sm, ps := decode(em.ev.Msg)
	switch {
	case sm != nil && len(sm.Signers) > 1:
		return "decided"
	case sm != nil:
		t := []string{"proposal", "prepare", "commit", "round-change"}
		if int(sm.Message.MsgType) < len(t) {
			return t[sm.Message.MsgType]
		}
	case ps != nil && ps.Message.Type == spectypes.PostConsensusPartialSig:
		return "post-consensus"
	case ps != nil:
		return "pre-consensus"
	}
	return "other"
}

func tail(a []string, n int) []string {
	if len(a) > n {
		return a[len(a)-n:]
	}
	return a
}

// runStaggered is the directed strategy "staggered partial prepare" (committee 7, two active Byzantine operators that
// lead rounds 1 and 2 and follow the message grammar; every correct message is delivered timely): in round 1 only the
// correct operator X (leader of round 3) gets a prepare quorum on Va; in round 2 the Byzantine leader proposes Vb, legitimately
// justified by unprepared round-changes, to the other correct operators, who prepare it; commits are withheld. In round 3 X
// receives the others' round-changes (prepared on Vb) before its own looped-back round-change (prepared on Va) and, as a
// correct leader must, proposes Vb. Every correct message is then validated by every correct peer as in the main lane.
func runStaggered(c *evid.Case) {
	e := c.Data.(*env)
	rng := c.Rng
	n := 7
	w, val := e.w7, e.w7.Vals[vsim.Known7]
	role := []spectypes.BeaconRole{spectypes.BNRoleAttester, spectypes.BNRoleSyncCommittee}[rng.Intn(2)]
	slot := dsim.BaseSlot(role, 1+rng.Intn(2), false)
	height := specqbft.Height(slot)
	post := rng.Intn(2) == 0
	b1, b2, x := qsim.Leader(n, height, 1), qsim.Leader(n, height, 2), qsim.Leader(n, height, 3)
	byz := []int{int(b1) - 1, int(b2) - 1}
	cl := dsim.NewCluster(e.d, rng, dsim.Config{N: n, Byz: byz, Mode: "runner", Variants: true})
	defer cl.Close()
	if role == spectypes.BNRoleSyncCommittee {
		p := w.Beacon.EstimatedSyncCommitteePeriodAtEpoch(w.Beacon.EstimatedEpochAtSlot(slot))
		w.Duties.SyncCommittee.Add(p, val.Index, &eth2apiv1.SyncCommitteeDuty{ValidatorIndex: val.Index}, true)
	}
	ks := cl.KS
	id := dsim.MsgID(ks.ValidatorPK.Serialize(), role)
	hon := cl.Honest()
	var X *dsim.Operator
	var others []*dsim.Operator
	for _, op := range hon {
		if op.ID == x {
			X = op
		} else {
			others = append(others, op)
		}
	}
	if X == nil || len(others) != 4 {
		c.Inconclusive("harness: leader layout unexpected")
		return
	}
	duty := dsim.DutyFor(role, slot)
	for _, op := range hon {
		if err := cl.StartDuty(op, duty, "fresh", nil); err != nil {
			c.Inconclusive("harness: StartDuty failed: " + err.Error())
			return
		}
	}
	va, vb := dsim.ValueFor(role, slot, 1, false), dsim.ValueFor(role, slot, 2, false)
	sign := func(from spectypes.OperatorID, m *specqbft.Message, full []byte) *spectypes.SSVMessage {
		m.Height, m.Identifier = height, id[:]
		sm := e.d.SignQBFT(ks, from, m)
		sm.FullData = full
		return dsim.WrapConsensus(id, sm)
	}
	all := func(*dsim.Flight) bool { return true }
	// round 1: Byzantine leader b1 shows Va to X and two others; the Byzantine prepares go to X only
	cl.Inject(b1, sign(b1, &specqbft.Message{MsgType: specqbft.ProposalMsgType, Round: 1, Root: qsim.Root(va)}, va), "byz-proposal", X, others[0], others[1])
	cl.DrainAll(100000)
	for _, z := range []spectypes.OperatorID{b1, b2} {
		cl.Inject(z, sign(z, &specqbft.Message{MsgType: specqbft.PrepareMsgType, Round: 1, Root: qsim.Root(va)}, nil), "byz-prepare", X)
	}
	cl.DrainAll(100000)
	for _, op := range hon {
		_ = cl.FireTimeout(op, role)
	}
	cl.DrainAll(100000)
	// round 2: Byzantine leader b2 proposes Vb, justified by the unprepared round-changes of the four others + one Byzantine
	var rcs []*specqbft.SignedMessage
	for _, ev := range cl.AllBroadcasts() {
		if sm, _ := decode(ev.Msg); sm != nil && sm.Message.MsgType == specqbft.RoundChangeMsgType && sm.Message.Round == 2 && !sm.Message.RoundChangePrepared() {
			rcs = append(rcs, sm)
		}
	}
	bz := e.d.SignQBFT(ks, b2, &specqbft.Message{MsgType: specqbft.RoundChangeMsgType, Height: height, Round: 2, Identifier: id[:]})
	rcs = append(rcs, bz)
	rcj, _ := specqbft.MarshalJustifications(rcs)
	cl.Inject(b2, sign(b2, &specqbft.Message{MsgType: specqbft.ProposalMsgType, Round: 2, Root: qsim.Root(vb), RoundChangeJustification: rcj}, vb), "byz-proposal", others...)
	cl.DrainAll(100000)
	for _, z := range []spectypes.OperatorID{b1, b2} {
		cl.Inject(z, sign(z, &specqbft.Message{MsgType: specqbft.PrepareMsgType, Round: 2, Root: qsim.Root(vb)}, nil), "byz-prepare", others...)
	}
	cl.DrainAll(100000)
	for _, op := range hon {
		_ = cl.FireTimeout(op, role)
	}
	// round 3: X (correct leader) gets a Byzantine unprepared round-change, then the others' (prepared on Vb), its own last
	cl.Inject(b1, sign(b1, &specqbft.Message{MsgType: specqbft.RoundChangeMsgType, Round: 3}, nil), "byz-round-change", X)
	cl.DeliverWhere(func(fl *dsim.Flight) bool { return fl.To == X.ID && fl.From == b1 }, 100000)
	cl.DeliverWhere(func(fl *dsim.Flight) bool { return fl.To == X.ID && fl.From != X.ID }, 100000)
	cl.DeliverWhere(all, 200000)
	prepared := 0
	proposedVb := false
	for _, op := range hon {
		if in := op.Ctrls[role].StoredInstances.FindInstance(height); in != nil && in.State.LastPreparedRound != 0 {
			prepared++
		}
	}
	for _, ev := range X.Broadcasts {
		if sm, _ := decode(ev.Msg); sm != nil && sm.Message.MsgType == specqbft.ProposalMsgType && sm.Message.Round == 3 && string(sm.FullData) == string(vb) {
			proposedVb = true
		}
	}
	c.Count("staggered_executions", 1)
	if proposedVb {
		c.Count("staggered_correct_leader_reproposed_higher_prepared_value", 1)
	}
	decided := true
	for _, op := range hon {
		if in := op.Ctrls[role].StoredInstances.FindInstance(height); in == nil || !in.State.Decided {
			decided = false
		}
	}
	pattern := fmt.Sprintf("staggered(prepared=%d,reproposed=%v)", prepared, proposedVb)
	judge(c, e, cl, w, role, n, slot, int(vsim.MaxRound(role)), false, post, pattern, byz, decided || proposedVb, 3, hon)
}
