// Package c01: agreement - honest operators never decide different values (property C01).
package c01

import (
	"verifharness/internal/evid"
	"verifharness/internal/qrun"
	"verifharness/internal/qsim"
)

func Spec() *evid.Spec {
	return &evid.Spec{
		ID:    "C01",
		Level: "exploration",
		Rule: "each case = one adversarial execution of 4/7 (thorough: also 10/13) real controllers with real BLS keys: seed-drawn height (all leader rotations), start-value assignment, 0..f Byzantine or silent operators " +
			"emitting grammar-drawn messages (equivocating proposals, prepares/commits for any value, prepared/unprepared/forged round-changes, justified proposals, genuine+forged decided, replays) with selective delivery, " +
			"scheduler policy (uniform / partition / near-sync / late-joiner / lossy) choosing deliver/drop/duplicate/timeout. Agreement oracle after every step. " +
			"Non-trivial = at least one honest operator decided AND at least one Byzantine message was accepted or a timeout processed; distinct = hash of the abstract-state trajectory " +
			"(per honest node: round, prepared round+value, accepted value, decided value)",
		Assumptions: []string{
			"quorum arithmetic of ssv-spec Share.HasQuorum and BLS verification (herumi) are trusted",
			"safety is observed only on schedules the adversary produces (exploration, not exhaustive)",
		},
		MinNontrivial: 100,
		Lanes: []evid.Lane{{
			Name: "adversarial", Children: evid.Const(16, 16), Cases: evid.Const(70, 1400), TimeoutS: evid.Const(600, 7200),
			Setup: func(ch *evid.Child) { ch.Data = qsim.NewEnv() },
			Run:   run,
		}},
	}
}

func run(c *evid.Case) {
	env := c.Data.(*qsim.Env)
	cfg := qrun.GenConfig(c.Rng, c.Tier)
	res := qrun.Run(c, env, cfg, nil)
	cl := res.Cl
	for _, f := range res.Agreement {
		c.Violation(f.Kind, f.Sig, f.Detail, qrun.Witness(res))
	}
	c.Count("steps", int64(cl.Steps))
	c.Count("deliveries", int64(cl.Delivered))
	c.Count("timeouts_fired", int64(cl.Timeouts))
	c.Count("byzantine_msgs_sent", int64(cl.ByzMsgs))
	c.Count("byzantine_msgs_accepted", int64(cl.ByzAccepted))
	c.Count("dropped", int64(cl.Dropped))
	c.Count("duplicated", int64(cl.Duplicated))
	c.Count("honest_decisions", int64(res.Decisions))
	c.Count("decisions_local", int64(res.LocalDec))
	c.Count("decisions_via_decided_msg", int64(res.RemoteDec))
	if cl.AllHonestDecided() {
		c.Count("executions_all_decided", 1)
	}
	c.Max("max_round_reached", int64(res.MaxRound))
	c.Count("executions_N"+itoa(cfg.N), 1)
	for _, s := range res.States {
		c.Distinct("abstract_states", s)
	}
	if res.Directed != "" {
		c.Count("executions_opening_with_lock_then_break", 1)
		c.Distinct("directed_variants", evid.Hash(res.Directed, cfg.N))
	}
	if res.Nontrivial {
		c.Nontrivial(res.Traj)
	}
	if c.Index == 0 && c.Idx < 2 {
		acts := cl.Acts
		if len(acts) > 60 {
			acts = acts[:60]
		}
		c.Sample(map[string]any{"config": cfg, "first_actions": acts, "final": cl.AbstractState()})
	}
}

func itoa(n int) string {
	if n < 10 {
		return string(rune('0' + n))
	}
	return string(rune('0'+n/10)) + string(rune('0'+n%10))
}
