// Package c07: consensus can still terminate with <= f faults - restated as bounded progress (property C07):
// (1) from the state at the end of any adversarial prefix, a canonical timely continuation among the correct
// operators makes all of them decide within f+3 further rounds; (2) fault-free synchronous runs decide in round 1 on
// the leader's value; (3) before the cut-off a timeout always advances the round and announces it.
package c07

import (
	"bytes"
	"fmt"
	"math/rand"
	"sort"

	specqbft "github.com/bloxapp/ssv-spec/qbft"
	spectypes "github.com/bloxapp/ssv-spec/types"

	"verifharness/internal/evid"
	"verifharness/internal/qrun"
	"verifharness/internal/qsim"
)

func Spec() *evid.Spec {
	return &evid.Spec{
		ID:    "C07",
		Level: "exploration",
		Rule: "lane continuation: adversarial prefix of seed-chosen length (<= f Byzantine/silent operators, rounds <= 7) then the canonical timely continuation among correct operators (Byzantine silent, all in-flight honest messages delivered, " +
			"overdue timeouts fired, lock-step rounds); three delivery orderings are tried before a failure is reported; oracle: all correct operators decide within f+3 rounds after the highest round of the prefix. " +
			"lane sync: fault-free in-order runs for every height mod N (N=4,7,10,13) and start-value assignment: everybody decides in round 1 on the leader's start value. " +
			"lane timeout: in prefix states, Controller.OnTimeout for the current round (rounds 1..13) must bump the round by one, clear the accepted proposal, re-arm the timer and broadcast exactly one round-change for the new round. " +
			"Non-trivial (continuation) = prefix in which at least one timeout fired or a Byzantine message was accepted and not all correct operators had decided; distinct = abstract state at the cut",
		Assumptions: []string{
			"liveness is restated as bounded progress under a constructed timely continuation; only three canonical orderings are tried, so a report means 'none of the three worked'",
			"in the continuation the leader receives the round-change with the highest prepared round last (the code, like ssv-spec, proposes the last received round-change's data)",
		},
		MinNontrivial: 100,
		Lanes: []evid.Lane{
			{Name: "continuation", Children: evid.Const(16, 16), Cases: evid.Const(24, 500), TimeoutS: evid.Const(900, 7200),
				Setup: func(ch *evid.Child) { ch.Data = qsim.NewEnv() }, Run: runContinuation},
			{Name: "sync", Children: evid.Const(4, 8), Cases: evid.Const(12, 60), TimeoutS: evid.Const(600, 3600),
				Setup: func(ch *evid.Child) { ch.Data = qsim.NewEnv() }, Run: runSync},
			{Name: "timeout", Children: evid.Const(8, 16), Cases: evid.Const(25, 600), TimeoutS: evid.Const(600, 3600),
				Setup: func(ch *evid.Child) { ch.Data = qsim.NewEnv() }, Run: runTimeout},
		},
	}
}

// prefix runs an adversarial prefix deterministically from seed and returns the cluster (no monitors needed here).
func prefix(c *evid.Case, env *qsim.Env, seed int64) (*qsim.Cluster, qsim.Config) {
	rng := rand.New(rand.NewSource(seed))
	cfg := qrun.GenConfig(rng, c.Tier)
	if cfg.N > 7 && rng.Intn(2) == 0 {
		cfg.N = 7
		if f := (cfg.N - 1) / 3; cfg.NumByz > f { // the thorough tier draws committees up to 13: keep <= f faulty for the new size
			cfg.NumByz = f
		}
	}
	cfg.MaxSteps = rng.Intn(90 * cfg.N) // any prefix length, so intermediate states are sampled too
	directed := rng.Intn(5) == 0
	if directed {
		// directed prefix "split prepare": all f Byzantine operators active, distinct start values
		f := (cfg.N - 1) / 3
		cfg.NumByz, cfg.SilentByz, cfg.ValueMode = f, false, 1
		cfg.ByzIDs = rng.Perm(cfg.N)[:f]
		cfg.MaxSteps = rng.Intn(20) // a few random steps after the script
	}
	decidedFew := !directed && rng.Intn(6) == 0
	if decidedFew {
		cfg.MaxSteps = rng.Intn(10)
	}
	cl := qsim.NewCluster(env, rng, cfg)
	cl.StartAll()
	if directed {
		qrun.SplitPrepareUpTo(cl, nil, rng.Intn(3) == 0)
	}
	if decidedFew {
		decidedFewPrefix(cl)
	}
	for cl.Step() {
	}
	return cl, cfg
}

func preparedValues(cl *qsim.Cluster) map[string]bool {
	vals := map[string]bool{}
	for _, n := range cl.Honest() {
		// decided operators still answer a partial quorum with a round-change carrying their last prepared value
		if st := n.Inst(); st != nil && st.LastPreparedRound != 0 && st.LastPreparedValue != nil {
			vals[string(st.LastPreparedValue)] = true
		}
	}
	return vals
}

// continuation plays the canonical timely continuation with a delivery ordering variant; returns the number of rounds
// used after r0 and whether all correct operators decided.
func deliverTimely(cl *qsim.Cluster, f *qsim.Flight) {
	_ = cl.Deliver(cl.Nodes[f.To-1], f.Msg, false)
}

func continuation(cl *qsim.Cluster, variant int, budget int) (bool, specqbft.Round, []string) {
	var log []string
	// Byzantine operators fall silent: their in-flight messages are never delivered
	var keep []*qsim.Flight
	for _, f := range cl.Pool {
		if !f.Byz {
			keep = append(keep, f)
		}
	}
	cl.Pool = keep
	r0 := cl.MaxHonestRound()
	limit := r0 + specqbft.Round(budget)
	deliverAll := func() {
		// Variant 0 (the canonical one): everything is delivered as it comes, except that prepared round-changes addressed
		// to the leader of their round are held back until nothing else is deliverable and then handed over in ascending
		// order of prepared round. The code (like ssv-spec) proposes the data of the round-change that completes the
		// quorum, so this is the timely order in which a correct leader can always propose. Variants 1, 2: FIFO / reversed.
		var held []*qsim.Flight
		for guard := 0; guard < 100000; guard++ {
			if len(cl.Pool) == 0 {
				if len(held) == 0 {
					return
				}
				sort.SliceStable(held, func(i, j int) bool { return held[i].Msg.Message.DataRound < held[j].Msg.Message.DataRound })
				cl.Pool, held = held, nil
				for len(cl.Pool) > 0 {
					f := cl.Pool[0]
					cl.Pool = cl.Pool[1:]
					deliverTimely(cl, f)
				}
				continue
			}
			pool := cl.Pool
			cl.Pool = nil
			if variant == 2 {
				for i, j := 0, len(pool)-1; i < j; i, j = i+1, j-1 {
					pool[i], pool[j] = pool[j], pool[i]
				}
			}
			for _, f := range pool {
				m := f.Msg.Message
				if variant != 1 && m.MsgType == specqbft.RoundChangeMsgType && m.DataRound != 0 && f.To == qsim.Leader(cl.Cfg.N, cl.Cfg.Height, m.Round) {
					held = append(held, f)
					continue
				}
				deliverTimely(cl, f)
			}
		}
	}
	for iter := 0; iter < 200; iter++ {
		deliverAll()
		if cl.AllHonestDecided() {
			return true, cl.MaxHonestRound() - r0, log
		}
		// undecided correct operators
		var und []*qsim.Node
		var top specqbft.Round
		for _, n := range cl.Honest() {
			if st := n.Inst(); st != nil {
				if st.Round > top {
					top = st.Round
				}
				if !st.Decided {
					und = append(und, n)
				}
			}
		}
		if top > limit || int(top) >= 14 {
			return false, top - r0, log
		}
		behind := false
		for _, n := range und {
			if n.Inst().Round < top {
				behind = true
				// overdue timeouts: deadlines are absolute, so a lagging operator fires until it reaches the top round
				for n.Inst().Round < top && !n.Inst().Decided {
					r := n.Inst().Round
					// the event carries the (height, round) the operator's timer was last armed for, as the real timer's does
					if err := cl.FireTimeout(n); err != nil {
						log = append(log, fmt.Sprintf("timeout n%d r%d err=%v", n.ID, r, err))
						break
					}
					if n.Inst().Round == r {
						break
					}
				}
			}
		}
		if behind {
			log = append(log, fmt.Sprintf("caught lagging operators up to round %d", top))
			continue
		}
		// lock-step: everybody undecided times out of the top round
		for _, n := range und {
			_ = cl.FireTimeout(n)
		}
		log = append(log, fmt.Sprintf("round %d timed out at %d undecided operators", top, len(und)))
	}
	return false, cl.MaxHonestRound() - r0, log
}

// roundChangesAccepted inspects the final state of a failed continuation: accepted = every undecided correct operator holds,
// for its current round, a round-change of every undecided correct operator that is in the same round (they were delivered in
// time, so a missing one was refused); distinctPrepared = some undecided operator holds a round-change quorum for its round
// that contains round-changes prepared on two different values.
func roundChangesAccepted(cl *qsim.Cluster) (accepted, distinctPrepared bool) {
	var und []*qsim.Node
	for _, n := range cl.Honest() {
		if st := n.Inst(); st != nil && !st.Decided {
			und = append(und, n)
		}
	}
	accepted = true
	quorum := cl.Cfg.N - cl.F
	for _, n := range und {
		st := n.Inst()
		have := map[spectypes.OperatorID]bool{}
		roots := map[[32]byte]bool{}
		if st.RoundChangeContainer != nil {
			for _, m := range st.RoundChangeContainer.MessagesForRound(st.Round) {
				for _, s := range m.Signers {
					have[s] = true
				}
				if m.Message.DataRound != 0 {
					roots[m.Message.Root] = true
				}
			}
		}
		for _, o := range und {
			if o.Inst().Round == st.Round && !have[o.ID] {
				accepted = false
			}
		}
		if len(have) >= quorum && len(roots) >= 2 {
			distinctPrepared = true
		}
	}
	return accepted, distinctPrepared
}

func runContinuation(c *evid.Case) {
	env := c.Data.(*qsim.Env)
	seed := c.Rng.Int63()
	cl, cfg := prefix(c, env, seed)
	if int(cl.MaxHonestRound()) >= 15-(cl.F+3)-1 {
		c.Count("prefix_too_close_to_cutoff_skipped", 1)
		return
	}
	cut := cl.AbstractState()
	allDecidedAtCut := cl.AllHonestDecided()
	pv := preparedValues(cl)
	undecidedAtCut, decidedAtCut := 0, 0
	for _, nd := range cl.Honest() {
		if d, _ := nd.Decided(); d {
			decidedAtCut++
		} else {
			undecidedAtCut++
		}
	}
	nontrivial := (cl.Timeouts > 0 || cl.ByzAccepted > 0) && !allDecidedAtCut
	budget := cl.F + 3
	ok, used, log0 := continuation(cl, 0, budget)
	c.Count("continuations_played", 1)
	c.Count("correct_leader_proposals_refused_by_correct_operators", int64(len(cl.Refusals)))
	if ok {
		c.Count("continuation_all_decided", 1)
		c.Max("max_rounds_needed_after_prefix", int64(used))
		if used == 0 {
			c.Count("decided_without_further_round", 1)
		}
	} else {
		// the claim is existential: try two more canonical orderings from the same prefix before reporting
		logs := [][]string{log0}
		okAny := false
		for v := 1; v <= 2 && !okAny; v++ {
			cl2, _ := prefix(c, env, seed)
			ok2, used2, lg := continuation(cl2, v, budget)
			logs = append(logs, lg)
			if ok2 {
				okAny = true
				c.Count("continuation_needed_alternative_ordering", 1)
				c.Max("max_rounds_needed_after_prefix", int64(used2))
			}
		}
		if !okAny {
			sig := fmt.Sprintf("N=%d/prepared-values=%d", cfg.N, len(pv))
			// the three classes below are known mechanisms (section 19); a failure is filed under one of them only if the state at
			// the end of the first continuation shows that mechanism: the round-changes of the undecided correct operators were
			// ACCEPTED by each other (so the stall is not caused by refused or missing round-changes)
			accepted, distinctPrepared := roundChangesAccepted(cl)
			if len(cl.Refusals) > 0 {
				// whatever the final state looks like: somewhere in this execution (prefix or continuation) a correct operator turned
				// a correct leader's proposal down
				sig += "/correct-operator-refused-a-correct-leaders-proposal"
				log0 = append(log0, cl.Refusals...)
			} else if !accepted {
				sig += "/round-changes-of-correct-operators-not-accepted"
			} else if distinctPrepared { // possibly reached only during the continuation (a value prepared after the cut)
				sig = "correct-operators-prepared-on-distinct-values"
			} else if cfg.RunnerCompaction && decidedAtCut > 0 && undecidedAtCut > cl.F {
				// more than f operators are undecided (enough for a partial quorum), but the decided ones compact their instance on
				// every round-change (the container is cleared each time) and therefore never join
				sig = "runner-compaction/decided-operators-never-join-the-round-change"
			} else if undecidedAtCut > 0 && undecidedAtCut <= cl.F && decidedAtCut > 0 {
				// fewer undecided correct operators than a partial quorum (f+1), everybody else decided, the decided messages lost
				sig = "undecided-correct-operators-fewer-than-partial-quorum-and-decided-messages-lost"
			}
			c.Violation("no-timely-continuation-decides", sig,
				fmt.Sprintf("three canonical timely continuations from the cut (state %s, %d distinct prepared values among the correct operators) did not make all correct operators decide within f+3=%d rounds",
					cut, len(pv), budget),
				map[string]any{"config": cfg, "prefix_seed": seed, "prefix_actions": tail(cl.Acts, 80), "state_at_cut": cut, "continuations": logs, "final_state": cl.AbstractState()})
		}
	}
	c.Count("prefix_steps", int64(cl.Cfg.MaxSteps))
	if len(pv) >= 2 {
		c.Count("cuts_with_two_prepared_values", 1)
	}
	if nontrivial {
		c.Nontrivial(evid.Hash(cfg.N, cut))
		c.Distinct("states_at_cut", evid.Hash(cfg.N, cut))
	}
	if c.Index == 0 && c.Idx < 2 {
		c.Sample(map[string]any{"config": cfg, "state_at_cut": cut, "continuation": log0, "all_decided": ok, "rounds_used": used})
	}
}

func tail(a []string, n int) []string {
	if len(a) > n {
		return a[len(a)-n:]
	}
	return a
}

func runSync(c *evid.Case) {
	env := c.Data.(*qsim.Env)
	// deterministic enumeration: child index x case index -> (N, height residue, value mode)
	ns := []int{4, 7, 10, 13}
	k := c.Idx*1000 + c.Index
	n := ns[k%len(ns)]
	if c.Tier == "quick" && n > 7 && c.Index%3 != 0 {
		n = ns[k%2]
	}
	heightBase := []specqbft.Height{0, specqbft.Height(n), specqbft.Height(7 * n), 1000}[c.Rng.Intn(4)]
	for res := 0; res < n; res++ {
		h := heightBase + specqbft.Height(res)
		for vm := 0; vm < 3; vm++ {
			cfg := qsim.Config{N: n, Height: h, ValueMode: vm, Policy: 2, MaxSteps: 1 << 30, MaxRound: 1, FullNode: vm == 0}
			cl := qsim.NewCluster(env, c.Rng, cfg)
			cl.StartAll()
			for len(cl.Pool) > 0 {
				f := cl.Pool[0]
				cl.Pool = cl.Pool[1:]
				deliverTimely(cl, f)
			}
			ld := qsim.Leader(n, h, 1)
			want := cl.Nodes[ld-1].Start
			c.Count("sync_runs", 1)
			c.Nontrivial(evid.Hash("sync", n, h%specqbft.Height(n), vm))
			for _, nd := range cl.Honest() {
				st := nd.Inst()
				if st == nil || !st.Decided {
					c.Violation("fault-free-run-did-not-decide", fmt.Sprintf("N=%d", n), fmt.Sprintf("N=%d height=%d node %d undecided after in-order delivery of everything", n, h, nd.ID),
						map[string]any{"config": cfg, "actions": tail(cl.Acts, 60)})
					return
				}
				if st.Round != 1 {
					c.Violation("fault-free-run-left-round-1", fmt.Sprintf("N=%d", n), fmt.Sprintf("node %d ended in round %d", nd.ID, st.Round), nil)
					return
				}
				if !bytes.Equal(st.DecidedValue, want) {
					c.Violation("fault-free-run-decided-other-value", fmt.Sprintf("N=%d", n),
						fmt.Sprintf("N=%d height=%d: node %d decided %q, round-1 leader %d started with %q", n, h, nd.ID, st.DecidedValue, ld, want), nil)
					return
				}
			}
		}
	}
	if c.Index == 0 && c.Idx == 0 {
		c.Sample(map[string]any{"lane": "sync", "N": n, "heights": fmt.Sprintf("%d..%d", heightBase, int(heightBase)+n-1), "value_modes": 3})
	}
}

func runTimeout(c *evid.Case) {
	env := c.Data.(*qsim.Env)
	cl, cfg := prefix(c, env, c.Rng.Int63())
	for _, nd := range cl.Honest() {
		// walk this operator through timeouts up to the cut-off, checking each one
		for step := 0; step < 16; step++ {
			st := nd.Inst()
			if st == nil || st.Decided {
				break
			}
			r := st.Round
			if r >= 14 {
				break
			}
			arms := nd.Arms
			outBefore := len(nd.AllOut)
			// the expiring timer reports the (height, round) it was armed for (roundtimer.waitForRound -> Validator.onTimeout)
			armedH, armedR := nd.ArmedH, nd.ArmedR
			err := cl.FireTimeout(nd)
			c.Count("timeouts_checked", 1)
			if armedH != cfg.Height || armedR != r {
				c.Count("timer_armed_for_other_round_at_cut", 1)
			}
			c.Nontrivial(evid.Hash("timeout", cfg.N, r, st.LastPreparedRound != 0, step == 0))
			c.Distinct("timeout_rounds", evid.Hash(r))
			st2 := nd.Inst()
			fail := func(what string) {
				c.Violation("timeout-did-not-advance", what, fmt.Sprintf("N=%d node %d round %d (prepared round %d): %s (err=%v)", cfg.N, nd.ID, r, st.LastPreparedRound, what, err),
					map[string]any{"config": cfg, "prefix_actions": tail(cl.Acts, 60)})
			}
			if st2.Round != r+1 {
				if armedH != cfg.Height || armedR != r {
					fail("timer armed for a round other than the operator's current one, its expiry is ignored")
					break
				}
				fail(fmt.Sprintf("round is %d after the timeout of round %d", st2.Round, r))
				break
			}
			if st2.ProposalAcceptedForCurrentRound != nil {
				fail("accepted proposal not cleared")
				break
			}
			if nd.Arms != arms+1 || nd.ArmedR != r+1 || nd.ArmedH != cfg.Height {
				fail(fmt.Sprintf("timer not re-armed for the new round (arms %d->%d, armed h%d r%d)", arms, nd.Arms, nd.ArmedH, nd.ArmedR))
				break
			}
			outs := nd.AllOut[outBefore:]
			rcs := 0
			for _, m := range outs {
				if m.Message.MsgType == specqbft.RoundChangeMsgType && m.Message.Round == r+1 && len(m.Signers) == 1 && m.Signers[0] == nd.ID && m.Message.Height == cfg.Height {
					rcs++
				}
			}
			if rcs != 1 || len(outs) != 1 {
				fail(fmt.Sprintf("expected exactly one round-change broadcast for round %d, saw %d broadcasts of which %d such round-changes", r+1, len(outs), rcs))
				break
			}
			_ = spectypes.OperatorID(0)
			// the fresh broadcasts stay in the pool; nothing else is delivered: pure timeout walk
		}
	}
}

// decidedFewPrefix is a directed prefix: the round-1 proposal and prepares reach every correct operator, the commits reach
// only one of them (it decides), everything else - including its decided message - is lost. The other correct operators
// (at least f+1 when no more than f-... operators are faulty) are prepared but undecided: they need the decided operator to
// join their round change through the partial-quorum rule.
func decidedFewPrefix(cl *qsim.Cluster) {
	n, h := cl.Cfg.N, cl.Cfg.Height
	hon, byz := cl.Honest(), cl.ByzNodes()
	isT := func(t specqbft.MessageType) func(f *qsim.Flight) bool {
		return func(f *qsim.Flight) bool { return f.Msg.Message.MsgType == t && len(f.Msg.Signers) == 1 }
	}
	if l1 := cl.Nodes[qsim.Leader(n, h, 1)-1]; l1.Byz && !l1.Silent {
		cl.ByzSendTo(l1, cl.MkProposal(l1, 1, cl.Values[0], nil, nil), "proposal", hon)
	}
	cl.DeliverWhere(isT(specqbft.ProposalMsgType), nil)
	var v []byte
	for _, x := range hon {
		if st := x.Inst(); st != nil && st.ProposalAcceptedForCurrentRound != nil {
			v = st.ProposalAcceptedForCurrentRound.FullData
		}
	}
	if v == nil {
		return
	}
	for _, z := range byz {
		if !z.Silent {
			cl.ByzSendTo(z, cl.MkSimple(z, specqbft.PrepareMsgType, 1, qsim.Root(v)), "prepare", hon)
		}
	}
	cl.DeliverWhere(isT(specqbft.PrepareMsgType), nil)
	d := hon[cl.Rng.Intn(len(hon))]
	for _, z := range byz {
		if !z.Silent {
			cl.ByzSendTo(z, cl.MkSimple(z, specqbft.CommitMsgType, 1, qsim.Root(v)), "commit", []*qsim.Node{d})
		}
	}
	cl.DeliverWhere(func(f *qsim.Flight) bool { return f.To == d.ID && isT(specqbft.CommitMsgType)(f) }, nil)
	cl.DropWhere(func(*qsim.Flight) bool { return true })
	cl.Act("decided-few prefix: operator %d decided, the others prepared", d.ID)
}
