package dsim

import (
	"sort"

	"github.com/attestantio/go-eth2-client/spec/phase0"
	specqbft "github.com/bloxapp/ssv-spec/qbft"
	spectypes "github.com/bloxapp/ssv-spec/types"
	"github.com/bloxapp/ssv-spec/types/testingutils"
	"github.com/herumi/bls-eth-go-binary/bls"

	"verifharness/internal/qsim"
)

// ---- crafting the traffic of committee members the harness plays itself (real share keys) ----------------------

type sigKey struct {
	n    int
	id   spectypes.OperatorID
	root [32]byte
}

// ShareSig signs 32 bytes with operator id's share key (BLS signing is deterministic: cached per child).
func (e *Env) ShareSig(ks *testingutils.TestKeySet, id spectypes.OperatorID, root [32]byte) []byte {
	k := sigKey{len(ks.Shares), id, root}
	if s, ok := e.sigs[k]; ok {
		return append([]byte{}, s...)
	}
	s := ks.Shares[id].SignByte(root[:]).Serialize()
	if len(e.sigs) < 200000 {
		e.sigs[k] = s
	}
	return append([]byte{}, s...)
}

// PartialSigMsg builds operator id's partial-signature message: one partial signature per signing root, made with the
// operator's real share key, and the operator's signature over the whole message.
func (e *Env) PartialSigMsg(ks *testingutils.TestKeySet, id spectypes.OperatorID, typ spectypes.PartialSigMsgType, slot phase0.Slot, roots [][32]byte) *spectypes.SignedPartialSignatureMessage {
	msgs := spectypes.PartialSignatureMessages{Type: typ, Slot: slot}
	for _, r := range roots {
		msgs.Messages = append(msgs.Messages, &spectypes.PartialSignatureMessage{PartialSignature: e.ShareSig(ks, id, r), SigningRoot: r, Signer: id})
	}
	return e.SealPartial(ks, id, msgs)
}

// SealPartial (re)computes the operator's outer signature over the message list.
func (e *Env) SealPartial(ks *testingutils.TestKeySet, id spectypes.OperatorID, msgs spectypes.PartialSignatureMessages) *spectypes.SignedPartialSignatureMessage {
	r, err := spectypes.ComputeSigningRoot(msgs, spectypes.ComputeSignatureDomain(Domain, spectypes.PartialSignatureType))
	if err != nil {
		panic(err)
	}
	return &spectypes.SignedPartialSignatureMessage{Message: msgs, Signature: e.ShareSig(ks, id, r), Signer: id}
}

func MsgID(vpk []byte, role spectypes.BeaconRole) spectypes.MessageID {
	return spectypes.NewMsgID(Domain, vpk, role)
}

func WrapPartial(id spectypes.MessageID, ps *spectypes.SignedPartialSignatureMessage) *spectypes.SSVMessage {
	data, err := ps.Encode()
	if err != nil {
		panic(err)
	}
	return &spectypes.SSVMessage{MsgType: spectypes.SSVPartialSignatureMsgType, MsgID: id, Data: data}
}

func WrapConsensus(id spectypes.MessageID, sm *specqbft.SignedMessage) *spectypes.SSVMessage {
	data, err := sm.Encode()
	if err != nil {
		panic(err)
	}
	return &spectypes.SSVMessage{MsgType: spectypes.SSVConsensusMsgType, MsgID: id, Data: data}
}

// SignQBFT signs a qbft message with operator id's share key (cached).
func (e *Env) SignQBFT(ks *testingutils.TestKeySet, id spectypes.OperatorID, msg *specqbft.Message) *specqbft.SignedMessage {
	r, err := spectypes.ComputeSigningRoot(msg, spectypes.ComputeSignatureDomain(Domain, spectypes.QBFTSignatureType))
	if err != nil {
		panic(err)
	}
	return &specqbft.SignedMessage{Message: *msg, Signers: []spectypes.OperatorID{id}, Signature: e.ShareSig(ks, id, r)}
}

// Decided builds a genuine decided message: the aggregate of real commits of the given signers for (height, round, value)
// under the given controller identifier.
func (e *Env) Decided(ks *testingutils.TestKeySet, identifier []byte, h specqbft.Height, round specqbft.Round, value []byte, signers []spectypes.OperatorID) *specqbft.SignedMessage {
	msg := &specqbft.Message{MsgType: specqbft.CommitMsgType, Height: h, Round: round, Identifier: identifier, Root: qsim.Root(value)}
	var cs []*specqbft.SignedMessage
	for _, id := range signers {
		cs = append(cs, e.SignQBFT(ks, id, msg))
	}
	agg := qsim.Aggregate(cs)
	agg.FullData = value
	return agg
}

// FirstSigners returns k operator ids starting with the given ones (deduplicated, sorted).
func FirstSigners(n, k int, prefer ...spectypes.OperatorID) []spectypes.OperatorID {
	seen := map[spectypes.OperatorID]bool{}
	var r []spectypes.OperatorID
	for _, p := range prefer {
		if !seen[p] && len(r) < k {
			seen[p] = true
			r = append(r, p)
		}
	}
	for id := spectypes.OperatorID(1); int(id) <= n && len(r) < k; id++ {
		if !seen[id] {
			seen[id] = true
			r = append(r, id)
		}
	}
	sort.Slice(r, func(i, j int) bool { return r[i] < r[j] })
	return r
}

// RandomG2 is a syntactically valid signature unrelated to anything.
func RandomG2(seed []byte) []byte {
	var sk bls.SecretKey
	sk.SetHexString("1f" + hexN(seed, 30))
	return sk.SignByte([]byte("dsim-unrelated")).Serialize()
}

func hexN(b []byte, n int) string {
	const hx = "0123456789abcdef"
	out := make([]byte, 0, 2*n)
	for i := 0; i < n; i++ {
		var v byte = byte(i*7 + 1)
		if i < len(b) {
			v ^= b[i]
		}
		out = append(out, hx[v>>4], hx[v&15])
	}
	return string(out)
}

// DutyFor builds a duty of the fixture validator for a role and slot.
func DutyFor(role spectypes.BeaconRole, slot phase0.Slot) *spectypes.Duty {
	d := &spectypes.Duty{Type: role, PubKey: testingutils.TestingValidatorPubKey, Slot: slot, ValidatorIndex: ValidatorIndex,
		CommitteeIndex: 3, CommitteesAtSlot: 36, CommitteeLength: 128, ValidatorCommitteeIndex: 11}
	switch role {
	case spectypes.BNRoleAggregator:
		d.CommitteeIndex = 22
	case spectypes.BNRoleSyncCommittee, spectypes.BNRoleSyncCommitteeContribution:
		d.ValidatorSyncCommitteeIndices = []uint64{0, 1, 2}
	}
	return d
}

// BaseSlot is a fixture slot for a role: k-th duty (k = 0, 1, ...), one epoch apart. Proposer duties live at the
// Capella (deneb=false) or Deneb fork epoch of the fixtures, because the fake beacon node picks the block version by slot.
func BaseSlot(role spectypes.BeaconRole, k int, deneb bool) phase0.Slot {
	if role == spectypes.BNRoleProposer {
		s := phase0.Slot(testingutils.TestingDutySlotCapella)
		if deneb {
			s = phase0.Slot(testingutils.TestingDutySlotDeneb)
		}
		return s + phase0.Slot(32*k)
	}
	return phase0.Slot(testingutils.TestingDutySlot + 38*k)
}
