package dsim

import (
	"github.com/attestantio/go-eth2-client/api"
	"github.com/attestantio/go-eth2-client/spec"
	"github.com/attestantio/go-eth2-client/spec/altair"
	"github.com/attestantio/go-eth2-client/spec/bellatrix"
	"github.com/attestantio/go-eth2-client/spec/phase0"
	spectypes "github.com/bloxapp/ssv-spec/types"
	"github.com/bloxapp/ssv-spec/types/testingutils"
	ssz "github.com/ferranbt/fastssz"
)

// RecBN decorates the beacon node of one runner: it records the arguments of every call that carries a signature
// towards the beacon node. Variant != 0 makes this operator's duty data differ from its peers' (different proposals).
type RecBN struct {
	*testingutils.TestingBeaconNode
	op      *Operator
	role    spectypes.BeaconRole
	Variant byte
}

func (b *RecBN) rec(ev *SubmitEvent) {
	op := b.op
	ev.Op, ev.Role, ev.Tick = op.ID, b.role, op.cl.tick()
	if r := op.Real[b.role]; r != nil {
		ev.Snap = TakeSnap(r)
		if st := r.GetBaseRunner().State; st != nil && st.StartingDuty != nil {
			d := *st.StartingDuty
			ev.Duty = &d
		}
	}
	op.mu.Lock()
	ev.Idx = len(op.Submits)
	ev.Action = op.cur
	op.Submits = append(op.Submits, ev)
	op.mu.Unlock()
}

func (b *RecBN) GetAttestationData(slot phase0.Slot, ci phase0.CommitteeIndex) (ssz.Marshaler, spec.DataVersion, error) {
	data := *testingutils.TestingAttestationData
	data.Slot = slot
	data.Index = ci
	data.BeaconBlockRoot[31] ^= b.Variant
	return &data, spec.DataVersionPhase0, nil
}

func (b *RecBN) GetSyncMessageBlockRoot(slot phase0.Slot) (phase0.Root, spec.DataVersion, error) {
	r := testingutils.TestingSyncCommitteeBlockRoot
	r[31] ^= b.Variant
	return r, spec.DataVersionPhase0, nil
}

func (b *RecBN) SubmitAttestation(a *phase0.Attestation) error {
	b.rec(&SubmitEvent{Method: "SubmitAttestation", Submit: true, Obj: a, Sigs: []phase0.BLSSignature{a.Signature}})
	return b.TestingBeaconNode.SubmitAttestation(a)
}

func (b *RecBN) SubmitBeaconBlock(block *api.VersionedProposal, sig phase0.BLSSignature) error {
	b.rec(&SubmitEvent{Method: "SubmitBeaconBlock", Submit: true, Obj: block, Sigs: []phase0.BLSSignature{sig}})
	return b.TestingBeaconNode.SubmitBeaconBlock(block, sig)
}

func (b *RecBN) SubmitBlindedBeaconBlock(block *api.VersionedBlindedProposal, sig phase0.BLSSignature) error {
	b.rec(&SubmitEvent{Method: "SubmitBlindedBeaconBlock", Submit: true, Obj: block, Sigs: []phase0.BLSSignature{sig}})
	return b.TestingBeaconNode.SubmitBlindedBeaconBlock(block, sig)
}

func (b *RecBN) SubmitSignedAggregateSelectionProof(msg *phase0.SignedAggregateAndProof) error {
	b.rec(&SubmitEvent{Method: "SubmitSignedAggregateSelectionProof", Submit: true, Obj: msg, Sigs: []phase0.BLSSignature{msg.Signature}})
	return b.TestingBeaconNode.SubmitSignedAggregateSelectionProof(msg)
}

func (b *RecBN) SubmitSyncMessage(msg *altair.SyncCommitteeMessage) error {
	b.rec(&SubmitEvent{Method: "SubmitSyncMessage", Submit: true, Obj: msg, Sigs: []phase0.BLSSignature{msg.Signature}})
	return b.TestingBeaconNode.SubmitSyncMessage(msg)
}

func (b *RecBN) SubmitSignedContributionAndProof(c *altair.SignedContributionAndProof) error {
	b.rec(&SubmitEvent{Method: "SubmitSignedContributionAndProof", Submit: true, Obj: c, Sigs: []phase0.BLSSignature{c.Signature}})
	return b.TestingBeaconNode.SubmitSignedContributionAndProof(c)
}

type Registration struct {
	Pubkey       []byte
	FeeRecipient bellatrix.ExecutionAddress
}

func (b *RecBN) SubmitValidatorRegistration(pubkey []byte, fee bellatrix.ExecutionAddress, sig phase0.BLSSignature) error {
	b.rec(&SubmitEvent{Method: "SubmitValidatorRegistration", Submit: true, Obj: &Registration{Pubkey: append([]byte{}, pubkey...), FeeRecipient: fee}, Sigs: []phase0.BLSSignature{sig}})
	return b.TestingBeaconNode.SubmitValidatorRegistration(pubkey, fee, sig)
}

func (b *RecBN) SubmitVoluntaryExit(e *phase0.SignedVoluntaryExit) error {
	b.rec(&SubmitEvent{Method: "SubmitVoluntaryExit", Submit: true, Obj: e, Sigs: []phase0.BLSSignature{e.Signature}})
	return b.TestingBeaconNode.SubmitVoluntaryExit(e)
}

// SubmitAggregateSelectionProof hands the reconstructed selection proof to the beacon node.
func (b *RecBN) SubmitAggregateSelectionProof(slot phase0.Slot, ci phase0.CommitteeIndex, cl uint64, index phase0.ValidatorIndex, slotSig []byte) (ssz.Marshaler, spec.DataVersion, error) {
	b.rec(&SubmitEvent{Method: "SubmitAggregateSelectionProof", Submit: true, Slot: slot, Index: index, Sigs: []phase0.BLSSignature{toSig(slotSig)}})
	return b.TestingBeaconNode.SubmitAggregateSelectionProof(slot, ci, cl, index, slotSig)
}

// The three calls below are not Submit* methods but carry a reconstructed pre-consensus proof to the beacon node.
func (b *RecBN) GetBeaconBlock(slot phase0.Slot, graffiti, randao []byte) (ssz.Marshaler, spec.DataVersion, error) {
	b.rec(&SubmitEvent{Method: "GetBeaconBlock", Slot: slot, Sigs: []phase0.BLSSignature{toSig(randao)}})
	return b.TestingBeaconNode.GetBeaconBlock(slot, graffiti, randao)
}

func (b *RecBN) GetBlindedBeaconBlock(slot phase0.Slot, graffiti, randao []byte) (ssz.Marshaler, spec.DataVersion, error) {
	b.rec(&SubmitEvent{Method: "GetBlindedBeaconBlock", Slot: slot, Sigs: []phase0.BLSSignature{toSig(randao)}})
	return b.TestingBeaconNode.GetBlindedBeaconBlock(slot, graffiti, randao)
}

func (b *RecBN) GetSyncCommitteeContribution(slot phase0.Slot, proofs []phase0.BLSSignature, subnets []uint64) (ssz.Marshaler, spec.DataVersion, error) {
	b.rec(&SubmitEvent{Method: "GetSyncCommitteeContribution", Slot: slot, Sigs: append([]phase0.BLSSignature{}, proofs...), Subnet: append([]uint64{}, subnets...)})
	return b.TestingBeaconNode.GetSyncCommitteeContribution(slot, proofs, subnets)
}

func toSig(b []byte) phase0.BLSSignature {
	var s phase0.BLSSignature
	copy(s[:], b)
	return s
}
