package dsim

import (
	"fmt"
	"sync"
	"time"

	specqbft "github.com/bloxapp/ssv-spec/qbft"
	spectypes "github.com/bloxapp/ssv-spec/types"

	"github.com/bloxapp/ssv/protocol/v2/ssv/queue"
	ssvtypes "github.com/bloxapp/ssv/protocol/v2/types"
)

// Queue mode: messages go through Validator.HandleMessage (duty starts through Queues[role].Q.TryPush like
// controller.ExecuteDuty does) and are handled by the REAL consumer goroutines Validator.Start launched
// (ConsumeQueue -> Validator.ProcessMessage -> wrapper -> real runner).
//
// Quiescence without sleeps: every message the driver pushes is one that reaches a runner call when popped, the
// wrapper of that call runs in the consumer goroutine and reports, when the call ends, whether the driver's MODEL of the
// queue still holds a message that the (mirrored) pop filter admits. The driver pushes one message, then waits for
// reports until the model says "nothing admissible". Driver and consumers therefore strictly alternate (channel
// handoff), which also makes the recorded events race-free and the run deterministic. The mirror of the filter only
// schedules the workload; if it is wrong the run is reported as inconclusive (a pop the model did not expect is counted
// in Cluster.QueueMismatch, a predicted pop that never comes trips a generous watchdog: Cluster.QueueStuck).
// QueueWatchdog: a pop the driver predicted (queue mode) that takes longer sets Cluster.QueueSlow, one that has not happened after five times as long sets Cluster.QueueStuck.
var QueueWatchdog = 40 * time.Second

type queueState struct {
	mu        sync.Mutex
	queued    map[spectypes.BeaconRole][]*queue.DecodedSSVMessage
	actions   map[*queue.DecodedSSVMessage]*Action
	saved     *Action
	expecting bool
	done      chan bool
}

func newQueueState() *queueState {
	return &queueState{queued: map[spectypes.BeaconRole][]*queue.DecodedSSVMessage{}, actions: map[*queue.DecodedSSVMessage]*Action{}, done: make(chan bool, 1)}
}

// admissible mirrors the filter of Validator.ConsumeQueue for the runner's current state.
func (op *Operator) admissible(role spectypes.BeaconRole, dec *queue.DecodedSSVMessage) bool {
	r := op.Real[role]
	if r == nil {
		return false
	}
	if !r.HasRunningDuty() {
		e, ok := dec.Body.(*ssvtypes.EventMsg)
		return ok && e.Type == ssvtypes.ExecuteDuty
	}
	b := r.GetBaseRunner()
	if inst := b.State.RunningInstance; inst != nil && inst.State.ProposalAcceptedForCurrentRound == nil {
		sm, ok := dec.Body.(*specqbft.SignedMessage)
		if !ok {
			return true
		}
		var h specqbft.Height
		if b.QBFTController != nil {
			h = b.QBFTController.Height
		}
		if sm.Message.Height != h || sm.Message.Round != inst.State.Round {
			return true
		}
		return sm.Message.MsgType != specqbft.PrepareMsgType && sm.Message.MsgType != specqbft.CommitMsgType
	}
	return true
}

func (q *queueState) anyAdmissible(op *Operator, role spectypes.BeaconRole) bool {
	for _, d := range q.queued[role] {
		if op.admissible(role, d) {
			return true
		}
	}
	return false
}

// enter runs in the consumer goroutine at the start of a runner call.
func (q *queueState) enter(op *Operator, role spectypes.BeaconRole, c *Call, body any) {
	if q == nil {
		return
	}
	q.mu.Lock()
	defer q.mu.Unlock()
	if !q.expecting {
		op.cl.QueueMismatch++
	}
	idx := -1
	for i, d := range q.queued[role] {
		if c.Method == "StartNewDuty" {
			if e, ok := d.Body.(*ssvtypes.EventMsg); ok && e.Type == ssvtypes.ExecuteDuty {
				idx = i
				break
			}
		} else if d.Body == body {
			idx = i
			break
		}
	}
	if idx < 0 {
		op.cl.QueueMismatch++
		return
	}
	d := q.queued[role][idx]
	q.queued[role] = append(q.queued[role][:idx:idx], q.queued[role][idx+1:]...)
	op.mu.Lock()
	q.saved = op.cur
	op.cur = q.actions[d]
	op.mu.Unlock()
	delete(q.actions, d)
}

func (q *queueState) noteErr(op *Operator, err error) {
	if q == nil || err == nil {
		return
	}
	op.mu.Lock()
	if op.cur != nil {
		op.cur.Err = err.Error()
	}
	op.mu.Unlock()
}

// leave runs in the consumer goroutine at the end of a runner call.
func (q *queueState) leave(op *Operator, role spectypes.BeaconRole) {
	if q == nil {
		return
	}
	q.mu.Lock()
	op.mu.Lock()
	if op.cur != nil {
		op.cur.Desc += " [handled by the queue consumer]"
	}
	op.cur = q.saved
	op.mu.Unlock()
	adm := q.anyAdmissible(op, role)
	q.mu.Unlock()
	q.done <- adm
}

// pushQueue pushes one decoded message into the role's queue and waits for quiescence.
func (c *Cluster) pushQueue(op *Operator, a *Action, dec *queue.DecodedSSVMessage) error {
	role := dec.MsgID.GetRoleType()
	q := op.q
	if !op.Share.ValidatorPubKey.MessageIDBelongs(dec.MsgID) {
		return fmt.Errorf("driver: the network layer routes by validator key; a message for another validator never reaches this queue")
	}
	if op.Real[role] == nil || len(dec.GetData()) == 0 {
		return fmt.Errorf("driver: not pushed (no runner for the role / empty data)")
	}
	ev, isEvent := dec.Body.(*ssvtypes.EventMsg)
	if isEvent && ev.Type != ssvtypes.ExecuteDuty {
		return fmt.Errorf("driver: timeout events are not used in queue mode (their handling bypasses the runner)")
	}
	qc, ok := op.Val.Queues[role]
	if !ok {
		return fmt.Errorf("driver: no queue for role")
	}
	q.mu.Lock()
	adm := op.admissible(role, dec)
	q.queued[role] = append(q.queued[role], dec)
	q.actions[dec] = a
	q.expecting = adm
	q.mu.Unlock()
	if isEvent {
		if !qc.Q.TryPush(dec) { // controller.ExecuteDuty
			return fmt.Errorf("driver: queue full")
		}
	} else {
		op.Val.HandleMessage(c.Env.Logger, dec)
	}
	if !adm {
		a.Desc += " [left in the queue: not admitted by the pop filter now]"
	}
	// a predicted pop that takes longer than QueueWatchdog marks the run slow (callers treat that as inconclusive); only one
	// that has not happened after five times that long counts as not happening
	soft, hard := time.After(QueueWatchdog), time.After(5*QueueWatchdog)
	for adm {
		select {
		case adm = <-q.done:
		case <-soft:
			c.QueueSlow = true
			soft = nil
		case <-hard:
			c.QueueStuck = true
			return fmt.Errorf("driver: watchdog: predicted pop did not happen")
		}
	}
	q.mu.Lock()
	q.expecting = false
	q.mu.Unlock()
	if a.Err != "" {
		return fmt.Errorf("%s", a.Err)
	}
	return nil
}

// QueueModelLen is the number of messages the driver pushed into the role's queue that no consumer has handled yet
// (queue mode). Conservation monitors compare it with the real queue's Len() at quiescent points.
func (op *Operator) QueueModelLen(role spectypes.BeaconRole) int {
	if op.q == nil {
		return 0
	}
	op.q.mu.Lock()
	defer op.q.mu.Unlock()
	return len(op.q.queued[role])
}

// QueueRealLen is Len() of the validator's real queue for the role (-1 if there is none).
func (op *Operator) QueueRealLen(role spectypes.BeaconRole) int {
	if op.Val == nil {
		return -1
	}
	qc, ok := op.Val.Queues[role]
	if !ok {
		return -1
	}
	return qc.Q.Len()
}
