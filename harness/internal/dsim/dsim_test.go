package dsim

import (
	"math/rand"
	"testing"

	spectypes "github.com/bloxapp/ssv-spec/types"
)

func TestHappy(t *testing.T) {
	env := NewEnv()
	for _, mode := range []string{"runner", "validator", "queue"} {
		for _, role := range AllRoles {
			for _, n := range []int{4, 7} {
				c := NewCluster(env, rand.New(rand.NewSource(1)), Config{N: n, Mode: mode, Variants: true})
				duty := DutyFor(role, BaseSlot(role, 0, false))
				for _, op := range c.Honest() {
					if err := c.StartDuty(op, duty, "fresh", nil); err != nil {
						t.Fatalf("%s %s start: %v", mode, role, err)
					}
				}
				k := c.DrainAll(100000)
				subs, signs := 0, 0
				for _, op := range c.Honest() {
					for _, s := range op.Submits {
						if s.Submit && s.Method != "SubmitAggregateSelectionProof" {
							subs++
						}
					}
					signs += len(op.Signs)
				}
				t.Logf("%s %-35s N=%d delivered=%d submissions=%d signs=%d mismatch=%d", mode, role, n, k, subs, signs, c.QueueMismatch)
				want := n
				if role == spectypes.BNRoleSyncCommitteeContribution {
					want = 3 * n
				}
				if subs != want {
					for _, a := range c.Acts {
						t.Log(a)
					}
					t.Fatalf("%s %s N=%d: %d submissions, want %d", mode, role, n, subs, want)
				}
				if c.QueueMismatch != 0 || c.QueueStuck {
					t.Fatalf("queue model mismatch")
				}
				c.Close()
			}
		}
	}
}
