package dsim

import (
	"github.com/attestantio/go-eth2-client/spec"
	"github.com/attestantio/go-eth2-client/spec/phase0"
	spectypes "github.com/bloxapp/ssv-spec/types"
	"github.com/bloxapp/ssv-spec/types/testingutils"
)

// ValueFor builds a consensus value (encoded ConsensusData) that is VALID for a role and slot; variant changes the
// duty data (another beacon block root) where the role's data has one. This is what a committee member other than the
// operators under test could have proposed.
func ValueFor(role spectypes.BeaconRole, slot phase0.Slot, variant byte, blinded bool) []byte {
	cd := ConsensusDataFor(role, slot, variant, blinded)
	b, err := cd.Encode()
	if err != nil {
		panic(err)
	}
	return b
}

func ConsensusDataFor(role spectypes.BeaconRole, slot phase0.Slot, variant byte, blinded bool) *spectypes.ConsensusData {
	cd := &spectypes.ConsensusData{Duty: *DutyFor(role, slot)}
	switch role {
	case spectypes.BNRoleAttester:
		d := *testingutils.TestingAttestationData
		d.Slot = slot
		d.Index = cd.Duty.CommitteeIndex
		d.BeaconBlockRoot[31] ^= variant
		cd.Version = spec.DataVersionPhase0
		cd.DataSSZ, _ = d.MarshalSSZ()
	case spectypes.BNRoleProposer:
		v := testingutils.VersionBySlot(slot)
		cd.Version = v
		if blinded {
			cd.DataSSZ = testingutils.TestingBlindedBeaconBlockBytesV(v)
		} else {
			cd.DataSSZ = testingutils.TestingBeaconBlockBytesV(v)
		}
	case spectypes.BNRoleAggregator:
		cd.Version = spec.DataVersionPhase0
		cd.DataSSZ = testingutils.TestingAggregateAndProofBytes
	case spectypes.BNRoleSyncCommittee:
		r := testingutils.TestingSyncCommitteeBlockRoot
		r[31] ^= variant
		cd.Version = spec.DataVersionPhase0
		cd.DataSSZ = r[:]
	case spectypes.BNRoleSyncCommitteeContribution:
		cd.Version = spec.DataVersionBellatrix
		cd.DataSSZ = testingutils.TestingContributionsDataBytes
	default:
		panic("no consensus value for role")
	}
	return cd
}

// InvalidKinds are the ways InvalidValueFor breaks a value (each fails the role's spec value check but still decodes
// far enough for the runner to derive a duty object from it).
var InvalidKinds = []string{"wrong-validator-index", "wrong-validator-pk", "far-future-duty-slot", "attestation-slot-mismatch", "attestation-source-not-before-target"}

// InvalidValueFor builds a decodable value that FAILS the role's value check. ok=false if the kind does not apply.
func InvalidValueFor(role spectypes.BeaconRole, slot phase0.Slot, kind string, blinded bool) ([]byte, bool) {
	cd := ConsensusDataFor(role, slot, 0, blinded)
	switch kind {
	case "wrong-validator-index":
		cd.Duty.ValidatorIndex = 7777
	case "wrong-validator-pk":
		cd.Duty.PubKey = testingutils.TestingWrongValidatorPubKey
	case "far-future-duty-slot":
		cd.Duty.Slot = phase0.Slot(1) << 40
		if role == spectypes.BNRoleAttester {
			d, _ := cd.GetAttestationData()
			d.Slot = cd.Duty.Slot
			cd.DataSSZ, _ = d.MarshalSSZ()
		}
	case "attestation-slot-mismatch":
		if role != spectypes.BNRoleAttester {
			return nil, false
		}
		d, _ := cd.GetAttestationData()
		d.Slot = slot + 3
		cd.DataSSZ, _ = d.MarshalSSZ()
	case "attestation-source-not-before-target":
		if role != spectypes.BNRoleAttester {
			return nil, false
		}
		d, _ := cd.GetAttestationData()
		d.Source.Epoch = d.Target.Epoch + 2
		cd.DataSSZ, _ = d.MarshalSSZ()
	default:
		return nil, false
	}
	b, err := cd.Encode()
	if err != nil {
		return nil, false
	}
	return b, true
}

// OtherValidatorPK is a validator key this cluster does not serve.
func OtherValidatorPK() []byte {
	pk := testingutils.TestingWrongValidatorPubKey
	return pk[:]
}
