package dsim

import (
	"crypto/sha256"
	"fmt"
	"time"

	v1 "github.com/attestantio/go-eth2-client/api/v1"
	"github.com/attestantio/go-eth2-client/spec/altair"
	"github.com/attestantio/go-eth2-client/spec/phase0"
	spectypes "github.com/bloxapp/ssv-spec/types"
	"github.com/bloxapp/ssv-spec/types/testingutils"
	ssz "github.com/ferranbt/fastssz"
	"github.com/herumi/bls-eth-go-binary/bls"
)

// This file is the ORACLE side: what the objects of a duty are, derived from a ConsensusData / a Duty with the
// ssv-spec and go-eth2-client types only (nothing from /repo), the ETH signing root by the oracle's own formula, and
// BLS verification with herumi directly.

// Expected is one object an operator may sign / submit for a duty.
type Expected struct {
	Name        string
	DomainType  phase0.DomainType
	ObjRoot     [32]byte // hash-tree-root
	SigningRoot [32]byte // sha256(ObjRoot || domain)
	Obj         ssz.HashRoot
	Subnet      uint64 // sync-committee selection data only
}

// SigningRoot is the oracle's own compute_signing_root: hash-tree-root of SigningData{object_root, domain} = the hash
// of the two 32-byte chunks.
func SigningRoot(objRoot [32]byte, domain phase0.Domain) [32]byte {
	var buf [64]byte
	copy(buf[:32], objRoot[:])
	copy(buf[32:], domain[:])
	return sha256.Sum256(buf[:])
}

// DomainOf asks the (fake) beacon node for the domain of a domain type.
func DomainOf(dt phase0.DomainType) phase0.Domain {
	d, err := testingutils.NewTestingBeaconNode().DomainData(0, dt)
	if err != nil {
		panic(err)
	}
	return d
}

func EpochOf(slot phase0.Slot) phase0.Epoch { return phase0.Epoch(uint64(slot) / 32) }

func mk(name string, dt phase0.DomainType, obj ssz.HashRoot) (Expected, error) {
	r, err := obj.HashTreeRoot()
	if err != nil {
		return Expected{}, err
	}
	return Expected{Name: name, DomainType: dt, ObjRoot: r, SigningRoot: SigningRoot(r, DomainOf(dt)), Obj: obj}, nil
}

// PostExpected derives the duty objects contained in a decided value for a role.
func PostExpected(role spectypes.BeaconRole, cd *spectypes.ConsensusData) ([]Expected, error) {
	var out []Expected
	add := func(name string, dt phase0.DomainType, obj ssz.HashRoot) error {
		e, err := mk(name, dt, obj)
		if err == nil {
			out = append(out, e)
		}
		return err
	}
	switch role {
	case spectypes.BNRoleAttester:
		d, err := cd.GetAttestationData()
		if err != nil {
			return nil, err
		}
		if err := add("attestation-data", spectypes.DomainAttester, d); err != nil {
			return nil, err
		}
		return out, nil
	case spectypes.BNRoleProposer:
		n := 0
		if _, b, err := cd.GetBlindedBlockData(); err == nil {
			if add(fmt.Sprintf("blinded-block-%s", cd.Version), spectypes.DomainProposer, b) == nil {
				n++
			}
		}
		if _, b, err := cd.GetBlockData(); err == nil {
			if add(fmt.Sprintf("block-%s", cd.Version), spectypes.DomainProposer, b) == nil {
				n++
			}
		}
		if n == 0 {
			return nil, fmt.Errorf("no block in the value")
		}
		return out, nil
	case spectypes.BNRoleAggregator:
		a, err := cd.GetAggregateAndProof()
		if err != nil {
			return nil, err
		}
		if err := add("aggregate-and-proof", spectypes.DomainAggregateAndProof, a); err != nil {
			return nil, err
		}
		return out, nil
	case spectypes.BNRoleSyncCommittee:
		r, err := cd.GetSyncCommitteeBlockRoot()
		if err != nil {
			return nil, err
		}
		if err := add("sync-block-root", spectypes.DomainSyncCommittee, spectypes.SSZBytes(r[:])); err != nil {
			return nil, err
		}
		return out, nil
	case spectypes.BNRoleSyncCommitteeContribution:
		cs, err := cd.GetSyncCommitteeContributions()
		if err != nil {
			return nil, err
		}
		for i, c := range cs {
			contrib := c.Contribution
			obj := &altair.ContributionAndProof{AggregatorIndex: cd.Duty.ValidatorIndex, Contribution: &contrib, SelectionProof: c.SelectionProofSig}
			if err := add(fmt.Sprintf("contribution-and-proof-%d", i), spectypes.DomainContributionAndProof, obj); err != nil {
				return nil, err
			}
		}
		return out, nil
	}
	return nil, fmt.Errorf("role %s has no consensus objects", role)
}

// PreExpected derives the pre-consensus objects of a duty (for registration / exit: the duty object itself).
func PreExpected(duty *spectypes.Duty, share *spectypes.Share) ([]Expected, spectypes.PartialSigMsgType, error) {
	var out []Expected
	switch duty.Type {
	case spectypes.BNRoleProposer:
		e, err := mk("randao-epoch", spectypes.DomainRandao, spectypes.SSZUint64(EpochOf(duty.Slot)))
		return append(out, e), spectypes.RandaoPartialSig, err
	case spectypes.BNRoleAggregator:
		e, err := mk("selection-slot", spectypes.DomainSelectionProof, spectypes.SSZUint64(duty.Slot))
		return append(out, e), spectypes.SelectionProofPartialSig, err
	case spectypes.BNRoleSyncCommitteeContribution:
		for _, idx := range duty.ValidatorSyncCommitteeIndices {
			e, err := mk(fmt.Sprintf("sync-selection-subnet-%d", idx), spectypes.DomainSyncCommitteeSelectionProof,
				&altair.SyncAggregatorSelectionData{Slot: duty.Slot, SubcommitteeIndex: idx}) // the fake node's subnet id = the index
			if err != nil {
				return nil, 0, err
			}
			e.Subnet = idx
			out = append(out, e)
		}
		return out, spectypes.ContributionProofs, nil
	case spectypes.BNRoleValidatorRegistration:
		var pk phase0.BLSPubKey
		copy(pk[:], share.ValidatorPubKey)
		first := uint64(EpochOf(duty.Slot)) * 32
		ts := time.Unix(int64(BeaconNet.MinGenesisTime()+first*12), 0)
		e, err := mk("validator-registration", spectypes.DomainApplicationBuilder, &v1.ValidatorRegistration{
			FeeRecipient: share.FeeRecipientAddress, GasLimit: spectypes.DefaultGasLimit, Timestamp: ts, Pubkey: pk})
		return append(out, e), spectypes.ValidatorRegistrationPartialSig, err
	case spectypes.BNRoleVoluntaryExit:
		e, err := mk("voluntary-exit", spectypes.DomainVoluntaryExit, &phase0.VoluntaryExit{Epoch: EpochOf(duty.Slot), ValidatorIndex: duty.ValidatorIndex})
		return append(out, e), spectypes.VoluntaryExitPartialSig, err
	}
	return nil, 0, nil // attester, sync committee: no pre-consensus phase
}

// VerifySig verifies a BLS signature over 32 bytes under a serialized public key (herumi directly).
func VerifySig(pk []byte, root [32]byte, sig []byte) bool {
	// cgo: hand herumi plain byte slices (a slice of an array inside a pointer-carrying struct trips the cgo pointer check)
	pk, sig = append([]byte{}, pk...), append([]byte{}, sig...)
	msg := append([]byte{}, root[:]...)
	var p bls.PublicKey
	if err := p.Deserialize(pk); err != nil {
		return false
	}
	var s bls.Sign
	if err := s.Deserialize(sig); err != nil {
		return false
	}
	return s.VerifyByte(&p, msg)
}

func IsPostDomain(dt phase0.DomainType) bool {
	switch dt {
	case spectypes.DomainAttester, spectypes.DomainProposer, spectypes.DomainAggregateAndProof, spectypes.DomainSyncCommittee, spectypes.DomainContributionAndProof:
		return true
	}
	return false
}

func IsPreDomain(dt phase0.DomainType) bool {
	switch dt {
	case spectypes.DomainRandao, spectypes.DomainSelectionProof, spectypes.DomainSyncCommitteeSelectionProof, spectypes.DomainApplicationBuilder, spectypes.DomainVoluntaryExit:
		return true
	}
	return false
}

func DomainName(dt phase0.DomainType) string {
	switch dt {
	case spectypes.DomainProposer:
		return "proposer"
	case spectypes.DomainAttester:
		return "attester"
	case spectypes.DomainRandao:
		return "randao"
	case spectypes.DomainDeposit:
		return "deposit"
	case spectypes.DomainVoluntaryExit:
		return "voluntary-exit"
	case spectypes.DomainSelectionProof:
		return "selection-proof"
	case spectypes.DomainAggregateAndProof:
		return "aggregate-and-proof"
	case spectypes.DomainSyncCommittee:
		return "sync-committee"
	case spectypes.DomainSyncCommitteeSelectionProof:
		return "sync-selection-proof"
	case spectypes.DomainContributionAndProof:
		return "contribution-and-proof"
	case spectypes.DomainApplicationBuilder:
		return "application-builder"
	}
	return fmt.Sprintf("%x", dt[:])
}

// PostDomainOf is the duty-object domain of a consensus role.
func PostDomainOf(role spectypes.BeaconRole) phase0.DomainType {
	switch role {
	case spectypes.BNRoleAttester:
		return spectypes.DomainAttester
	case spectypes.BNRoleProposer:
		return spectypes.DomainProposer
	case spectypes.BNRoleAggregator:
		return spectypes.DomainAggregateAndProof
	case spectypes.BNRoleSyncCommittee:
		return spectypes.DomainSyncCommittee
	case spectypes.BNRoleSyncCommitteeContribution:
		return spectypes.DomainContributionAndProof
	}
	return spectypes.DomainError
}
