// Package dsim is simulator B of DESIGN.md: a duty cluster. Every honest operator is a full set of REAL duty
// runners (runner.New*Runner, wired like operator/validator.SetupRunners) over
//   - a recording KeyManager decorator (every SignBeaconObject / SignRoot, with the driver action and the runner
//     call in progress and a snapshot of the runner's state at that moment),
//   - a recording BeaconNode decorator (arguments of every Submit* call and of the calls that hand a reconstructed
//     pre-consensus proof to the beacon node),
//   - a capturing Network (every Broadcast, with the virtual time of emission; feeds the in-flight pool),
//   - a capturing Timer (virtual time: a timeout fires only when the scheduler says so),
//   - a real qbft controller with real ibft storage on in-memory badger, signature verification on, round-robin proposer;
//
// optionally fronted by the real validator.Validator (messages through Validator.ProcessMessage, or through
// HandleMessage + the real queue consumer goroutines, see queue.go). Adversary-controlled operators have no runners: the
// harness owns their real share keys and crafts their traffic (msgs.go). Single-threaded and deterministic given the rng
// (in queue mode the consumer goroutines and the driver strictly alternate).
package dsim

import (
	"context"
	"encoding/json"
	"errors"
	"fmt"
	"math/rand"
	"sort"
	"sync"
	"time"

	"github.com/attestantio/go-eth2-client/spec/phase0"
	specqbft "github.com/bloxapp/ssv-spec/qbft"
	specssv "github.com/bloxapp/ssv-spec/ssv"
	spectypes "github.com/bloxapp/ssv-spec/types"
	"github.com/bloxapp/ssv-spec/types/testingutils"
	ssz "github.com/ferranbt/fastssz"
	"go.uber.org/zap"

	ibftstorage "github.com/bloxapp/ssv/ibft/storage"
	"github.com/bloxapp/ssv/protocol/v2/message"
	"github.com/bloxapp/ssv/protocol/v2/qbft"
	"github.com/bloxapp/ssv/protocol/v2/qbft/controller"
	"github.com/bloxapp/ssv/protocol/v2/qbft/roundtimer"
	"github.com/bloxapp/ssv/protocol/v2/ssv/queue"
	"github.com/bloxapp/ssv/protocol/v2/ssv/runner"
	"github.com/bloxapp/ssv/protocol/v2/ssv/validator"
	ssvtypes "github.com/bloxapp/ssv/protocol/v2/types"
	"github.com/bloxapp/ssv/storage/basedb"
	"github.com/bloxapp/ssv/storage/kv"

	"verifharness/internal/qsim"
)

var Domain = qsim.Domain

// BeaconNet is the beacon network of every runner (the spec value checks compare epochs with its REAL clock: genesis is
// in March 2021, so every fixture slot lies years in the past and "far future" slots are 2^40).
const BeaconNet = spectypes.BeaconTestNetwork

const ValidatorIndex = phase0.ValidatorIndex(testingutils.TestingValidatorIndex)

var (
	ConsensusRoles = []spectypes.BeaconRole{spectypes.BNRoleAttester, spectypes.BNRoleProposer, spectypes.BNRoleAggregator,
		spectypes.BNRoleSyncCommittee, spectypes.BNRoleSyncCommitteeContribution}
	AllRoles = append(append([]spectypes.BeaconRole{}, ConsensusRoles...), spectypes.BNRoleValidatorRegistration, spectypes.BNRoleVoluntaryExit)
)

// Env is per child process (opening badger is slow: one in-memory DB, a fresh key prefix per node).
type Env struct {
	DB     basedb.Database
	Logger *zap.Logger
	seq    int
	sigs   map[sigKey][]byte
}

func NewEnv() *Env {
	lg := zap.NewNop()
	db, err := kv.NewInMemory(lg, basedb.Options{Ctx: context.Background()})
	if err != nil {
		panic(err)
	}
	// Validator.Start derives its queue identifiers from the global default domain.
	ssvtypes.SetDefaultDomain(Domain)
	return &Env{DB: db, Logger: lg, sigs: map[sigKey][]byte{}}
}

// ---- recorded events ---------------------------------------------------------------------------------------

// Action is one driver action: a StartDuty(duty) or the delivery of one message / event to one operator.
type Action struct {
	Seq     int
	Tick    int64
	Via     string // runner | validator | queue
	Kind    string // start-duty | pre | consensus | post | timeout | event | other
	Role    spectypes.BeaconRole
	Slot    uint64 // duty slot / message slot / message height
	Tag     string // workload label: valid, stale, future, wrong-role, replayed, other-validator, ...
	Desc    string
	Foreign bool // addressed to another validator's identifier
	Err     string
	Calls   []string              // runner-level calls made inside
	Msg     *spectypes.SSVMessage `json:"-"` // the delivered message (nil for a direct StartDuty)
}

func (a *Action) String() string {
	if a == nil {
		return "<outside any driver action>"
	}
	return fmt.Sprintf("#%d %s/%s role=%s slot=%d tag=%s %s err=%q", a.Seq, a.Via, a.Kind, a.Role, a.Slot, a.Tag, a.Desc, a.Err)
}

// Call is the runner-level call in progress (recorded by the wrapper every runner is driven through).
type Call struct {
	Method string // StartNewDuty | ProcessPreConsensus | ProcessConsensus | ProcessPostConsensus
	Role   spectypes.BeaconRole
	Duty   *spectypes.Duty // StartNewDuty only
}

// Snap is the state of a runner at the moment of an event.
type Snap struct {
	HasState      bool
	Finished      bool
	StartSlot     phase0.Slot
	HasInstance   bool
	InstHeight    specqbft.Height
	InstDecided   bool
	InstValue     []byte // decided bytes of the running instance
	HasDecidedVal bool   // State.DecidedValue != nil
	DecidedVal    []byte // encoding of State.DecidedValue
	CtrlHeight    specqbft.Height
}

func TakeSnap(r runner.Runner) Snap {
	var s Snap
	b := r.GetBaseRunner()
	if b.QBFTController != nil {
		s.CtrlHeight = b.QBFTController.Height
	}
	st := b.State
	if st == nil {
		return s
	}
	s.HasState = true
	s.Finished = st.Finished
	if st.StartingDuty != nil {
		s.StartSlot = st.StartingDuty.Slot
	}
	if st.RunningInstance != nil && st.RunningInstance.State != nil {
		s.HasInstance = true
		s.InstHeight = st.RunningInstance.GetHeight()
		d, v := st.RunningInstance.IsDecided()
		s.InstDecided = d
		s.InstValue = append([]byte{}, v...)
	}
	if st.DecidedValue != nil {
		s.HasDecidedVal = true
		s.DecidedVal, _ = st.DecidedValue.Encode()
	}
	return s
}

type SignEvent struct {
	Idx         int
	Tick        int64
	Op          spectypes.OperatorID
	Role        spectypes.BeaconRole // the runner whose signer was called
	DomainType  phase0.DomainType
	Domain      phase0.Domain
	ObjRoot     [32]byte // hash-tree-root of the object
	SigningRoot [32]byte // what the inner key manager says it signed
	PK          []byte
	Sig         []byte
	Action      *Action
	Call        *Call
	Snap        Snap
	Err         string
}

type RootSignEvent struct {
	Idx     int
	Tick    int64
	Op      spectypes.OperatorID
	Role    spectypes.BeaconRole
	SigType spectypes.SignatureType
	PK      []byte
	Action  *Action
}

// SubmitEvent is one call that hands something signed to the beacon node.
type SubmitEvent struct {
	Idx    int
	Tick   int64
	Op     spectypes.OperatorID
	Role   spectypes.BeaconRole
	Method string // name of the BeaconNode method
	Submit bool   // a Submit* method (false: GetBeaconBlock / GetBlindedBeaconBlock / GetSyncCommitteeContribution carrying reconstructed proofs)
	Obj    any    // the object argument
	Sigs   []phase0.BLSSignature
	Slot   phase0.Slot
	Subnet []uint64
	Index  phase0.ValidatorIndex
	Action *Action
	Snap   Snap
	Duty   *spectypes.Duty // the runner's starting duty at that moment
}

type BroadcastEvent struct {
	Idx    int
	Tick   int64 // virtual time of emission
	Op     spectypes.OperatorID
	Kind   string // consensus | decided | pre | post | other
	Role   spectypes.BeaconRole
	Msg    *spectypes.SSVMessage
	Action *Action
}

// ---- operator ----------------------------------------------------------------------------------------------

type Operator struct {
	ID      spectypes.OperatorID
	Share   *spectypes.Share
	Byz     bool // adversary-controlled: no runners
	cl      *Cluster
	Real    map[spectypes.BeaconRole]runner.Runner
	Runners runner.DutyRunners // the wrappers (what the driver and the validator call)
	Ctrls   map[spectypes.BeaconRole]*controller.Controller
	Timers  map[spectypes.BeaconRole]*CapTimer
	BNs     map[spectypes.BeaconRole]*RecBN
	Net     *CapNet
	Val     *validator.Validator
	cancel  context.CancelFunc

	mu         sync.Mutex
	Signs      []*SignEvent
	RootSigns  []*RootSignEvent
	Submits    []*SubmitEvent
	Broadcasts []*BroadcastEvent
	Actions    []*Action
	Subscribed int
	cur        *Action
	call       *Call
	outbox     []*BroadcastEvent
	q          *queueState
	// fault injection: the next FailPublish broadcasts of this operator fail (the message does not leave the node and
	// Network.Broadcast returns an error, as a pubsub publish can)
	FailPublish      int
	PublishesFailed  int
	FailPublishTypes map[string]bool // nil = any kind (Classify), else only these kinds
}

// CapTimer captures the armed (height, round): virtual time.
type CapTimer struct {
	ArmedH specqbft.Height
	ArmedR specqbft.Round
	Arms   int
}

func (t *CapTimer) TimeoutForRound(h specqbft.Height, r specqbft.Round) {
	t.ArmedH, t.ArmedR = h, r
	t.Arms++
}

var _ roundtimer.Timer = (*CapTimer)(nil)

// CapNet captures broadcasts. It also implements p2p.Subscriber (Validator.Start needs it).
type CapNet struct{ op *Operator }

func (n *CapNet) Broadcast(m *spectypes.SSVMessage) error {
	op := n.op
	cp := &spectypes.SSVMessage{MsgType: m.MsgType, MsgID: m.MsgID, Data: append([]byte{}, m.Data...)}
	ev := &BroadcastEvent{Op: op.ID, Kind: Classify(op.Share, cp), Role: cp.MsgID.GetRoleType(), Msg: cp, Tick: op.cl.tick()}
	op.mu.Lock()
	if op.FailPublish > 0 && (op.FailPublishTypes == nil || op.FailPublishTypes[ev.Kind]) {
		op.FailPublish--
		op.PublishesFailed++
		op.mu.Unlock()
		return errors.New("verif: injected publish failure")
	}
	ev.Idx = len(op.Broadcasts)
	ev.Action = op.cur
	op.Broadcasts = append(op.Broadcasts, ev)
	op.outbox = append(op.outbox, ev)
	op.mu.Unlock()
	return nil
}

func (n *CapNet) Subscribe(vpk spectypes.ValidatorPK) error {
	n.op.mu.Lock()
	n.op.Subscribed++
	n.op.mu.Unlock()
	return nil
}

// Classify names the kind of an SSV message.
func Classify(share *spectypes.Share, m *spectypes.SSVMessage) string {
	switch m.MsgType {
	case spectypes.SSVConsensusMsgType:
		sm := &specqbft.SignedMessage{}
		if sm.Decode(m.Data) == nil && sm.Message.MsgType == specqbft.CommitMsgType && uint64(len(sm.Signers)) >= share.Quorum {
			return "decided"
		}
		return "consensus"
	case spectypes.SSVPartialSignatureMsgType:
		ps := &spectypes.SignedPartialSignatureMessage{}
		if ps.Decode(m.Data) == nil && ps.Message.Type == spectypes.PostConsensusPartialSig {
			return "post"
		}
		return "pre"
	case message.SSVEventMsgType:
		return "event"
	}
	return "other"
}

// RecKM decorates the key manager of one runner.
type RecKM struct {
	spectypes.KeyManager
	op   *Operator
	role spectypes.BeaconRole
}

func (k *RecKM) SignBeaconObject(obj ssz.HashRoot, domain phase0.Domain, pk []byte, dt phase0.DomainType) (spectypes.Signature, [32]byte, error) {
	op := k.op
	ev := &SignEvent{Op: op.ID, Role: k.role, DomainType: dt, Domain: domain, PK: append([]byte{}, pk...), Tick: op.cl.tick()}
	ev.ObjRoot, _ = obj.HashTreeRoot()
	if r := op.Real[k.role]; r != nil {
		ev.Snap = TakeSnap(r)
	}
	op.mu.Lock()
	ev.Idx = len(op.Signs)
	ev.Action = op.cur
	if op.call != nil {
		c := *op.call
		ev.Call = &c
	}
	op.Signs = append(op.Signs, ev)
	op.mu.Unlock()
	if op.cur != nil {
		op.cur.Calls = append(op.cur.Calls, fmt.Sprintf("SignBeaconObject(%x)", dt))
	}
	sig, root, err := k.KeyManager.SignBeaconObject(obj, domain, pk, dt)
	ev.Sig, ev.SigningRoot = sig, root
	if err != nil {
		ev.Err = err.Error()
	}
	if op.cl.OnSign != nil {
		op.cl.OnSign(op, ev)
	}
	return sig, root, err
}

func (k *RecKM) SignRoot(data spectypes.Root, sigType spectypes.SignatureType, pk []byte) (spectypes.Signature, error) {
	op := k.op
	ev := &RootSignEvent{Op: op.ID, Role: k.role, SigType: sigType, PK: append([]byte{}, pk...), Tick: op.cl.tick()}
	op.mu.Lock()
	ev.Idx = len(op.RootSigns)
	ev.Action = op.cur
	op.RootSigns = append(op.RootSigns, ev)
	op.mu.Unlock()
	return k.KeyManager.SignRoot(data, sigType, pk)
}

// wrapRunner records the runner-level call in progress. It embeds the real runner, so the unexported methods of the
// interface (executeDuty, expected roots) are the real ones; the real base functions always receive the real runner.
type wrapRunner struct {
	runner.Runner
	op   *Operator
	role spectypes.BeaconRole
}

func (w *wrapRunner) enter(c *Call, body any) func() {
	op := w.op
	op.cl.tick()
	if op.q != nil {
		op.q.enter(op, w.role, c, body)
	}
	op.mu.Lock()
	op.call = c
	if op.cur != nil {
		op.cur.Calls = append(op.cur.Calls, c.Method)
	}
	op.mu.Unlock()
	return func() {
		op.mu.Lock()
		op.call = nil
		op.mu.Unlock()
		if op.q != nil {
			op.q.leave(op, w.role)
		}
	}
}

func (w *wrapRunner) StartNewDuty(l *zap.Logger, d *spectypes.Duty) error {
	defer w.enter(&Call{Method: "StartNewDuty", Role: w.role, Duty: d}, d)()
	err := w.Runner.StartNewDuty(l, d)
	w.op.q.noteErr(w.op, err)
	return err
}
func (w *wrapRunner) ProcessPreConsensus(l *zap.Logger, m *spectypes.SignedPartialSignatureMessage) error {
	defer w.enter(&Call{Method: "ProcessPreConsensus", Role: w.role}, m)()
	err := w.Runner.ProcessPreConsensus(l, m)
	w.op.q.noteErr(w.op, err)
	return err
}
func (w *wrapRunner) ProcessConsensus(l *zap.Logger, m *specqbft.SignedMessage) error {
	defer w.enter(&Call{Method: "ProcessConsensus", Role: w.role}, m)()
	err := w.Runner.ProcessConsensus(l, m)
	w.op.q.noteErr(w.op, err)
	return err
}
func (w *wrapRunner) ProcessPostConsensus(l *zap.Logger, m *spectypes.SignedPartialSignatureMessage) error {
	defer w.enter(&Call{Method: "ProcessPostConsensus", Role: w.role}, m)()
	err := w.Runner.ProcessPostConsensus(l, m)
	w.op.q.noteErr(w.op, err)
	return err
}

// ---- cluster -----------------------------------------------------------------------------------------------

type Config struct {
	N          int
	Byz        []int  // indices (0..N-1) of adversary-controlled operators
	Mode       string // "runner" (Runner.Process* directly), "validator" (Validator.ProcessMessage), "queue" (HandleMessage + real consumers)
	Blinded    bool   // proposer runners produce blinded blocks
	Variants   bool   // each operator's beacon node returns slightly different duty data (different proposals)
	NoSelfLoop bool
	Only       []int // build only these operators (indices); nil = all non-Byzantine
	QueueSize  int
}

type Flight struct {
	Msg  *spectypes.SSVMessage
	To   spectypes.OperatorID
	From spectypes.OperatorID
	Tag  string
}

type Cluster struct {
	Env                                      *Env
	Rng                                      *rand.Rand
	Cfg                                      Config
	KS                                       *testingutils.TestKeySet
	F                                        int
	Ops                                      []*Operator // index = id-1 (entries of adversary-controlled / unbuilt operators have no runners)
	Pool                                     []*Flight
	Acts                                     []string
	OnSign                                   func(op *Operator, ev *SignEvent)
	tickMu                                   sync.Mutex
	ticks                                    int64
	seq                                      int
	tag                                      string
	QueueMismatch                            int // queue mode: pops the driver's model of the queue filter did not predict
	QueueStuck                               bool
	QueueSlow                                bool // a predicted pop needed longer than QueueWatchdog (but happened, unless QueueStuck)
	Delivered, Dropped, Duplicated, Timeouts int
}

func (c *Cluster) tick() int64 {
	c.tickMu.Lock()
	c.ticks++
	t := c.ticks
	c.tickMu.Unlock()
	return t
}

// Now is the current virtual time (one tick per driver action, runner call, signature and broadcast).
func (c *Cluster) Now() int64 {
	c.tickMu.Lock()
	defer c.tickMu.Unlock()
	return c.ticks
}

func (c *Cluster) Act(format string, a ...any) {
	if len(c.Acts) < 3000 {
		c.Acts = append(c.Acts, fmt.Sprintf(format, a...))
	}
}

func ValueCheck(role spectypes.BeaconRole, km spectypes.BeaconSigner, validatorPK, sharePK []byte) specqbft.ProposedValueCheckF {
	switch role {
	case spectypes.BNRoleAttester:
		return specssv.AttesterValueCheckF(km, BeaconNet, validatorPK, ValidatorIndex, sharePK)
	case spectypes.BNRoleProposer:
		return specssv.ProposerValueCheckF(km, BeaconNet, validatorPK, ValidatorIndex, sharePK)
	case spectypes.BNRoleAggregator:
		return specssv.AggregatorValueCheckF(km, BeaconNet, validatorPK, ValidatorIndex)
	case spectypes.BNRoleSyncCommittee:
		return specssv.SyncCommitteeValueCheckF(km, BeaconNet, validatorPK, ValidatorIndex)
	case spectypes.BNRoleSyncCommitteeContribution:
		return specssv.SyncCommitteeContributionValueCheckF(km, BeaconNet, validatorPK, ValidatorIndex)
	}
	return nil
}

func ShareFor(ks *testingutils.TestKeySet, id spectypes.OperatorID) *spectypes.Share {
	s := qsim.ShareFor(ks, id)
	s.FeeRecipientAddress = testingutils.TestingFeeRecipient
	return s
}

func NewCluster(env *Env, rng *rand.Rand, cfg Config) *Cluster {
	env.seq++
	if cfg.Mode == "" {
		cfg.Mode = "runner"
	}
	ks := qsim.KeySet(cfg.N)
	c := &Cluster{Env: env, Rng: rng, Cfg: cfg, KS: ks, F: (cfg.N - 1) / 3, tag: fmt.Sprintf("d%d", env.seq)}
	byz := map[int]bool{}
	for _, i := range cfg.Byz {
		byz[i] = true
	}
	only := map[int]bool{}
	for _, i := range cfg.Only {
		only[i] = true
	}
	for i := 0; i < cfg.N; i++ {
		id := spectypes.OperatorID(i + 1)
		op := &Operator{ID: id, Share: ShareFor(ks, id), cl: c, Byz: byz[i]}
		c.Ops = append(c.Ops, op)
		if op.Byz || (cfg.Only != nil && !only[i]) {
			continue
		}
		c.build(op, i)
	}
	return c
}

func (c *Cluster) build(op *Operator, idx int) {
	env, cfg, ks := c.Env, c.Cfg, c.KS
	op.Net = &CapNet{op}
	op.Real = map[spectypes.BeaconRole]runner.Runner{}
	op.Runners = runner.DutyRunners{}
	op.Ctrls = map[spectypes.BeaconRole]*controller.Controller{}
	op.Timers = map[spectypes.BeaconRole]*CapTimer{}
	op.BNs = map[spectypes.BeaconRole]*RecBN{}
	stores := ibftstorage.NewStores()
	vpk := ks.ValidatorPK.Serialize()
	for _, role := range AllRoles {
		km := &RecKM{KeyManager: testingutils.NewTestingKeyManager(), op: op, role: role}
		bn := &RecBN{TestingBeaconNode: testingutils.NewTestingBeaconNode(), op: op, role: role}
		if cfg.Variants {
			bn.Variant = byte(idx + 1)
		}
		op.BNs[role] = bn
		tm := &CapTimer{}
		op.Timers[role] = tm
		valCheck := ValueCheck(role, km, vpk, op.Share.SharePubKey)
		var ctrl *controller.Controller
		if role != spectypes.BNRoleVoluntaryExit {
			store := ibftstorage.New(env.DB, fmt.Sprintf("%s-o%d-r%d", c.tag, idx, role))
			stores.Add(role, store)
			qcfg := &qbft.Config{
				Signer:                km,
				SigningPK:             vpk, // as SetupRunners does
				Domain:                Domain,
				ValueCheckF:           valCheck,
				ProposerF:             specqbft.RoundRobinProposer,
				Storage:               store,
				Network:               op.Net,
				Timer:                 tm,
				SignatureVerification: true,
			}
			id := spectypes.NewMsgID(Domain, vpk, role)
			ctrl = controller.NewController(id[:], op.Share, qcfg, false)
			op.Ctrls[role] = ctrl
		}
		var r runner.Runner
		switch role {
		case spectypes.BNRoleAttester:
			r = runner.NewAttesterRunnner(BeaconNet, op.Share, ctrl, bn, op.Net, km, valCheck, 0)
		case spectypes.BNRoleProposer:
			r = runner.NewProposerRunner(BeaconNet, op.Share, ctrl, bn, op.Net, km, valCheck, 0)
			r.(*runner.ProposerRunner).ProducesBlindedBlocks = cfg.Blinded
		case spectypes.BNRoleAggregator:
			r = runner.NewAggregatorRunner(BeaconNet, op.Share, ctrl, bn, op.Net, km, valCheck, 0)
		case spectypes.BNRoleSyncCommittee:
			r = runner.NewSyncCommitteeRunner(BeaconNet, op.Share, ctrl, bn, op.Net, km, valCheck, 0)
		case spectypes.BNRoleSyncCommitteeContribution:
			r = runner.NewSyncCommitteeAggregatorRunner(BeaconNet, op.Share, ctrl, bn, op.Net, km, valCheck, 0)
		case spectypes.BNRoleValidatorRegistration:
			r = runner.NewValidatorRegistrationRunner(BeaconNet, op.Share, ctrl, bn, op.Net, km)
		case spectypes.BNRoleVoluntaryExit:
			r = runner.NewVoluntaryExitRunner(BeaconNet, op.Share, bn, op.Net, km)
		}
		// what the validator does via registerTimeoutHandler: must be set before decide() (only used with the real RoundTimer)
		r.GetBaseRunner().TimeoutF = func(*zap.Logger, spectypes.MessageID, specqbft.Height) roundtimer.OnRoundTimeoutF {
			return func(specqbft.Round) {}
		}
		op.Real[role] = r
		op.Runners[role] = &wrapRunner{Runner: r, op: op, role: role}
	}
	if cfg.Mode == "validator" || cfg.Mode == "queue" {
		ctx, cancel := context.WithCancel(context.Background())
		op.cancel = cancel
		qs := cfg.QueueSize
		if qs == 0 {
			qs = 256
		}
		op.Val = validator.NewValidator(ctx, cancel, validator.Options{
			Network:     op.Net,
			Storage:     stores,
			SSVShare:    &ssvtypes.SSVShare{Share: *op.Share},
			Signer:      testingutils.NewTestingKeyManager(),
			DutyRunners: op.Runners,
			QueueSize:   qs,
		})
		if cfg.Mode == "queue" {
			op.q = newQueueState()
			if _, err := op.Val.Start(env.Logger); err != nil {
				panic(err)
			}
		}
	}
}

// Close stops the validators' consumer goroutines.
func (c *Cluster) Close() {
	for _, op := range c.Ops {
		if op.Val != nil {
			op.Val.Stop()
		}
		if op.cancel != nil {
			op.cancel()
		}
	}
}

func (c *Cluster) Honest() []*Operator {
	var r []*Operator
	for _, o := range c.Ops {
		if o.Real != nil {
			r = append(r, o)
		}
	}
	return r
}

func (c *Cluster) ByzIDs() []spectypes.OperatorID {
	var r []spectypes.OperatorID
	for _, o := range c.Ops {
		if o.Byz {
			r = append(r, o.ID)
		}
	}
	return r
}

func (c *Cluster) begin(op *Operator, a *Action) *Action {
	c.seq++
	a.Seq = c.seq
	a.Tick = c.tick()
	a.Via = c.Cfg.Mode
	op.mu.Lock()
	op.Actions = append(op.Actions, a)
	op.cur = a
	op.mu.Unlock()
	return a
}

func (c *Cluster) end(op *Operator, a *Action, err error) {
	if err != nil {
		a.Err = err.Error()
	}
	op.mu.Lock()
	op.cur = nil
	op.mu.Unlock()
	c.Flush(op)
}

// Flush moves an operator's fresh broadcasts into the pool: to every built operator (incl. itself unless NoSelfLoop).
func (c *Cluster) Flush(op *Operator) {
	op.mu.Lock()
	out := op.outbox
	op.outbox = nil
	op.mu.Unlock()
	for _, ev := range out {
		for _, d := range c.Ops {
			if d.Real == nil || (d == op && c.Cfg.NoSelfLoop) {
				continue
			}
			c.Pool = append(c.Pool, &Flight{Msg: ev.Msg, To: d.ID, From: op.ID})
		}
	}
}

// StartDuty hands a duty to an operator: Runner.StartNewDuty in runner mode, an ExecuteDuty event through
// Validator.ProcessMessage in validator mode, the same event through the role's queue in queue mode. msgID overrides
// the event's message id (nil = the validator's own id for the duty's role).
func (c *Cluster) StartDuty(op *Operator, duty *spectypes.Duty, tag string, msgID *spectypes.MessageID) error {
	a := c.begin(op, &Action{Kind: "start-duty", Role: duty.Type, Slot: uint64(duty.Slot), Tag: tag, Desc: fmt.Sprintf("StartDuty(%s, slot %d)", duty.Type, duty.Slot)})
	var err error
	switch c.Cfg.Mode {
	case "runner":
		r := op.Runners[duty.Type]
		if r == nil {
			err = fmt.Errorf("no runner")
		} else {
			d := *duty
			err = r.StartNewDuty(c.Env.Logger, &d)
		}
	default:
		id := spectypes.NewMsgID(Domain, op.Share.ValidatorPubKey, duty.Type)
		if msgID != nil {
			id = *msgID
			a.Foreign = !op.Share.ValidatorPubKey.MessageIDBelongs(id)
			a.Role = id.GetRoleType()
		}
		var m *spectypes.SSVMessage
		m, err = ExecuteDutyMsg(duty, id)
		if err == nil {
			err = c.process(op, a, m)
		}
	}
	c.end(op, a, err)
	c.Act("%s o%d %s tag=%s err=%v", c.Cfg.Mode, op.ID, a.Desc, tag, a.Err)
	return err
}

func ExecuteDutyMsg(duty *spectypes.Duty, id spectypes.MessageID) (*spectypes.SSVMessage, error) {
	edd, err := json.Marshal(ssvtypes.ExecuteDutyData{Duty: duty})
	if err != nil {
		return nil, err
	}
	ev := ssvtypes.EventMsg{Type: ssvtypes.ExecuteDuty, Data: edd}
	data, err := ev.Encode()
	if err != nil {
		return nil, err
	}
	return &spectypes.SSVMessage{MsgType: message.SSVEventMsgType, MsgID: id, Data: data}, nil
}

func TimeoutMsg(id spectypes.MessageID, h specqbft.Height, r specqbft.Round) *spectypes.SSVMessage {
	td, _ := json.Marshal(ssvtypes.TimeoutData{Height: h, Round: r})
	ev := ssvtypes.EventMsg{Type: ssvtypes.Timeout, Data: td}
	data, _ := ev.Encode()
	return &spectypes.SSVMessage{MsgType: message.SSVEventMsgType, MsgID: id, Data: data}
}

// process hands a message to the validator (validator / queue mode).
func (c *Cluster) process(op *Operator, a *Action, m *spectypes.SSVMessage) error {
	dec, err := queue.DecodeSSVMessage(m)
	if err != nil {
		return fmt.Errorf("undecodable: %w", err)
	}
	if c.Cfg.Mode == "queue" {
		return c.pushQueue(op, a, dec)
	}
	return op.Val.ProcessMessage(c.Env.Logger, dec)
}

// Deliver hands one SSV message to an operator (every receiver gets its own copy, like bytes off the wire).
func (c *Cluster) Deliver(op *Operator, m *spectypes.SSVMessage, tag string) error {
	cp := &spectypes.SSVMessage{MsgType: m.MsgType, MsgID: m.MsgID, Data: append([]byte{}, m.Data...)}
	a := &Action{Kind: Classify(op.Share, cp), Role: cp.MsgID.GetRoleType(), Tag: tag, Foreign: !op.Share.ValidatorPubKey.MessageIDBelongs(cp.MsgID)}
	a.Desc, a.Slot = Describe(cp)
	a.Msg = cp
	if a.Kind == "decided" {
		a.Kind = "consensus"
	}
	c.begin(op, a)
	var err error
	if c.Cfg.Mode == "runner" {
		err = c.direct(op, cp)
	} else {
		err = c.process(op, a, cp)
	}
	c.Delivered++
	c.end(op, a, err)
	c.Act("deliver o%d %s tag=%s err=%v", op.ID, a.Desc, tag, a.Err)
	return err
}

// direct is runner mode: the routing of Validator.ProcessMessage without the validator (role from the message id, phase
// from the message type); messages for another validator are dropped by the driver.
func (c *Cluster) direct(op *Operator, m *spectypes.SSVMessage) error {
	if !op.Share.ValidatorPubKey.MessageIDBelongs(m.MsgID) {
		return fmt.Errorf("driver: message for another validator is not routed to a runner")
	}
	r := op.Runners[m.MsgID.GetRoleType()]
	if r == nil {
		return fmt.Errorf("driver: no runner for role")
	}
	switch m.MsgType {
	case spectypes.SSVConsensusMsgType:
		sm := &specqbft.SignedMessage{}
		if err := sm.Decode(m.Data); err != nil {
			return err
		}
		return r.ProcessConsensus(c.Env.Logger, sm)
	case spectypes.SSVPartialSignatureMsgType:
		ps := &spectypes.SignedPartialSignatureMessage{}
		if err := ps.Decode(m.Data); err != nil {
			return err
		}
		if ps.Message.Type == spectypes.PostConsensusPartialSig {
			return r.ProcessPostConsensus(c.Env.Logger, ps)
		}
		return r.ProcessPreConsensus(c.Env.Logger, ps)
	case message.SSVEventMsgType:
		ev := &ssvtypes.EventMsg{}
		if err := ev.Decode(m.Data); err != nil {
			return err
		}
		if ev.Type == ssvtypes.Timeout && r.GetBaseRunner().QBFTController != nil {
			return r.GetBaseRunner().QBFTController.OnTimeout(c.Env.Logger, *ev)
		}
	}
	return fmt.Errorf("driver: unroutable message")
}

// FireTimeout delivers the timeout event for the armed (height, round) of a role's controller.
func (c *Cluster) FireTimeout(op *Operator, role spectypes.BeaconRole) error {
	tm := op.Timers[role]
	if tm == nil || tm.ArmedR == 0 {
		return nil
	}
	c.Timeouts++
	id := spectypes.NewMsgID(Domain, op.Share.ValidatorPubKey, role)
	return c.Deliver(op, TimeoutMsg(id, tm.ArmedH, tm.ArmedR), "timeout")
}

// Describe renders a message compactly and returns its slot / height.
func Describe(m *spectypes.SSVMessage) (string, uint64) {
	role := m.MsgID.GetRoleType()
	switch m.MsgType {
	case spectypes.SSVConsensusMsgType:
		sm := &specqbft.SignedMessage{}
		if err := sm.Decode(m.Data); err != nil {
			return fmt.Sprintf("%s undecodable-consensus", role), 0
		}
		return fmt.Sprintf("%s %s", role, qsim.Desc(sm)), uint64(sm.Message.Height)
	case spectypes.SSVPartialSignatureMsgType:
		ps := &spectypes.SignedPartialSignatureMessage{}
		if err := ps.Decode(m.Data); err != nil {
			return fmt.Sprintf("%s undecodable-partial-sig", role), 0
		}
		return fmt.Sprintf("%s PARTIAL{type=%d slot=%d signer=%d roots=%d}", role, ps.Message.Type, ps.Message.Slot, ps.Signer, len(ps.Message.Messages)), uint64(ps.Message.Slot)
	case message.SSVEventMsgType:
		ev := &ssvtypes.EventMsg{}
		if err := ev.Decode(m.Data); err != nil {
			return fmt.Sprintf("%s undecodable-event", role), 0
		}
		if ev.Type == ssvtypes.ExecuteDuty {
			if d, err := ev.GetExecuteDutyData(); err == nil && d.Duty != nil {
				return fmt.Sprintf("%s EVENT{execute-duty %s slot=%d}", role, d.Duty.Type, d.Duty.Slot), uint64(d.Duty.Slot)
			}
		}
		if td, err := ev.GetTimeoutData(); err == nil {
			return fmt.Sprintf("%s EVENT{timeout h%d r%d}", role, td.Height, td.Round), uint64(td.Height)
		}
		return fmt.Sprintf("%s EVENT", role), 0
	}
	return fmt.Sprintf("%s type=%d", role, m.MsgType), 0
}

// ---- scheduling primitives ---------------------------------------------------------------------------------

// DeliverAt removes pool entry i and delivers it.
func (c *Cluster) DeliverAt(i int) error {
	f := c.Pool[i]
	c.Pool = append(c.Pool[:i], c.Pool[i+1:]...)
	tag := f.Tag
	if tag == "" {
		tag = "cluster"
	}
	return c.Deliver(c.Ops[f.To-1], f.Msg, tag)
}

// DeliverWhere delivers, in pool order, every in-flight message matching pred (incl. those produced meanwhile).
func (c *Cluster) DeliverWhere(pred func(f *Flight) bool, max int) int {
	n := 0
	for n < max {
		idx := -1
		for i, f := range c.Pool {
			if pred(f) {
				idx = i
				break
			}
		}
		if idx < 0 {
			return n
		}
		_ = c.DeliverAt(idx)
		n++
	}
	return n
}

// DrainAll delivers everything in flight in FIFO order (near-synchronous network).
func (c *Cluster) DrainAll(max int) int {
	return c.DeliverWhere(func(*Flight) bool { return true }, max)
}

func (c *Cluster) DropWhere(pred func(f *Flight) bool) int {
	var keep []*Flight
	n := 0
	for _, f := range c.Pool {
		if pred(f) {
			n++
			c.Dropped++
			continue
		}
		keep = append(keep, f)
	}
	c.Pool = keep
	return n
}

// Inject puts a crafted message in flight to the given operators.
func (c *Cluster) Inject(from spectypes.OperatorID, m *spectypes.SSVMessage, tag string, to ...*Operator) {
	for _, d := range to {
		if d.Real != nil {
			c.Pool = append(c.Pool, &Flight{Msg: m, To: d.ID, From: from, Tag: tag})
		}
	}
}

// TimeOf maps a virtual tick to a point in time inside a slot of the beacon network (1 ms per tick after the slot's
// start): for monitors that need a receivedAt for a recorded broadcast (message validation).
func TimeOf(slot phase0.Slot, tick int64) time.Time {
	return time.Unix(BeaconNet.EstimatedTimeAtSlot(slot), 0).Add(time.Duration(tick) * time.Millisecond)
}

// AllBroadcasts returns every broadcast of every built operator ordered by virtual time of emission.
func (c *Cluster) AllBroadcasts() []*BroadcastEvent {
	var out []*BroadcastEvent
	for _, op := range c.Honest() {
		out = append(out, op.Broadcasts...)
	}
	sort.Slice(out, func(i, j int) bool { return out[i].Tick < out[j].Tick })
	return out
}
