package regsim

import (
	crand "crypto/rand"
	"crypto/rsa"
	"fmt"
	"math/rand"

	ethcommon "github.com/ethereum/go-ethereum/common"
	"github.com/ethereum/go-ethereum/crypto"
	"github.com/herumi/bls-eth-go-binary/bls"

	"github.com/bloxapp/ssv/utils/threshold"
)

// World is the universe one event sequence is drawn from.
type World struct {
	Owners []ethcommon.Address
	Ops    []WorldOp
	Vals   []*WorldVal
	OwnIdx int // index in Ops of the node's own operator, -1 if the node's operator is never registered
}

type WorldOp struct {
	ID    uint64
	Owner ethcommon.Address
	PK    []byte
}

type WorldVal struct {
	SK    *bls.SecretKey
	PK    []byte
	Owner ethcommon.Address
}

// GenCfg tunes the generator.
type GenCfg struct {
	MinEvents, MaxEvents int
	MalRate              float64 // probability that an event carries a malformation
	OwnBias              float64 // probability that a committee is forced to contain the node's operator
	DupOperatorID        bool    // also generate OperatorAdded events re-using a registered id with another key
	MaxVals              int     // 1..MaxVals validators
	MaxOps               int     // 4..MaxOps operators
}

func randAddr(rng *rand.Rand) ethcommon.Address {
	var a ethcommon.Address
	rng.Read(a[:])
	return a
}

func randSK(rng *rand.Rand) *bls.SecretKey {
	for {
		var b [32]byte
		rng.Read(b[:])
		b[0] = 0 // < 2^248 < r
		sk := &bls.SecretKey{}
		if err := sk.Deserialize(b[:]); err == nil && !sk.IsZero() {
			return sk
		}
	}
}

// NewWorld draws owners, operators and validators.
func (env *Env) NewWorld(rng *rand.Rand, cfg GenCfg) *World {
	w := &World{OwnIdx: -1}
	for i, n := 0, 2+rng.Intn(2); i < n; i++ {
		w.Owners = append(w.Owners, randAddr(rng))
	}
	maxOps := cfg.MaxOps
	if maxOps < 4 {
		maxOps = 13
	}
	nops := 4 + rng.Intn(maxOps-3)
	base := uint64(1 + rng.Intn(50))
	for i := 0; i < nops; i++ {
		pk := []byte(fmt.Sprintf("LS0tLS1CRUdJTiBSU0EgUFVCTElDIEtFWS0tLS0tCk1JSUJJakFOQmdrcWhraUc5dzBCQVFFRkFBT0NBUThB-%d-%d", rng.Int63(), i))
		w.Ops = append(w.Ops, WorldOp{ID: base + uint64(i), Owner: w.Owners[rng.Intn(len(w.Owners))], PK: pk})
	}
	if rng.Intn(8) != 0 {
		w.OwnIdx = rng.Intn(nops)
		if rng.Intn(2) == 0 && nops > 4 {
			w.OwnIdx = rng.Intn(4) // registered early
		}
		w.Ops[w.OwnIdx].PK = env.OwnPubB64
	}
	maxVals := cfg.MaxVals
	if maxVals < 1 {
		maxVals = 6
	}
	for i, n := 0, 1+rng.Intn(maxVals); i < n; i++ {
		sk := randSK(rng)
		w.Vals = append(w.Vals, &WorldVal{SK: sk, PK: sk.GetPublicKey().Serialize(), Owner: w.Owners[rng.Intn(len(w.Owners))]})
	}
	return w
}

func ownerSig(sk *bls.SecretKey, owner ethcommon.Address, nonce int) []byte {
	h := crypto.Keccak256([]byte(fmt.Sprintf("%s:%d", owner.String(), nonce)))
	return sk.SignByte(h).Serialize()
}

// AddSpec describes how a ValidatorAdded event is to be built.
type AddSpec struct {
	Val      int // world validator index (-1: garbage key)
	Owner    ethcommon.Address
	IDs      []uint64
	OwnID    uint64 // the node's operator id as currently registered (0: none)
	Nonce    int    // nonce to sign
	SigOwner ethcommon.Address
	SigMode  string // "validator" | "other-key" | "garbage"
	KeyFact  string // for the node's own ciphertext
	LenDelta int    // bytes added (+) / dropped (-) at the end of the blob
	BadPK    string // "" | "garbage48" | "short"
}

// BuildAdd builds a ValidatorAdded event: a fresh threshold split of the validator key over the
// committee, share public keys, RSA ciphertexts (a real one for the node's operator, opaque bytes for
// the others - the node never looks at those) and the owner signature.
func (env *Env) BuildAdd(rng *rand.Rand, w *World, sp AddSpec) (*Event, error) {
	e := &Event{Kind: ValidatorAdded, Owner: sp.Owner, OperatorIDs: append([]uint64(nil), sp.IDs...), Val: sp.Val,
		SigOwner: sp.SigOwner, SigNonce: sp.Nonce, KeyFact: sp.KeyFact}
	var sk *bls.SecretKey
	if sp.Val >= 0 {
		sk = w.Vals[sp.Val].SK
		e.ValidatorPK = append([]byte(nil), w.Vals[sp.Val].PK...)
		e.PKDecodable = true
	} else {
		sk = randSK(rng) // signs, but the event carries a key that is no key
	}
	switch sp.BadPK {
	case "garbage48":
		e.ValidatorPK = make([]byte, 48)
		for i := range e.ValidatorPK {
			e.ValidatorPK[i] = 0xff
		}
		e.PKDecodable = false
	case "short":
		e.ValidatorPK = e.ValidatorPK[:len(e.ValidatorPK)-1]
		if len(e.ValidatorPK) == 0 {
			e.ValidatorPK = make([]byte, 47)
		}
		e.PKDecodable = false
	}
	n := len(sp.IDs)
	var shareSKs []*bls.SecretKey
	if n > 0 {
		th := uint64(2*((n-1)/3) + 1)
		m, err := threshold.Create(sk.Serialize(), th, uint64(n))
		if err != nil {
			return nil, fmt.Errorf("threshold split: %w", err)
		}
		for i := 1; i <= n; i++ {
			shareSKs = append(shareSKs, m[uint64(i)])
		}
	}
	var pks, encs []byte
	for i, id := range sp.IDs {
		spk := shareSKs[i].GetPublicKey().Serialize()
		e.SharePKs = append(e.SharePKs, spk)
		pks = append(pks, spk...)
		var ct []byte
		if id == sp.OwnID && sp.OwnID != 0 {
			var err error
			switch sp.KeyFact {
			case "ok":
				ct, err = rsa.EncryptPKCS1v15(crand.Reader, &env.OwnRSA.PublicKey, []byte(shareSKs[i].SerializeToHexStr()))
			case "undecryptable":
				ct, err = rsa.EncryptPKCS1v15(crand.Reader, &env.ForeignRSA.PublicKey, []byte(shareSKs[i].SerializeToHexStr()))
			case "mismatch":
				ct, err = rsa.EncryptPKCS1v15(crand.Reader, &env.OwnRSA.PublicKey, []byte(randSK(rng).SerializeToHexStr()))
			case "not-a-key":
				ct, err = rsa.EncryptPKCS1v15(crand.Reader, &env.OwnRSA.PublicKey, []byte("zz-this-is-not-a-hex-key"))
			default:
				err = fmt.Errorf("bad KeyFact %q", sp.KeyFact)
			}
			if err != nil {
				return nil, err
			}
		} else {
			ct = make([]byte, 256)
			rng.Read(ct)
		}
		encs = append(encs, ct...)
	}
	var sig []byte
	switch sp.SigMode {
	case "validator":
		sig = ownerSig(sk, sp.SigOwner, sp.Nonce)
		e.SigByValidator = sp.Val >= 0 && sp.BadPK == ""
	case "other-key":
		sig = ownerSig(randSK(rng), sp.SigOwner, sp.Nonce)
	default:
		sig = make([]byte, 96)
		rng.Read(sig)
	}
	blob := append(append(append([]byte{}, sig...), pks...), encs...)
	if sp.LenDelta < 0 && len(blob) >= -sp.LenDelta {
		blob = blob[:len(blob)+sp.LenDelta]
	} else if sp.LenDelta > 0 {
		blob = append(blob, make([]byte, sp.LenDelta)...)
	}
	e.Shares = blob
	return e, nil
}

func pickDistinct(rng *rand.Rand, from []uint64, n int) []uint64 {
	p := rng.Perm(len(from))
	out := make([]uint64, 0, n)
	for i := 0; i < n && i < len(p); i++ {
		out = append(out, from[p[i]])
	}
	return out
}

func contains(l []uint64, v uint64) bool {
	for _, x := range l {
		if x == v {
			return true
		}
	}
	return false
}

// Generate draws a world and an event sequence. The generator follows the registry with its own
// instance of the reference model only to pick meaningful next events (registered ids, expected
// nonces); verdicts come from the checks' model instance and the observations.
func (env *Env) Generate(rng *rand.Rand, cfg GenCfg) (*World, []*Event, error) {
	w := env.NewWorld(rng, cfg)
	gm := NewModel(env.OwnPubB64)
	nev := cfg.MinEvents + rng.Intn(cfg.MaxEvents-cfg.MinEvents+1)
	var evs []*Event
	nextOp := 0
	eager := rng.Intn(4) != 0 // register most operators first
	emit := func(e *Event) {
		if e.Mal == "" && rng.Float64() < 0.03 { // wire-level breakage of an otherwise fine event
			switch rng.Intn(3) {
			case 0:
				e.Unparsable = "truncated-data"
			case 1:
				e.Unparsable = "missing-topic"
			default:
				if e.Kind == OperatorAdded {
					e.Unparsable = "pubkey-not-packed"
				} else {
					e.Unparsable = "truncated-data"
				}
			}
			e.Mal = e.Unparsable
		}
		gm.Apply(e)
		evs = append(evs, e)
	}
	registered := func() []uint64 {
		var l []uint64
		for i := 0; i < nextOp; i++ {
			if _, ok := gm.S.Operators[w.Ops[i].ID]; ok {
				l = append(l, w.Ops[i].ID)
			}
		}
		return l
	}
	otherOwner := func(o ethcommon.Address) ethcommon.Address {
		for _, x := range w.Owners {
			if x != o {
				return x
			}
		}
		return randAddr(rng)
	}
	regVals := func() []int {
		var l []int
		for i, v := range w.Vals {
			if _, ok := gm.S.Shares[fmt.Sprintf("%x", v.PK)]; ok {
				l = append(l, i)
			}
		}
		return l
	}
	for len(evs) < nev {
		mal := rng.Float64() < cfg.MalRate
		k := rng.Intn(100)
		if nextOp < len(w.Ops) && ((eager && (nextOp < 4 || rng.Intn(3) != 0)) || (!eager && rng.Intn(3) == 0)) {
			k, mal = 0, mal && rng.Intn(4) == 0
		}
		if k >= 58 && k < 90 && len(regVals()) == 0 && rng.Intn(5) != 0 {
			k = 14 // nothing registered yet: events about validators would all be "unknown validator" filler
		}
		switch {
		case k < 14: // operator events
			switch {
			case mal && cfg.DupOperatorID && nextOp > 0 && rng.Intn(2) == 0:
				o := w.Ops[rng.Intn(nextOp)]
				emit(&Event{Kind: OperatorAdded, Mal: "dup-operator-id", OperatorID: o.ID, Owner: randAddr(rng), OperatorPK: []byte(fmt.Sprintf("another-key-%d", rng.Int63()))})
			case mal && gm.S.OwnID != 0 && rng.Intn(2) == 0:
				emit(&Event{Kind: OperatorAdded, Mal: "own-key-second-id", OperatorID: 900 + uint64(rng.Intn(5)), Owner: w.Owners[0], OperatorPK: env.OwnPubB64})
			case mal && rng.Intn(2) == 0:
				emit(&Event{Kind: OperatorRemoved, Mal: "remove-unknown-operator", OperatorID: 700 + uint64(rng.Intn(9))})
			case nextOp < len(w.Ops):
				o := w.Ops[nextOp]
				nextOp++
				emit(&Event{Kind: OperatorAdded, OperatorID: o.ID, Owner: o.Owner, OperatorPK: o.PK})
			case len(registered()) > 0 && rng.Intn(3) == 0:
				r := registered()
				emit(&Event{Kind: OperatorRemoved, OperatorID: r[rng.Intn(len(r))]})
			}
		case k < 58: // ValidatorAdded
			reg := registered()
			vi := rng.Intn(len(w.Vals))
			v := w.Vals[vi]
			size := []int{4, 4, 4, 7, 7, 10, 13}[rng.Intn(7)]
			for size > len(reg) && size > 4 {
				size -= 3
			}
			ids := pickDistinct(rng, reg, size)
			if own := gm.S.OwnID; own != 0 && len(ids) > 0 && !contains(ids, own) && rng.Float64() < cfg.OwnBias {
				ids[rng.Intn(len(ids))] = own
			}
			sp := AddSpec{Val: vi, Owner: v.Owner, IDs: ids, OwnID: gm.S.OwnID, Nonce: gm.NextNonce(v.Owner), SigOwner: v.Owner, SigMode: "validator", KeyFact: "ok"}
			label := ""
			_, isReg := gm.S.Shares[fmt.Sprintf("%x", v.PK)]
			if len(ids) < 4 {
				for len(sp.IDs) < 4 { // too few registered operators: the committee names unregistered ones
					sp.IDs = append(sp.IDs, 600+uint64(len(sp.IDs)))
				}
				label = "unknown-operator"
			} else if isReg && !mal {
				label = "readd-same-owner"
			} else if mal {
				choices := []string{"bad-sig-other-key", "bad-sig-garbage", "replayed-nonce", "skipped-nonce", "sig-wrong-owner", "readd-wrong-owner",
					"dup-operator", "unknown-operator", "size-not-3f1", "size-over-13", "size-zero", "shares-short", "shares-long",
					"own-undecryptable", "own-mismatch", "own-not-a-key", "undecodable-pk", "short-pk"}
				label = choices[rng.Intn(len(choices))]
				switch label {
				case "bad-sig-other-key":
					sp.SigMode = "other-key"
				case "bad-sig-garbage":
					sp.SigMode = "garbage"
				case "replayed-nonce":
					if sp.Nonce == 0 {
						label = "skipped-nonce"
						sp.Nonce++
					} else {
						sp.Nonce--
					}
				case "skipped-nonce":
					sp.Nonce += 1 + rng.Intn(2)
				case "sig-wrong-owner":
					sp.SigOwner = otherOwner(v.Owner)
					sp.Nonce = gm.NextNonce(sp.SigOwner)
				case "readd-wrong-owner":
					rv := regVals()
					if len(rv) == 0 {
						label = "bad-sig-other-key"
						sp.SigMode = "other-key"
						break
					}
					sp.Val = rv[rng.Intn(len(rv))]
					sp.Owner = otherOwner(w.Vals[sp.Val].Owner)
					sp.SigOwner = sp.Owner
					sp.Nonce = gm.NextNonce(sp.Owner)
				case "dup-operator":
					sp.IDs[len(sp.IDs)-1] = sp.IDs[0]
				case "unknown-operator":
					sp.IDs[rng.Intn(len(sp.IDs))] = 600 + uint64(rng.Intn(50))
				case "size-not-3f1":
					n := []int{1, 2, 3, 5, 6, 8, 9, 11, 12}[rng.Intn(9)]
					for n > len(reg) && n > 1 {
						n--
					}
					if validCommitteeSize(n) {
						n--
					}
					sp.IDs = pickDistinct(rng, reg, n)
				case "size-over-13":
					sp.IDs = pickDistinct(rng, reg, len(reg))
					for i := 0; len(sp.IDs) < 14+2*rng.Intn(2); i++ {
						sp.IDs = append(sp.IDs, 600+uint64(i))
					}
				case "size-zero":
					sp.IDs = nil
				case "shares-short":
					sp.LenDelta = -1
				case "shares-long":
					sp.LenDelta = 1
				case "own-undecryptable", "own-mismatch", "own-not-a-key":
					if gm.S.OwnID == 0 {
						label = "shares-short"
						sp.LenDelta = -1
						break
					}
					if !contains(sp.IDs, gm.S.OwnID) {
						sp.IDs[rng.Intn(len(sp.IDs))] = gm.S.OwnID
					}
					sp.KeyFact = label[4:]
				case "undecodable-pk":
					sp.BadPK = "garbage48"
				case "short-pk":
					sp.BadPK = "short"
				}
			}
			e, err := env.BuildAdd(rng, w, sp)
			if err != nil {
				return nil, nil, err
			}
			e.Mal = label
			emit(e)
		case k < 70: // ValidatorRemoved
			rv := regVals()
			switch {
			case mal || len(rv) == 0:
				if len(rv) > 0 && rng.Intn(2) == 0 {
					v := w.Vals[rv[rng.Intn(len(rv))]]
					sh := gm.S.Shares[fmt.Sprintf("%x", v.PK)]
					emit(&Event{Kind: ValidatorRemoved, Mal: "remove-wrong-owner", Owner: otherOwner(v.Owner), ValidatorPK: v.PK, OperatorIDs: sh.Committee})
				} else {
					v := w.Vals[rng.Intn(len(w.Vals))]
					if _, ok := gm.S.Shares[fmt.Sprintf("%x", v.PK)]; ok {
						v = &WorldVal{PK: randSK(rng).GetPublicKey().Serialize(), Owner: v.Owner}
					}
					emit(&Event{Kind: ValidatorRemoved, Mal: "remove-unknown-validator", Owner: v.Owner, ValidatorPK: v.PK, OperatorIDs: []uint64{1, 2, 3, 4}})
				}
			default:
				v := w.Vals[rv[rng.Intn(len(rv))]]
				sh := gm.S.Shares[fmt.Sprintf("%x", v.PK)]
				emit(&Event{Kind: ValidatorRemoved, Owner: v.Owner, ValidatorPK: v.PK, OperatorIDs: sh.Committee})
			}
		case k < 78: // ValidatorExited
			rv := regVals()
			if len(rv) == 0 {
				v := w.Vals[rng.Intn(len(w.Vals))]
				emit(&Event{Kind: ValidatorExited, Mal: "exit-unknown-validator", Owner: v.Owner, ValidatorPK: v.PK, OperatorIDs: []uint64{1, 2, 3, 4}})
				break
			}
			v := w.Vals[rv[rng.Intn(len(rv))]]
			sh := gm.S.Shares[fmt.Sprintf("%x", v.PK)]
			if mal {
				emit(&Event{Kind: ValidatorExited, Mal: "exit-wrong-owner", Owner: otherOwner(v.Owner), ValidatorPK: v.PK, OperatorIDs: sh.Committee})
			} else {
				emit(&Event{Kind: ValidatorExited, Owner: v.Owner, ValidatorPK: v.PK, OperatorIDs: sh.Committee})
			}
		case k < 90: // cluster events
			kind := Liquidated
			if rng.Intn(2) == 0 {
				kind = Reactivated
			}
			rv := regVals()
			if len(rv) == 0 {
				emit(&Event{Kind: kind, Mal: "cluster-unknown", Owner: w.Owners[rng.Intn(len(w.Owners))], OperatorIDs: pickDistinct(rng, registered(), 4)})
				break
			}
			v := w.Vals[rv[rng.Intn(len(rv))]]
			sh := gm.S.Shares[fmt.Sprintf("%x", v.PK)]
			ids := append([]uint64(nil), sh.Committee...)
			switch {
			case mal && rng.Intn(2) == 0:
				emit(&Event{Kind: kind, Mal: "cluster-wrong-owner", Owner: otherOwner(v.Owner), OperatorIDs: ids})
			case mal:
				ids[rng.Intn(len(ids))] = 600 + uint64(rng.Intn(9))
				emit(&Event{Kind: kind, Mal: "cluster-other-committee", Owner: v.Owner, OperatorIDs: ids})
			default:
				if rng.Intn(2) == 0 { // a cluster is a set of operators: order must not matter
					rng.Shuffle(len(ids), func(i, j int) { ids[i], ids[j] = ids[j], ids[i] })
				}
				emit(&Event{Kind: kind, Owner: v.Owner, OperatorIDs: ids})
			}
		case k < 96: // fee recipient
			emit(&Event{Kind: FeeRecipient, Owner: w.Owners[rng.Intn(len(w.Owners))], Recipient: randAddr(rng)})
		default: // unknown
			if rng.Intn(2) == 0 {
				emit(&Event{Kind: Unknown, Mal: "unknown-topic", UnknownTopic: fmt.Sprint(rng.Intn(1000)), Owner: w.Owners[0]})
			} else {
				emit(&Event{Kind: Unknown, Mal: "unhandled-abi-event", UnknownTopic: "unhandled-abi-event", Owner: w.Owners[0], OperatorIDs: []uint64{1, 2, 3, 4}})
			}
		}
	}
	return w, evs, nil
}

// Split cuts a log into blocks: mode "one-per-block", "all-in-one" or "random" (1..max events per
// block, occasionally an empty block and gaps in the block numbers). Block numbers start at first.
func Split(rng *rand.Rand, evs []*Event, mode string, first uint64) (nums []uint64, blocks [][]*Event) {
	num := first
	switch mode {
	case "one-per-block":
		for _, e := range evs {
			nums, blocks = append(nums, num), append(blocks, []*Event{e})
			num++
		}
	case "all-in-one":
		nums, blocks = []uint64{num}, [][]*Event{evs}
	default:
		for i := 0; i < len(evs); {
			if rng.Intn(10) == 0 {
				nums, blocks = append(nums, num), append(blocks, nil) // a block without registry events
				num++
				continue
			}
			n := 1 + rng.Intn(6)
			if i+n > len(evs) {
				n = len(evs) - i
			}
			nums, blocks = append(nums, num), append(blocks, evs[i:i+n])
			i += n
			num += 1 + uint64(rng.Intn(3))
		}
	}
	return
}
