// Package regsim is the shared support of the registry checks (C11, C12): a world generator
// (operators, owners, validators with real BLS keys split with the repo's threshold utils), an
// encoder that turns abstract registry events into ABI-encoded ethtypes.Log values, a reference
// model of the registration rules, and the wiring of the REAL event handler + node storage +
// event parser + eth-key-manager + RSA decrypter on an in-memory badger.
package regsim

import (
	crand "crypto/rand"
	"crypto/rsa"
	"crypto/x509"
	"encoding/pem"
	"fmt"
	"sync"

	"github.com/attestantio/go-eth2-client/spec/phase0"
	spectypes "github.com/bloxapp/ssv-spec/types"
	ethabi "github.com/ethereum/go-ethereum/accounts/abi"

	"github.com/bloxapp/ssv/eth/contract"
	"github.com/bloxapp/ssv/networkconfig"
	"github.com/bloxapp/ssv/operator/keys"
	"github.com/bloxapp/ssv/protocol/v2/blockchain/beacon"
	"github.com/bloxapp/ssv/utils/threshold"
)

// FrozenSlot is "now" for the key manager's slashing-protection bumps (so that protection records are comparable between runs).
const FrozenSlot = phase0.Slot(1_000_000)

// frozenBeacon is a real beacon network whose clock is frozen.
type frozenBeacon struct{ beacon.Network }

func (f frozenBeacon) EstimatedCurrentSlot() phase0.Slot   { return FrozenSlot }
func (f frozenBeacon) EstimatedCurrentEpoch() phase0.Epoch { return f.EstimatedEpochAtSlot(FrozenSlot) }

// Env is the per-process fixture: the node's own RSA-2048 operator key (generated once; the handler
// requires 256-byte ciphertexts, so smaller keys are not usable), the contract ABI and the network config.
type Env struct {
	OwnKey    keys.OperatorPrivateKey
	OwnRSA    *rsa.PrivateKey
	OwnPubB64 []byte // what the OperatorAdded event of the node's own operator carries (base64 PEM)
	EKMHash   string
	ABI       *ethabi.ABI
	NetCfg    networkconfig.NetworkConfig
	// ForeignRSA: a second key, used to produce ciphertexts the node cannot decrypt to anything sensible.
	ForeignRSA *rsa.PrivateKey
	// Disk: the one real badger of this process; simulated node databases are namespaces of it (see nsdb.go).
	Disk *Disk
}

var blsOnce sync.Once

// NewEnv builds the fixture (about 0.2-0.5 s: two RSA-2048 key generations).
func NewEnv() (*Env, error) {
	sk, err := rsa.GenerateKey(crand.Reader, 2048)
	if err != nil {
		return nil, err
	}
	fk, err := rsa.GenerateKey(crand.Reader, 2048)
	if err != nil {
		return nil, err
	}
	return newEnv(sk, fk)
}

// KeyPEM exports the node's operator key (for a helper process that must be the same operator).
func (env *Env) KeyPEM() []byte {
	return pem.EncodeToMemory(&pem.Block{Type: "RSA PRIVATE KEY", Bytes: x509.MarshalPKCS1PrivateKey(env.OwnRSA)})
}

// NewEnvFromPEM builds the fixture around an existing operator key (no event generation possible: no foreign key).
func NewEnvFromPEM(p []byte) (*Env, error) {
	b, _ := pem.Decode(p)
	if b == nil {
		return nil, fmt.Errorf("no PEM block")
	}
	sk, err := x509.ParsePKCS1PrivateKey(b.Bytes)
	if err != nil {
		return nil, err
	}
	return newEnv(sk, nil)
}

func newEnv(sk, fk *rsa.PrivateKey) (*Env, error) {
	blsOnce.Do(threshold.Init)
	pemBytes := pem.EncodeToMemory(&pem.Block{Type: "RSA PRIVATE KEY", Bytes: x509.MarshalPKCS1PrivateKey(sk)})
	own, err := keys.PrivateKeyFromBytes(pemBytes)
	if err != nil {
		return nil, err
	}
	pub, err := own.Public().Base64()
	if err != nil {
		return nil, err
	}
	h, err := own.EKMHash()
	if err != nil {
		return nil, err
	}
	abi, err := contract.ContractMetaData.GetAbi()
	if err != nil {
		return nil, fmt.Errorf("abi: %w", err)
	}
	return &Env{
		Disk:   &Disk{},
		OwnKey: own, OwnRSA: sk, OwnPubB64: pub, EKMHash: h, ABI: abi, ForeignRSA: fk,
		NetCfg: networkconfig.NetworkConfig{
			Name:   "verif",
			Beacon: frozenBeacon{beacon.NewNetwork(spectypes.HoleskyNetwork)},
			Domain: spectypes.DomainType{0x0, 0x0, 0x5, 0x2},
		},
	}, nil
}
