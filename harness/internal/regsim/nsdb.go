package regsim

import (
	"fmt"
	"sync/atomic"

	"go.uber.org/zap"

	"github.com/bloxapp/ssv/storage/basedb"
	"github.com/bloxapp/ssv/storage/kv"
)

// Opening an in-memory badger costs ~130 ms (a 64 MB arena is allocated and zeroed), far more than
// processing a whole event log. A Disk is ONE real kv.BadgerDB per child process; every simulated
// node database is a namespace of it: a basedb.Database view that prepends a unique key prefix and
// otherwise forwards every call to the real kv code (transactions are real badger transactions).
type Disk struct {
	db   *kv.BadgerDB
	next uint64
	uses int
}

// Recycle replaces the underlying badger after many namespaces (bounds memory in long runs).
func (d *Disk) Recycle(after int) error {
	if d.db == nil || d.uses < after {
		return nil
	}
	_ = d.db.Close()
	db, err := kv.NewInMemory(zap.NewNop(), basedb.Options{})
	if err != nil {
		return err
	}
	d.db, d.uses = db, 0
	return nil
}

// NewDB returns an empty database (a fresh namespace).
func (d *Disk) NewDB() *NSDB {
	if d.db == nil { // opened lazily: helper processes that bring their own database never pay for it
		db, err := kv.NewInMemory(zap.NewNop(), basedb.Options{})
		if err != nil {
			panic("in-memory badger: " + err.Error())
		}
		d.db = db
	}
	n := atomic.AddUint64(&d.next, 1)
	d.uses++
	return &NSDB{inner: d.db, ns: []byte(fmt.Sprintf("~%08x~", n))}
}

// NSDB is a namespace view of a kv.BadgerDB implementing basedb.Database.
type NSDB struct {
	inner *kv.BadgerDB
	ns    []byte
}

// p builds ns+prefix with exact capacity (kv appends keys to the prefix it is given).
func (d *NSDB) p(prefix []byte) []byte {
	b := make([]byte, len(d.ns)+len(prefix))
	copy(b, d.ns)
	copy(b[len(d.ns):], prefix)
	return b
}

func (d *NSDB) Get(prefix, key []byte) (basedb.Obj, bool, error) {
	return d.inner.Get(d.p(prefix), key)
}
func (d *NSDB) GetMany(prefix []byte, keys [][]byte, it func(basedb.Obj) error) error {
	return d.inner.GetMany(d.p(prefix), keys, it)
}
func (d *NSDB) GetAll(prefix []byte, h func(int, basedb.Obj) error) error {
	return d.inner.GetAll(d.p(prefix), h)
}
func (d *NSDB) Set(prefix, key, value []byte) error { return d.inner.Set(d.p(prefix), key, value) }
func (d *NSDB) SetMany(prefix []byte, n int, next func(int) (basedb.Obj, error)) error {
	return d.inner.SetMany(d.p(prefix), n, next)
}
func (d *NSDB) Delete(prefix, key []byte) error          { return d.inner.Delete(d.p(prefix), key) }
func (d *NSDB) CountPrefix(prefix []byte) (int64, error) { return d.inner.CountPrefix(d.p(prefix)) }
func (d *NSDB) DeletePrefix(prefix []byte) (int, error)  { return d.inner.DeletePrefix(d.p(prefix)) }
func (d *NSDB) DropPrefix(prefix []byte) error {
	_, err := d.inner.DeletePrefix(d.p(prefix))
	return err
}
func (d *NSDB) Begin() basedb.Txn         { return &nsTxn{d: d, t: d.inner.Begin()} }
func (d *NSDB) BeginRead() basedb.ReadTxn { return &nsTxn{d: d, r: d.inner.BeginRead()} }
func (d *NSDB) Update(fn func(basedb.Txn) error) error {
	return d.inner.Update(func(t basedb.Txn) error { return fn(&nsTxn{d: d, t: t}) })
}

// Close releases the namespace (its records are deleted; the shared badger stays open).
func (d *NSDB) Close() error { _, err := d.inner.DeletePrefix(d.ns); return err }

func (d *NSDB) Using(rw basedb.ReadWriter) basedb.ReadWriter {
	if rw == nil {
		return d
	}
	return rw
}
func (d *NSDB) UsingReader(r basedb.Reader) basedb.Reader {
	if r == nil {
		return d
	}
	return r
}

type nsTxn struct {
	d *NSDB
	t basedb.Txn
	r basedb.ReadTxn
}

func (t *nsTxn) rd() basedb.Reader {
	if t.t != nil {
		return t.t
	}
	return t.r
}
func (t *nsTxn) Get(prefix, key []byte) (basedb.Obj, bool, error) {
	return t.rd().Get(t.d.p(prefix), key)
}
func (t *nsTxn) GetMany(prefix []byte, keys [][]byte, it func(basedb.Obj) error) error {
	return t.rd().GetMany(t.d.p(prefix), keys, it)
}
func (t *nsTxn) GetAll(prefix []byte, h func(int, basedb.Obj) error) error {
	return t.rd().GetAll(t.d.p(prefix), h)
}
func (t *nsTxn) Set(prefix, key, value []byte) error { return t.t.Set(t.d.p(prefix), key, value) }
func (t *nsTxn) SetMany(prefix []byte, n int, next func(int) (basedb.Obj, error)) error {
	return t.t.SetMany(t.d.p(prefix), n, next)
}
func (t *nsTxn) Delete(prefix, key []byte) error { return t.t.Delete(t.d.p(prefix), key) }
func (t *nsTxn) Commit() error                   { return t.t.Commit() }
func (t *nsTxn) Discard() {
	if t.t != nil {
		t.t.Discard()
	} else {
		t.r.Discard()
	}
}
