package regsim

import (
	"bytes"
	"encoding/hex"
	"fmt"
	"sort"
	"strings"

	ethcommon "github.com/ethereum/go-ethereum/common"
)

// ---- canonical registry state (what model and observations are compared on) ------------------

type ShareState struct {
	Owner      string   `json:"owner"`
	Committee  []uint64 `json:"committee"`
	SharePKs   []string `json:"-"`
	Own        bool     `json:"own"`
	OwnSharePK string   `json:"own_share_pk,omitempty"`
	Liquidated bool     `json:"liquidated"`
	// Extra is everything else a stored share carries (quorum, domain, graffiti, metadata...): only
	// compared between views of the node (getters / raw database / restart), never against the model.
	Extra string `json:"extra,omitempty"`
}

type RecipientState struct {
	Fee      string `json:"fee"`
	HasNonce bool   `json:"has_nonce"`
	Nonce    uint16 `json:"nonce"` // last used nonce (next expected = Nonce+1) when HasNonce
}

type OperatorState struct {
	PubKey string `json:"pubkey"` // short hash of the stored public key
	Owner  string `json:"owner"`
}

type State struct {
	Operators    map[uint64]OperatorState  `json:"operators"`
	Shares       map[string]ShareState     `json:"shares"` // by validator public key (hex)
	Recipients   map[string]RecipientState `json:"recipients"`
	LastBlock    uint64                    `json:"last_block"`
	HasLastBlock bool                      `json:"has_last_block"`
	OwnID        uint64                    `json:"own_id"`
}

func NewState() *State {
	return &State{Operators: map[uint64]OperatorState{}, Shares: map[string]ShareState{}, Recipients: map[string]RecipientState{}}
}

// LineOpts selects what goes into the comparison.
type LineOpts struct {
	Extra         bool // include ShareState.Extra and the committee's share public keys
	NonOwnLiquid  bool // include the liquidation flag of shares that are not the node's own
	SkipLastBlock bool
	SkipOperators bool
}

// Lines renders the state as sorted lines (diff-able).
func (s *State) Lines(o LineOpts) []string {
	var out []string
	if !o.SkipOperators {
		for id, op := range s.Operators {
			out = append(out, fmt.Sprintf("operator %04d pk=%s owner=%s", id, op.PubKey, op.Owner))
		}
	}
	for pk, sh := range s.Shares {
		liq := "-"
		if sh.Own || o.NonOwnLiquid {
			liq = fmt.Sprint(sh.Liquidated)
		}
		l := fmt.Sprintf("share %s owner=%s committee=%v own=%v ownpk=%s liquidated=%s", short(pk), sh.Owner, sh.Committee, sh.Own, short(sh.OwnSharePK), liq)
		if o.Extra {
			l += " sharepks=" + fmt.Sprint(len(sh.SharePKs)) + ":" + short(strings.Join(sh.SharePKs, "")) + " extra=" + sh.Extra
		}
		out = append(out, l)
	}
	for ow, r := range s.Recipients {
		n := "nil"
		if r.HasNonce {
			n = fmt.Sprint(r.Nonce)
		}
		out = append(out, fmt.Sprintf("recipient %s fee=%s nonce=%s", ow, r.Fee, n))
	}
	if !o.SkipLastBlock {
		out = append(out, fmt.Sprintf("lastblock found=%v n=%d", s.HasLastBlock, s.LastBlock))
	}
	out = append(out, fmt.Sprintf("own-operator-id %d", s.OwnID))
	sort.Strings(out)
	return out
}

func short(h string) string {
	if len(h) > 20 {
		return h[:12] + ".." + h[len(h)-4:]
	}
	return h
}

// Diff returns the lines only in a ("-") and only in b ("+").
func Diff(a, b []string) []string {
	ma := map[string]int{}
	for _, l := range a {
		ma[l]++
	}
	var out []string
	for _, l := range b {
		if ma[l] > 0 {
			ma[l]--
		} else {
			out = append(out, "+ "+l)
		}
	}
	for _, l := range a {
		if ma[l] > 0 {
			ma[l]--
			out = append(out, "- "+l)
		}
	}
	sort.Strings(out)
	return out
}

// ---- reference model of the registration rules --------------------------------------------------
//
// Written from the property statement and the contract's semantics; it never calls the handler.
//
//   OperatorAdded(id, owner, key)   registers id once (first registration wins); the operator whose key
//                                   is the node's key is the node's own operator; the node's key cannot be
//                                   registered under a second id.
//   OperatorRemoved(id)             the node keeps the operator record (committees of existing validators still
//                                   refer to it): no effect on the persisted state.
//   ValidatorAdded                  every parsable event is one add attempt of its owner: the owner's nonce
//                                   advances by exactly one whatever the outcome. The validator is added iff
//                                   committee size is 3f+1 (4,7,10,13), ids are distinct and all registered, the
//                                   share blob has exactly 96+n*48+n*256 bytes, the signature is the validator
//                                   key's signature over "owner:nonce" with the nonce expected BEFORE this attempt,
//                                   the validator key decodes, the key is not registered yet and - if the node's
//                                   operator is in the committee - the node's ciphertext decrypts to the secret of
//                                   the listed public share. An already registered validator is never replaced.
//   ValidatorRemoved / Exited       only by the registered owner; removal deletes the share (and the node's key share).
//   ClusterLiquidated / Reactivated set / clear the flag of the node's own validators of cluster (owner, set of ids).
//   FeeRecipientAddressUpdated      sets the owner's fee recipient (default = the owner's address, created by the first add attempt).
//   anything unparsable / unknown   no effect.

type Model struct {
	S      *State
	OwnPK  []byte // the node's operator public key (as carried by OperatorAdded)
	opKeys map[uint64][]byte
	// KeyShares: public keys of the key shares the node must hold (own shares), by validator pk hex.
	KeyShares map[string]string
	// Meta: validators whose share carries beacon metadata (set by the harness between blocks).
	Meta map[string]bool
}

func NewModel(ownPK []byte) *Model {
	return &Model{S: NewState(), OwnPK: ownPK, opKeys: map[uint64][]byte{}, KeyShares: map[string]string{}, Meta: map[string]bool{}}
}

// Outcome of one event according to the rules.
type Outcome struct {
	Applied bool   // the event changed (or legitimately re-asserted) registry state
	Why     string // rule that rejected it
	// tasks the node may hand to the task executor for this event
	Start, Stop, Exit, Liquidate, Reactivate, FeeUpdate bool
}

func hashKey(b []byte) string { return fmt.Sprintf("%x", evidHash(b)) }

func (m *Model) NextNonce(owner ethcommon.Address) int {
	r, ok := m.S.Recipients[owner.Hex()]
	if !ok || !r.HasNonce {
		return 0
	}
	return int(r.Nonce) + 1
}

func (m *Model) bumpNonce(owner ethcommon.Address) {
	k := owner.Hex()
	r, ok := m.S.Recipients[k]
	if !ok {
		r = RecipientState{Fee: k}
	}
	if r.HasNonce {
		r.Nonce++
	} else {
		r.HasNonce, r.Nonce = true, 0
	}
	m.S.Recipients[k] = r
}

func validCommitteeSize(n int) bool { return n == 4 || n == 7 || n == 10 || n == 13 }

func sameSet(a, b []uint64) bool {
	if len(a) != len(b) {
		return false
	}
	x := append([]uint64(nil), a...)
	y := append([]uint64(nil), b...)
	sort.Slice(x, func(i, j int) bool { return x[i] < x[j] })
	sort.Slice(y, func(i, j int) bool { return y[i] < y[j] })
	for i := range x {
		if x[i] != y[i] {
			return false
		}
	}
	return true
}

// Apply applies one event.
func (m *Model) Apply(e *Event) Outcome {
	if e.Unparsable != "" || e.Kind == Unknown {
		return Outcome{Why: "unparsable-or-unknown"}
	}
	s := m.S
	switch e.Kind {
	case OperatorAdded:
		isOwnKey := bytes.Equal(e.OperatorPK, m.OwnPK)
		if isOwnKey && s.OwnID != 0 && s.OwnID != e.OperatorID {
			return Outcome{Why: "own-key-already-registered"}
		}
		if _, ok := s.Operators[e.OperatorID]; ok {
			return Outcome{Why: "operator-id-exists"}
		}
		s.Operators[e.OperatorID] = OperatorState{PubKey: hashKey(e.OperatorPK), Owner: e.Owner.Hex()}
		m.opKeys[e.OperatorID] = e.OperatorPK
		if isOwnKey {
			s.OwnID = e.OperatorID
		}
		return Outcome{Applied: true}

	case OperatorRemoved:
		if _, ok := s.Operators[e.OperatorID]; !ok {
			return Outcome{Why: "unknown-operator"}
		}
		return Outcome{Applied: true}

	case ValidatorAdded:
		expected := m.NextNonce(e.Owner)
		m.bumpNonce(e.Owner) // every add attempt counts exactly once
		n := len(e.OperatorIDs)
		if !validCommitteeSize(n) {
			return Outcome{Why: "committee-size"}
		}
		seen := map[uint64]bool{}
		for _, id := range e.OperatorIDs {
			if seen[id] {
				return Outcome{Why: "duplicate-operator"}
			}
			seen[id] = true
		}
		for _, id := range e.OperatorIDs {
			if _, ok := s.Operators[id]; !ok {
				return Outcome{Why: "unknown-operator"}
			}
		}
		if len(e.Shares) != 96+n*48+n*256 {
			return Outcome{Why: "shares-length"}
		}
		if !e.SigByValidator || e.SigOwner != e.Owner || e.SigNonce != expected {
			return Outcome{Why: "signature"}
		}
		if !e.PKDecodable {
			return Outcome{Why: "validator-key"}
		}
		pk := hex.EncodeToString(e.ValidatorPK)
		if ex, ok := s.Shares[pk]; ok {
			if ex.Owner != e.Owner.Hex() {
				return Outcome{Why: "registered-to-other-owner"}
			}
			return Outcome{Why: "already-registered", Start: ex.Own} // not replaced
		}
		own := s.OwnID != 0 && seen[s.OwnID]
		sh := ShareState{Owner: e.Owner.Hex(), Committee: append([]uint64(nil), e.OperatorIDs...), Own: own}
		for _, p := range e.SharePKs {
			sh.SharePKs = append(sh.SharePKs, hex.EncodeToString(p))
		}
		if own {
			if e.KeyFact != "ok" {
				return Outcome{Why: "own-key-" + e.KeyFact}
			}
			for i, id := range e.OperatorIDs {
				if id == s.OwnID {
					sh.OwnSharePK = hex.EncodeToString(e.SharePKs[i])
				}
			}
			m.KeyShares[pk] = sh.OwnSharePK
		}
		s.Shares[pk] = sh
		return Outcome{Applied: true, Start: own}

	case ValidatorRemoved, ValidatorExited:
		pk := hex.EncodeToString(e.ValidatorPK)
		sh, ok := s.Shares[pk]
		if !ok {
			return Outcome{Why: "unknown-validator"}
		}
		if sh.Owner != e.Owner.Hex() {
			return Outcome{Why: "not-the-owner"}
		}
		if e.Kind == ValidatorExited {
			return Outcome{Applied: true, Exit: sh.Own && m.Meta[pk]}
		}
		delete(s.Shares, pk)
		delete(m.KeyShares, pk)
		delete(m.Meta, pk)
		return Outcome{Applied: true, Stop: sh.Own}

	case Liquidated, Reactivated:
		any := false
		for pk, sh := range s.Shares {
			if sh.Owner == e.Owner.Hex() && sameSet(sh.Committee, e.OperatorIDs) && sh.Own {
				sh.Liquidated = e.Kind == Liquidated
				s.Shares[pk] = sh
				any = true
			}
		}
		return Outcome{Applied: any, Liquidate: any && e.Kind == Liquidated, Reactivate: any && e.Kind == Reactivated, Why: "no-own-share-in-cluster"}

	case FeeRecipient:
		k := e.Owner.Hex()
		r, ok := s.Recipients[k]
		changed := !ok || r.Fee != e.Recipient.Hex()
		r.Fee = e.Recipient.Hex()
		s.Recipients[k] = r
		return Outcome{Applied: true, FeeUpdate: changed}
	}
	return Outcome{Why: "unknown-kind"}
}

// EndBlock records the block as processed.
func (m *Model) EndBlock(n uint64) { m.S.LastBlock, m.S.HasLastBlock = n, true }

// ExpectedAccounts: sorted public keys of the key shares the node must hold.
func (m *Model) ExpectedAccounts() []string {
	out := make([]string, 0, len(m.KeyShares))
	for _, v := range m.KeyShares {
		out = append(out, v)
	}
	sort.Strings(out)
	return out
}
