package regsim

import (
	"bytes"
	"crypto/sha256"
	"encoding/hex"
	"encoding/json"
	"errors"
	"fmt"
	"math/big"
	"sort"
	"sync"

	eth2apiv1 "github.com/attestantio/go-eth2-client/api/v1"
	"github.com/attestantio/go-eth2-client/spec/phase0"
	spectypes "github.com/bloxapp/ssv-spec/types"
	ethcommon "github.com/ethereum/go-ethereum/common"
	ethtypes "github.com/ethereum/go-ethereum/core/types"
	"go.uber.org/zap"

	"github.com/bloxapp/ssv/ekm"
	"github.com/bloxapp/ssv/eth/contract"
	"github.com/bloxapp/ssv/eth/eventhandler"
	"github.com/bloxapp/ssv/eth/eventparser"
	"github.com/bloxapp/ssv/eth/executionclient"
	ibftstorage "github.com/bloxapp/ssv/ibft/storage"
	operatordatastore "github.com/bloxapp/ssv/operator/datastore"
	operatorstorage "github.com/bloxapp/ssv/operator/storage"
	beaconprotocol "github.com/bloxapp/ssv/protocol/v2/blockchain/beacon"
	ssvtypes "github.com/bloxapp/ssv/protocol/v2/types"
	registrystorage "github.com/bloxapp/ssv/registry/storage"
	"github.com/bloxapp/ssv/storage/basedb"
)

func evidHash(b []byte) []byte { h := sha256.Sum256(b); return h[:8] }

// NewMemDB returns an empty database for one simulated node (a namespace of the process's badger).
func (env *Env) NewMemDB() *NSDB { return env.Disk.NewDB() }

// TaskCall is one call the event handler's tasks made on the task executor.
type TaskCall struct {
	Kind  string `json:"kind"` // start | stop | liquidate | reactivate | fee | exit
	PK    string `json:"pk,omitempty"`
	Owner string `json:"owner,omitempty"`
	N     int    `json:"n,omitempty"`
}

// Tasks is the stub task executor: it only records.
type Tasks struct {
	mu    sync.Mutex
	Calls []TaskCall
}

func (t *Tasks) add(c TaskCall) { t.mu.Lock(); t.Calls = append(t.Calls, c); t.mu.Unlock() }
func (t *Tasks) Take() []TaskCall {
	t.mu.Lock()
	defer t.mu.Unlock()
	c := t.Calls
	t.Calls = nil
	return c
}
func (t *Tasks) StartValidator(share *ssvtypes.SSVShare) error {
	t.add(TaskCall{Kind: "start", PK: hex.EncodeToString(share.ValidatorPubKey)})
	return nil
}
func (t *Tasks) StopValidator(pubKey spectypes.ValidatorPK) error {
	t.add(TaskCall{Kind: "stop", PK: hex.EncodeToString(pubKey)})
	return nil
}
func (t *Tasks) LiquidateCluster(owner ethcommon.Address, ids []uint64, l []*ssvtypes.SSVShare) error {
	t.add(TaskCall{Kind: "liquidate", Owner: owner.Hex(), N: len(l)})
	return nil
}
func (t *Tasks) ReactivateCluster(owner ethcommon.Address, ids []uint64, l []*ssvtypes.SSVShare) error {
	t.add(TaskCall{Kind: "reactivate", Owner: owner.Hex(), N: len(l)})
	return nil
}
func (t *Tasks) UpdateFeeRecipient(owner, recipient ethcommon.Address) error {
	t.add(TaskCall{Kind: "fee", Owner: owner.Hex()})
	return nil
}
func (t *Tasks) ExitValidator(pubKey phase0.BLSPubKey, blockNumber uint64, validatorIndex phase0.ValidatorIndex) error {
	t.add(TaskCall{Kind: "exit", PK: hex.EncodeToString(pubKey[:])})
	return nil
}

// KeyManager is what the event handler needs from the key manager (it type-asserts StorageProvider).
type KeyManager interface {
	spectypes.KeyManager
	ekm.StorageProvider
}

// Node is one "process": every in-memory object of the registry pipeline, built on a database the
// way cli/operator/node.go builds them at start-up.
type Node struct {
	Env     *Env
	DB      basedb.Database
	Storage operatorstorage.Storage
	ODS     operatordatastore.OperatorDataStore
	KM      KeyManager
	EH      *eventhandler.EventHandler
	Tasks   *Tasks
	Stores  *ibftstorage.QBFTStores
}

// NodeOpts: WrapKM decorates the real key manager (fault injection / counting).
type NodeOpts struct {
	WrapKM func(KeyManager) KeyManager
}

// NewNode performs the start-up sequence of the operator node that matters for the registry:
// node storage (loads shares into memory), private-key hash, own operator data by public key,
// key manager (opens the wallet), event handler.
func (env *Env) NewNode(db basedb.Database, o NodeOpts) (*Node, error) {
	logger := zap.NewNop()
	ns, err := operatorstorage.NewNodeStorage(logger, db)
	if err != nil {
		return nil, fmt.Errorf("node storage: %w", err)
	}
	h, err := env.OwnKey.StorageHash()
	if err != nil {
		return nil, err
	}
	stored, found, err := ns.GetPrivateKeyHash()
	if err != nil {
		return nil, err
	}
	if !found {
		if err := ns.SavePrivateKeyHash(h); err != nil {
			return nil, err
		}
	} else if stored != h {
		return nil, errors.New("private key hash mismatch")
	}
	od, found, err := ns.GetOperatorDataByPubKey(nil, env.OwnPubB64)
	if err != nil {
		return nil, fmt.Errorf("own operator data: %w", err)
	}
	if !found {
		od = &registrystorage.OperatorData{PublicKey: env.OwnPubB64}
	}
	ods := operatordatastore.New(od)
	kmRaw, err := ekm.NewETHKeyManagerSigner(logger, db, env.NetCfg, false, env.EKMHash)
	if err != nil {
		return nil, fmt.Errorf("key manager: %w", err)
	}
	km, ok := kmRaw.(KeyManager)
	if !ok {
		return nil, errors.New("key manager does not implement StorageProvider")
	}
	if o.WrapKM != nil {
		km = o.WrapKM(km)
	}
	filterer, err := contract.NewContractFilterer(ethcommon.Address{}, nil)
	if err != nil {
		return nil, err
	}
	stores := ibftstorage.NewStoresFromRoles(db, spectypes.BNRoleAttester, spectypes.BNRoleProposer)
	tasks := &Tasks{}
	eh, err := eventhandler.New(ns, eventparser.New(filterer), tasks, env.NetCfg, ods, env.OwnKey, km, nil, stores,
		eventhandler.WithFullNode(), eventhandler.WithLogger(logger))
	if err != nil {
		return nil, err
	}
	return &Node{Env: env, DB: db, Storage: ns, ODS: ods, KM: km, EH: eh, Tasks: tasks, Stores: stores}, nil
}

// ProcessBlock delivers one block through HandleBlockEventsStream (tasks are executed on the stub).
func (n *Node) ProcessBlock(num uint64, logs []ethtypes.Log) error {
	ch := make(chan executionclient.BlockLogs, 1)
	ch <- executionclient.BlockLogs{BlockNumber: num, Logs: logs}
	close(ch)
	_, err := n.EH.HandleBlockEventsStream(ch, true)
	return err
}

// ResumeFrom is the node's own resume rule (setupEventHandling): last processed block + 1, or `first` when nothing was processed.
func (n *Node) ResumeFrom(first uint64) (uint64, error) {
	b, found, err := n.Storage.GetLastProcessedBlock(nil)
	if err != nil {
		return 0, err
	}
	if !found {
		return first, nil
	}
	if b == nil {
		return 0, errors.New("last processed block is nil")
	}
	return b.Uint64() + 1, nil
}

// SetMetadata gives every own share without beacon metadata a deterministic one (what the validator
// controller's metadata updater does in production, between blocks). Returns the validators touched.
func (n *Node) SetMetadata() ([]string, error) {
	var out []string
	id := n.ODS.GetOperatorID()
	for _, sh := range n.Storage.Shares().List(nil) {
		if sh.BelongsToOperator(id) && sh.BeaconMetadata == nil {
			pk := hex.EncodeToString(sh.ValidatorPubKey)
			idx := phase0.ValidatorIndex(uint64(sh.ValidatorPubKey[1])<<8 | uint64(sh.ValidatorPubKey[2]))
			if err := n.Storage.Shares().UpdateValidatorMetadata(pk, &beaconprotocol.ValidatorMetadata{Status: eth2apiv1.ValidatorStateActiveOngoing, Index: idx}); err != nil {
				return out, err
			}
			out = append(out, pk)
		}
	}
	sort.Strings(out)
	return out, nil
}

// ---- observations -------------------------------------------------------------------------------

func shareState(sh *ssvtypes.SSVShare, ownID uint64) ShareState {
	st := ShareState{Owner: sh.OwnerAddress.Hex(), Liquidated: sh.Liquidated}
	for _, op := range sh.Committee {
		st.Committee = append(st.Committee, op.OperatorID)
		st.SharePKs = append(st.SharePKs, hex.EncodeToString(op.PubKey))
	}
	st.Own = ownID != 0 && sh.OperatorID == ownID
	if st.Own {
		st.OwnSharePK = hex.EncodeToString(sh.SharePubKey)
	}
	meta := "nil"
	if sh.BeaconMetadata != nil {
		meta = fmt.Sprintf("%s/%d", sh.BeaconMetadata.Status, sh.BeaconMetadata.Index)
	}
	st.Extra = fmt.Sprintf("opid=%d sharepk=%s q=%d pq=%d domain=%x graffiti=%q fee=%x meta=%s vpk=%s",
		sh.OperatorID, short(hex.EncodeToString(sh.SharePubKey)), sh.Quorum, sh.PartialQuorum, sh.DomainType, sh.Graffiti, sh.FeeRecipientAddress, meta,
		short(hex.EncodeToString(sh.ValidatorPubKey)))
	return st
}

func recipientState(r *registrystorage.RecipientData) RecipientState {
	st := RecipientState{Fee: ethcommon.BytesToAddress(r.FeeRecipient[:]).Hex()}
	if r.Nonce != nil {
		st.HasNonce, st.Nonce = true, uint16(*r.Nonce)
	}
	return st
}

// ViewGetters reads the registry through the node storage's getters (in-memory share view included).
func (n *Node) ViewGetters(owners []ethcommon.Address) (*State, error) {
	s := NewState()
	s.OwnID = n.ODS.GetOperatorID()
	ops, err := n.Storage.ListOperators(nil, 0, 0)
	if err != nil {
		return nil, err
	}
	for _, op := range ops {
		s.Operators[op.ID] = OperatorState{PubKey: hashKey(op.PublicKey), Owner: op.OwnerAddress.Hex()}
	}
	for _, sh := range n.Storage.Shares().List(nil) {
		s.Shares[hex.EncodeToString(sh.ValidatorPubKey)] = shareState(sh, s.OwnID)
	}
	for _, ow := range owners {
		r, found, err := n.Storage.GetRecipientData(nil, ow)
		if err != nil {
			return nil, err
		}
		if found {
			if r.Owner != ow {
				return nil, fmt.Errorf("recipient record of %s names owner %s", ow.Hex(), r.Owner.Hex())
			}
			s.Recipients[ow.Hex()] = recipientState(r)
		}
		nn, err := n.Storage.GetNextNonce(nil, ow)
		if err != nil {
			return nil, err
		}
		want := 0
		if rs, ok := s.Recipients[ow.Hex()]; ok && rs.HasNonce {
			want = int(rs.Nonce) + 1
		}
		if int(nn) != want {
			return nil, fmt.Errorf("GetNextNonce(%s)=%d but the stored record implies %d", ow.Hex(), nn, want)
		}
	}
	b, found, err := n.Storage.GetLastProcessedBlock(nil)
	if err != nil {
		return nil, err
	}
	if found && b != nil {
		s.HasLastBlock, s.LastBlock = true, b.Uint64()
	}
	return s, nil
}

// Raw key layout of the node storage (operator/storage, registry/storage).
var (
	rawShares     = []byte("operator/shares/")
	rawOperators  = []byte("operator/operators/")
	rawRecipients = []byte("operator/recipients/")
	rawPrefix     = []byte("operator/")
	rawLastBlock  = []byte("syncOffset")
)

// ViewRaw decodes the registry straight from the database records (no node storage involved).
func (env *Env) ViewRaw(db basedb.Database) (*State, error) {
	s := NewState()
	var firstErr error
	keep := func(err error) {
		if err != nil && firstErr == nil {
			firstErr = err
		}
	}
	keep(db.GetAll(rawOperators, func(_ int, o basedb.Obj) error {
		var od registrystorage.OperatorData
		if err := json.Unmarshal(o.Value, &od); err != nil {
			return fmt.Errorf("operator record %q: %w", o.Key, err)
		}
		if string(o.Key) != fmt.Sprint(od.ID) {
			return fmt.Errorf("operator record key %q holds id %d", o.Key, od.ID)
		}
		s.Operators[od.ID] = OperatorState{PubKey: hashKey(od.PublicKey), Owner: od.OwnerAddress.Hex()}
		if bytes.Equal(od.PublicKey, env.OwnPubB64) {
			s.OwnID = od.ID
		}
		return nil
	}))
	type rawShare struct {
		key []byte
		sh  *ssvtypes.SSVShare
	}
	var shares []rawShare
	keep(db.GetAll(rawShares, func(_ int, o basedb.Obj) error {
		sh := &ssvtypes.SSVShare{}
		if err := sh.Decode(o.Value); err != nil {
			return fmt.Errorf("share record: %w", err)
		}
		shares = append(shares, rawShare{append([]byte(nil), o.Key...), sh})
		return nil
	}))
	for _, r := range shares {
		if !bytes.Equal(r.key, r.sh.ValidatorPubKey) {
			keep(fmt.Errorf("share record key %x holds validator %x", r.key, r.sh.ValidatorPubKey))
		}
		s.Shares[hex.EncodeToString(r.sh.ValidatorPubKey)] = shareState(r.sh, s.OwnID)
	}
	keep(db.GetAll(rawRecipients, func(_ int, o basedb.Obj) error {
		var r registrystorage.RecipientData
		if err := json.Unmarshal(o.Value, &r); err != nil {
			return fmt.Errorf("recipient record: %w", err)
		}
		if !bytes.Equal(o.Key, r.Owner.Bytes()) {
			return fmt.Errorf("recipient record key %x holds owner %s", o.Key, r.Owner.Hex())
		}
		s.Recipients[r.Owner.Hex()] = recipientState(&r)
		return nil
	}))
	o, found, err := db.Get(rawPrefix, rawLastBlock)
	keep(err)
	if found && err == nil {
		s.HasLastBlock, s.LastBlock = true, new(big.Int).SetBytes(o.Value).Uint64()
	}
	return s, firstErr
}

// KeyState is what the key manager persists.
type KeyState struct {
	Accounts    []string          `json:"accounts"`     // multiset (sorted) of validator-share public keys of the account records
	RawAccounts int               `json:"raw_accounts"` // number of raw account records in the database
	WalletIndex []string          `json:"wallet_index"` // public keys reachable through the wallet's index
	HighestAtt  map[string]string `json:"highest_att"`  // share public key -> raw record (hex)
	HighestProp map[string]string `json:"highest_prop"`
}

func (k *KeyState) Lines() []string {
	var out []string
	for _, a := range k.Accounts {
		out = append(out, "account "+short(a))
	}
	out = append(out, fmt.Sprintf("raw-account-records %d", k.RawAccounts))
	for pk, v := range k.HighestAtt {
		out = append(out, fmt.Sprintf("highest-att %s = %s", short(pk), v))
	}
	for pk, v := range k.HighestProp {
		out = append(out, fmt.Sprintf("highest-prop %s = %s", short(pk), v))
	}
	sort.Strings(out)
	return out
}

// ViewKeys reads the key manager's persisted state: account records through ListAccounts (which
// decrypts every raw record under the accounts prefix) and the raw slashing-protection records.
func (env *Env) ViewKeys(db basedb.Database, km ekm.StorageProvider) (*KeyState, error) {
	ks := &KeyState{HighestAtt: map[string]string{}, HighestProp: map[string]string{}}
	accs, err := km.ListAccounts()
	if err != nil {
		return nil, fmt.Errorf("ListAccounts: %w", err)
	}
	for _, a := range accs {
		ks.Accounts = append(ks.Accounts, hex.EncodeToString(a.ValidatorPublicKey()))
	}
	sort.Strings(ks.Accounts)
	net := string(env.NetCfg.Beacon.GetBeaconNetwork())
	n, err := db.CountPrefix([]byte(net + "signer_data-accounts-"))
	if err != nil {
		return nil, err
	}
	ks.RawAccounts = int(n)
	if err := db.GetAll([]byte(net+"signer_data-highest_att-"), func(_ int, o basedb.Obj) error {
		ks.HighestAtt[hex.EncodeToString(o.Key)] = hex.EncodeToString(o.Value)
		return nil
	}); err != nil {
		return nil, err
	}
	if err := db.GetAll([]byte(net+"signer_data-highest_prop-"), func(_ int, o basedb.Obj) error {
		ks.HighestProp[hex.EncodeToString(o.Key)] = hex.EncodeToString(o.Value)
		return nil
	}); err != nil {
		return nil, err
	}
	o, found, err := db.Get([]byte(net+"signer_data-wallet-"), []byte("wallet"))
	if err == nil && found {
		var w struct {
			IndexMapper map[string]string `json:"indexMapper"`
		}
		if json.Unmarshal(o.Value, &w) == nil {
			for pk := range w.IndexMapper {
				ks.WalletIndex = append(ks.WalletIndex, pk)
			}
			sort.Strings(ks.WalletIndex)
		}
	}
	return ks, nil
}

// DumpHash hashes every key/value pair of the database (to assert "nothing changed").
func DumpHash(db basedb.Database) (string, int, error) {
	h := sha256.New()
	n := 0
	err := db.GetAll([]byte{}, func(_ int, o basedb.Obj) error {
		fmt.Fprintf(h, "%d:%x=%d:%x;", len(o.Key), o.Key, len(o.Value), o.Value)
		n++
		return nil
	})
	return hex.EncodeToString(h.Sum(nil)[:12]), n, err
}
