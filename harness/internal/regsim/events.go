package regsim

import (
	"encoding/binary"
	"fmt"
	"math/big"

	ethabi "github.com/ethereum/go-ethereum/accounts/abi"
	ethcommon "github.com/ethereum/go-ethereum/common"
	ethtypes "github.com/ethereum/go-ethereum/core/types"

	"github.com/bloxapp/ssv/eth/contract"
)

// Kind of registry event.
type Kind string

const (
	OperatorAdded    Kind = "OperatorAdded"
	OperatorRemoved  Kind = "OperatorRemoved"
	ValidatorAdded   Kind = "ValidatorAdded"
	ValidatorRemoved Kind = "ValidatorRemoved"
	ValidatorExited  Kind = "ValidatorExited"
	Liquidated       Kind = "ClusterLiquidated"
	Reactivated      Kind = "ClusterReactivated"
	FeeRecipient     Kind = "FeeRecipientAddressUpdated"
	Unknown          Kind = "Unknown" // unknown topic 0, or an ABI event the node does not handle
)

// Event is an abstract registry event: what goes on the wire (fields) plus the generator's ground
// truth about the opaque parts (Sig*, KeyFact, PKDecodable), which is what the reference model
// reasons about - the model never re-runs the handler's crypto.
type Event struct {
	Kind Kind   `json:"kind"`
	Mal  string `json:"mal,omitempty"` // malformation label ("" = intended valid)

	Owner       ethcommon.Address `json:"owner"`
	OperatorID  uint64            `json:"op_id,omitempty"`  // OperatorAdded / OperatorRemoved
	OperatorPK  []byte            `json:"-"`                // OperatorAdded: the (unpacked) public key bytes
	OperatorIDs []uint64          `json:"op_ids,omitempty"` // validator / cluster events
	ValidatorPK []byte            `json:"-"`
	Val         int               `json:"val"` // index of the validator in the world (-1: none / garbage key)
	Shares      []byte            `json:"-"`
	SharePKs    [][]byte          `json:"-"` // share public keys as placed in the blob (committee order)
	Recipient   ethcommon.Address `json:"recipient,omitempty"`

	// wire-level breakage
	Unparsable   string `json:"unparsable,omitempty"` // "truncated-data" | "missing-topic" | "pubkey-not-packed"
	UnknownTopic string `json:"unknown_topic,omitempty"`

	// ground truth for ValidatorAdded
	SigByValidator bool              `json:"sig_by_validator,omitempty"` // signed with the secret key of ValidatorPK
	SigOwner       ethcommon.Address `json:"sig_owner,omitempty"`
	SigNonce       int               `json:"sig_nonce,omitempty"`
	PKDecodable    bool              `json:"pk_decodable,omitempty"` // ValidatorPK is a valid BLS public key
	// KeyFact: state of the ciphertext addressed to the node's own operator, if it is in OperatorIDs:
	// "ok" | "undecryptable" | "mismatch" (decrypts to a valid key that is not the listed public share) | "not-a-key"
	KeyFact string `json:"key_fact,omitempty"`
}

func (e *Event) Label() string {
	s := string(e.Kind)
	if e.Mal != "" {
		s += "!" + e.Mal
	}
	return s
}

func (e *Event) String() string {
	return fmt.Sprintf("%s owner=%s op=%d ops=%v val=%d", e.Label(), e.Owner.Hex()[:8], e.OperatorID, e.OperatorIDs, e.Val)
}

func u64Topic(v uint64) ethcommon.Hash {
	var h ethcommon.Hash
	binary.BigEndian.PutUint64(h[24:], v)
	return h
}

func addrTopic(a ethcommon.Address) ethcommon.Hash { return ethcommon.BytesToHash(a.Bytes()) }

var cluster = contract.ISSVNetworkCoreCluster{ValidatorCount: 1, NetworkFeeIndex: 1, Index: 1, Active: true, Balance: big.NewInt(100_000_000)}

func packBytesArg(b []byte) ([]byte, error) {
	t, err := ethabi.NewType("bytes", "bytes", nil)
	if err != nil {
		return nil, err
	}
	return ethabi.Arguments{{Name: "publicKey", Type: t}}.Pack(b)
}

// Encode turns the event into the log a node would receive from eth_getLogs. Topic 0 is the ABI
// event id, indexed fields follow as topics, the rest is ABI-packed as data.
func (env *Env) Encode(e *Event, block uint64, index uint) (ethtypes.Log, error) {
	l := ethtypes.Log{
		Address:     ethcommon.HexToAddress("0x38A4794cCEd47d3baf7370CcC43B560D3a1beEFA"),
		BlockNumber: block,
		Index:       index,
		TxIndex:     index,
	}
	l.TxHash = ethcommon.BigToHash(new(big.Int).SetUint64(block<<16 | uint64(index)))
	l.BlockHash = ethcommon.BigToHash(new(big.Int).SetUint64(block))
	if e.Kind == Unknown {
		if e.UnknownTopic == "unhandled-abi-event" {
			ev := env.ABI.Events["ClusterDeposited"]
			l.Topics = []ethcommon.Hash{ev.ID, addrTopic(e.Owner)}
			d, err := ev.Inputs.NonIndexed().Pack(e.OperatorIDs, big.NewInt(1), cluster)
			if err != nil {
				return l, err
			}
			l.Data = d
			return l, nil
		}
		l.Topics = []ethcommon.Hash{ethcommon.BytesToHash([]byte("not-an-event-of-this-contract-" + e.UnknownTopic)), addrTopic(e.Owner)}
		l.Data = []byte{1, 2, 3}
		return l, nil
	}
	ev, ok := env.ABI.Events[string(e.Kind)]
	if !ok {
		return l, fmt.Errorf("no ABI event %s", e.Kind)
	}
	ni := ev.Inputs.NonIndexed()
	var data []byte
	var err error
	switch e.Kind {
	case OperatorAdded:
		l.Topics = []ethcommon.Hash{ev.ID, u64Topic(e.OperatorID), addrTopic(e.Owner)}
		pkField := e.OperatorPK
		if e.Unparsable != "pubkey-not-packed" {
			if pkField, err = packBytesArg(e.OperatorPK); err != nil {
				return l, err
			}
		}
		data, err = ni.Pack(pkField, big.NewInt(0))
	case OperatorRemoved:
		l.Topics = []ethcommon.Hash{ev.ID, u64Topic(e.OperatorID)}
	case ValidatorAdded:
		l.Topics = []ethcommon.Hash{ev.ID, addrTopic(e.Owner)}
		data, err = ni.Pack(e.OperatorIDs, e.ValidatorPK, e.Shares, cluster)
	case ValidatorRemoved:
		l.Topics = []ethcommon.Hash{ev.ID, addrTopic(e.Owner)}
		data, err = ni.Pack(e.OperatorIDs, e.ValidatorPK, cluster)
	case ValidatorExited:
		l.Topics = []ethcommon.Hash{ev.ID, addrTopic(e.Owner)}
		data, err = ni.Pack(e.OperatorIDs, e.ValidatorPK)
	case Liquidated, Reactivated:
		l.Topics = []ethcommon.Hash{ev.ID, addrTopic(e.Owner)}
		data, err = ni.Pack(e.OperatorIDs, cluster)
	case FeeRecipient:
		l.Topics = []ethcommon.Hash{ev.ID, addrTopic(e.Owner)}
		data, err = ni.Pack(e.Recipient)
	}
	if err != nil {
		return l, fmt.Errorf("pack %s: %w", e.Kind, err)
	}
	switch e.Unparsable {
	case "truncated-data":
		if len(data) > 40 {
			data = data[:len(data)/2-7] // not a multiple of 32 and shorter than the head
		} else if len(data) > 0 {
			data = data[:len(data)-9]
		} else {
			data = nil
			l.Topics = l.Topics[:1] // OperatorRemoved has no data: drop the indexed field instead
		}
	case "missing-topic":
		l.Topics = l.Topics[:len(l.Topics)-1]
	}
	l.Data = data
	return l, nil
}

// EncodeBlock encodes events as the logs of one block.
func (env *Env) EncodeBlock(evs []*Event, block uint64) ([]ethtypes.Log, error) {
	out := make([]ethtypes.Log, 0, len(evs))
	for i, e := range evs {
		l, err := env.Encode(e, block, uint(i))
		if err != nil {
			return nil, err
		}
		out = append(out, l)
	}
	return out, nil
}
