package c16

// Lane "scheduler": the whole duties.Scheduler (Start with its own four handlers, both fan-outs, HandleHeadEvent,
// ExecuteDuties with its goroutine per duty and the wait for a third of the slot) over the same virtual world and with
// the same oracle as the handlers lane. Differences:
//   - reorg notices are not made up by the harness: the harness changes the duty dependent roots of the chain and feeds
//     head events to the real HandleHeadEvent, which decides what it tells the handlers;
//   - index-change notices go through the scheduler's IndicesChg channel and fan-out; the harness waits until the three
//     duty handlers have logged "indices change received" (the index fan-out has no barrier of its own), so the notice
//     is a synchronous event here too (the oracle does not depend on notices anyway, only on what the beacon node answered);
//   - quiescence = (*Scheduler).VerifBarrier, release of the attester / sync-committee executions = VerifReleaseSlot
//     (hooks/scheduler_verif.go.txt): the lane exists only in trees that have them;
//   - the synchronous dispatch (a handler calling Scheduler.ExecuteDuties) is observed through the "late duty execution"
//     debug line ExecuteDuties writes for every duty when the slot start lies in the past (the virtual network puts
//     every slot start in 1970); oracles (b)-(e) are evaluated on it, and the ExecuteDuty callbacks (asynchronous) must
//     match the synchronous dispatches one to one by the end of each slot: never twice, never without dispatch, none lost.

import (
	"context"
	"encoding/hex"
	"fmt"
	"strings"
	"time"

	eth2apiv1 "github.com/attestantio/go-eth2-client/api/v1"
	"github.com/attestantio/go-eth2-client/spec/phase0"
	spectypes "github.com/bloxapp/ssv-spec/types"
	"go.uber.org/zap"
	"go.uber.org/zap/zapcore"

	"github.com/bloxapp/ssv/networkconfig"
	"github.com/bloxapp/ssv/operator/duties"
	"github.com/bloxapp/ssv/operator/duties/dutystore"
	"github.com/bloxapp/ssv/operator/slotticker"

	"verifharness/internal/evid"
)

type verifHooks interface {
	VerifBarrier(context.Context) bool
	VerifReleaseSlot(phase0.Slot)
}

func schedulerHooksPresent() bool {
	var s *duties.Scheduler
	_, ok := any(s).(verifHooks)
	return ok
}

type schedCtl struct {
	s     *duties.Scheduler
	hooks verifHooks
	head  func(*eth2apiv1.Event)
	idxCh chan struct{}
	pIdx  int

	rver map[uint64]int // version of the block root at the end of epoch k

	// guarded by w.mu
	open        map[dispKey]int // synchronous dispatches not yet matched by an execution
	execs       map[dispKey]int
	nRec, nExec int64
	nReorgSeen  int64 // reorg events HandleHeadEvent announced in its log
	nIdxSeen    int64 // "indices change received" lines of the attester / proposer / sync-committee handlers
	sig         chan struct{}
	byPub       map[string]phase0.ValidatorIndex
	byRole      map[string]spectypes.BeaconRole
}

// ---- log core that turns the "late duty execution" line of Scheduler.ExecuteDuties into a dispatch observation ----

type dispCore struct {
	rn     *run
	fields []zapcore.Field
}

func (c *dispCore) Enabled(l zapcore.Level) bool { return l >= zapcore.DebugLevel }
func (c *dispCore) With(f []zapcore.Field) zapcore.Core {
	nf := make([]zapcore.Field, 0, len(c.fields)+len(f))
	nf = append(append(nf, c.fields...), f...)
	return &dispCore{c.rn, nf}
}
func (c *dispCore) Check(e zapcore.Entry, ce *zapcore.CheckedEntry) *zapcore.CheckedEntry {
	if strings.Contains(e.Message, "late duty execution") {
		return ce.AddCore(e, c)
	}
	if strings.Contains(e.Message, "indices change received") { // a duty handler took an index-change notice from the fan-out
		c.rn.w.mu.Lock()
		c.rn.sched.nIdxSeen++
		c.rn.w.mu.Unlock()
		select {
		case c.rn.sched.sig <- struct{}{}:
		default:
		}
	}
	if strings.Contains(e.Message, "dependent root has changed") { // HandleHeadEvent is about to send a reorg event
		c.rn.w.mu.Lock()
		c.rn.sched.nReorgSeen++
		c.rn.w.mu.Unlock()
	}
	return ce
}
func (c *dispCore) Sync() error { return nil }
func (c *dispCore) Write(_ zapcore.Entry, f []zapcore.Field) error {
	var roleS, pubS string
	var slot uint64
	var haveSlot bool
	for _, fl := range append(append([]zapcore.Field(nil), c.fields...), f...) {
		switch fl.Key {
		case "role":
			if s, ok := fl.Interface.(fmt.Stringer); ok {
				roleS = s.String()
			}
		case "pubkey":
			if s, ok := fl.Interface.(fmt.Stringer); ok {
				pubS = s.String()
			}
		case "slot":
			slot, haveSlot = uint64(fl.Integer), true
		}
	}
	c.rn.onSyncDispatch(roleS, pubS, slot, haveSlot)
	return nil
}

func (rn *run) onSyncDispatch(roleS, pubS string, slot uint64, haveSlot bool) {
	sc := rn.sched
	t, okR := sc.byRole[roleS]
	v, okV := sc.byPub[strings.TrimPrefix(pubS, "0x")]
	if !okR || !okV || !haveSlot {
		rn.w.mu.Lock()
		rn.cnt["unparsed_dispatch_lines"]++
		rn.w.mu.Unlock()
		return
	}
	fam, _ := family(t)
	d := &spectypes.Duty{Type: t, PubKey: pubKeyOf(v), Slot: phase0.Slot(slot), ValidatorIndex: v}
	rn.onDispatch(fam, []*spectypes.Duty{d})
	rn.w.mu.Lock()
	sc.open[dispKey{t, v, slot}]++
	sc.nRec++
	rn.w.mu.Unlock()
}

// onExecuted is the ExecuteDuty callback of the scheduler (called from the goroutine ExecuteDuties starts per duty).
func (rn *run) onExecuted(d *spectypes.Duty) {
	sc := rn.sched
	w := rn.w
	w.mu.Lock()
	key := dispKey{d.Type, d.ValidatorIndex, uint64(d.Slot)}
	rn.log = append(rn.log, fmt.Sprintf("      executed %s v%d slot %d", d.Type.String(), d.ValidatorIndex, d.Slot))
	rn.cnt["executed_"+d.Type.String()]++
	sc.execs[key]++
	if sc.execs[key] > 1 {
		rn.violation("duplicate-execution", d.Type.String(), fmt.Sprintf("ExecuteDuty called %d times for %s duty of validator %d, slot %d", sc.execs[key], d.Type.String(), d.ValidatorIndex, d.Slot))
	}
	if sc.open[key] == 0 {
		if sc.execs[key] == 1 {
			rn.violation("execution-without-dispatch", d.Type.String(), fmt.Sprintf("ExecuteDuty called for %s duty of validator %d, slot %d which no handler had dispatched", d.Type.String(), d.ValidatorIndex, d.Slot))
		}
	} else {
		sc.open[key]--
	}
	sc.nExec++
	w.mu.Unlock()
	select {
	case sc.sig <- struct{}{}:
	default:
	}
}

func (rn *run) schedBarrier() bool {
	ctx, cancel := context.WithTimeout(context.Background(), watchdog)
	defer cancel()
	if !rn.sched.hooks.VerifBarrier(ctx) {
		rn.w.mu.Lock()
		rn.dead = true
		rn.w.mu.Unlock()
		rn.c.Inconclusive(fmt.Sprintf("scheduler: VerifBarrier did not return within %v", watchdog))
		return false
	}
	return true
}

// drain waits until every synchronous dispatch has been executed (the goroutines exist and are runnable: all slots up to
// the current one are released).
func (rn *run) drain() bool {
	sc := rn.sched
	t := time.NewTimer(watchdog)
	defer t.Stop()
	for {
		rn.w.mu.Lock()
		done := sc.nExec >= sc.nRec
		rn.w.mu.Unlock()
		if done {
			return true
		}
		select {
		case <-sc.sig:
		case <-t.C:
			rn.w.mu.Lock()
			var lost []string
			for k, n := range sc.open {
				if n > 0 {
					lost = append(lost, fmt.Sprintf("%s v%d slot %d", k.T.String(), k.V, k.Slot))
				}
			}
			rn.dead = true
			rn.w.mu.Unlock()
			rn.c.Inconclusive(fmt.Sprintf("scheduler: dispatched duties not executed %v after their slot was released: %v", watchdog, lost))
			return false
		}
	}
}

func rootOf(k uint64, ver int) (r phase0.Root) {
	r[0], r[1], r[2], r[31] = 0xd0, byte(k), byte(ver), 0x16
	return
}

func (rn *run) headEvent() {
	if rn.dead {
		return
	}
	sc := rn.sched
	now := rn.net.now.Load()
	e := rn.net.epochOf(now)
	prev, cur := rootOf(e-2, sc.rver[e-2]), rootOf(e-1, sc.rver[e-1])
	rn.w.mu.Lock()
	seenBefore := sc.nReorgSeen
	rn.w.mu.Unlock()
	rn.begin(evWorld, 0, now, false, fmt.Sprintf("HEAD-EVENT slot %d previous-dependent-root %x current-dependent-root %x", now, prev[:3], cur[:3]))
	done := make(chan struct{})
	go func() {
		defer close(done)
		sc.head(&eth2apiv1.Event{Topic: "head", Data: &eth2apiv1.HeadEvent{Slot: phase0.Slot(now), PreviousDutyDependentRoot: prev, CurrentDutyDependentRoot: cur}})
	}()
	select {
	case <-done:
	case <-time.After(watchdog):
		rn.w.mu.Lock()
		rn.dead = true
		rn.w.mu.Unlock()
		rn.c.Inconclusive("scheduler: HandleHeadEvent did not return")
		return
	}
	if !rn.schedBarrier() {
		return
	}
	rn.w.mu.Lock()
	rn.cnt["head_events"]++
	changed := sc.nReorgSeen > seenBefore
	if changed {
		rn.cnt["head_events_producing_reorg_notices"]++
		rn.cnt["reorg_notices_by_HandleHeadEvent"] += sc.nReorgSeen - seenBefore
		rn.anomalies++
	}
	for _, h := range rn.hs {
		if changed {
			h.causes = append(h.causes, cause{Event: rn.w.curEvent, Tag: "head-event-reorg"})
		}
		rn.probe(h, "head-event")
	}
	rn.w.mu.Unlock()
}

func (rn *run) schedIndexNotice() {
	sc := rn.sched
	if rn.dead || sc.pIdx == 0 {
		return
	}
	sc.pIdx--
	rn.begin(evWorld, 0, rn.net.now.Load(), false, "INDEX-NOTICE on the scheduler's IndicesChg channel")
	rn.w.mu.Lock()
	seenBefore := sc.nIdxSeen
	rn.w.mu.Unlock()
	if !sendIdx(sc.idxCh) {
		rn.w.mu.Lock()
		rn.dead = true
		rn.w.mu.Unlock()
		rn.c.Inconclusive("scheduler: index-change notice not accepted by the fan-out")
		return
	}
	// The index fan-out delivers to the handlers from its own goroutine and has no barrier. Each of the three duty handlers
	// logs "indices change received" when it takes the notice: wait for all three (then the reorg barrier proves they
	// finished processing it), so that the notice is a synchronous, replayable event like everything else in this lane.
	t := time.NewTimer(watchdog)
	for {
		rn.w.mu.Lock()
		got := sc.nIdxSeen - seenBefore
		rn.w.mu.Unlock()
		if got >= 3 {
			break
		}
		select {
		case <-sc.sig:
		case <-t.C:
			rn.w.mu.Lock()
			rn.dead = true
			rn.w.mu.Unlock()
			rn.c.Inconclusive(fmt.Sprintf("scheduler: only %d of 3 handlers logged 'indices change received' within %v (did the log line change?)", got, watchdog))
			return
		}
	}
	t.Stop()
	if !rn.schedBarrier() {
		return
	}
	rn.w.mu.Lock()
	rn.cnt["index_notices"]++
	rn.anomalies++
	for _, h := range rn.hs {
		h.causes = append(h.causes, cause{Event: rn.w.curEvent, Tag: "index-notice"})
		rn.probe(h, "index-notice")
	}
	rn.w.mu.Unlock()
}

func runScheduler(c *evid.Case) {
	rng := c.Rng
	p := genParams(rng, 1<<30)
	p.Late, p.AllowStale = false, false
	net := &vnet{spe: p.SPE, epp: p.EPP, far: time.Unix(1, 0)} // every slot start is long ago: no wall-clock waits in the scheduler
	w := newWorld(rng.Uint64(), net)
	w.own, w.foreign = p.Own, p.Foreign
	for _, v := range p.InitiallyActive {
		w.active[v], w.ever[v] = true, true
	}
	rn := &run{c: c, rng: rng, p: p, w: w, net: net, seen: map[dispKey]int{}, inEvent: map[dispKey]int{}, reported: map[string]bool{}, cnt: map[string]int64{},
		held: map[*fetchRec]bool{}, dropped: map[*fetchRec]cause{}}
	w.note = func(s string) { rn.log = append(rn.log, "      "+s) }
	sc := &schedCtl{idxCh: make(chan struct{}), rver: map[uint64]int{}, open: map[dispKey]int{}, execs: map[dispKey]int{}, sig: make(chan struct{}, 1),
		byPub: map[string]phase0.ValidatorIndex{}, byRole: map[string]spectypes.BeaconRole{}}
	rn.sched = sc
	for _, v := range append(append([]phase0.ValidatorIndex(nil), p.Own...), p.Foreign...) {
		pk := pubKeyOf(v)
		sc.byPub[hex.EncodeToString(pk[:])] = v
	}
	for t := spectypes.BNRoleAttester; t <= spectypes.BNRoleVoluntaryExit; t++ {
		sc.byRole[t.String()] = t
	}
	c.Journal("scheduler case %d params %+v", c.Index, p)

	ctx, cancel := context.WithCancel(context.Background())
	defer cancel()
	store := dutystore.New()
	rn.store = store
	var tickers []*hTicker
	bn := &fakeBN{w}
	w.onEvents = func(h func(*eth2apiv1.Event)) { sc.head = h }
	s := duties.NewScheduler(&duties.SchedulerOptions{
		Ctx: ctx, BeaconNode: bn, Network: networkconfig.NetworkConfig{Name: "c16-virtual", Beacon: net}, ValidatorController: &fakeVC{w},
		ExecuteDuty: func(_ *zap.Logger, d *spectypes.Duty) { rn.onExecuted(d) },
		IndicesChg:  sc.idxCh, ValidatorExitCh: make(chan duties.ExitDescriptor),
		SlotTickerProvider: func() slotticker.SlotTicker {
			t := &hTicker{ch: make(chan time.Time)}
			tickers = append(tickers, t)
			return t
		},
		DutyStore: store,
	})
	sc.s = s
	hooks, ok := any(s).(verifHooks)
	if !ok {
		c.Inconclusive("scheduler hooks missing")
		return
	}
	sc.hooks = hooks

	if p.Start > 0 {
		net.now.Store(p.Start - 1)
	}
	rn.begin(evInit, 0, net.now.Load(), false, fmt.Sprintf("INIT Scheduler.Start, clock at slot %d (epoch %d, period %d), active %s", net.now.Load(), net.epochOf(net.now.Load()), net.periodOf(net.now.Load()), fmtIdx(p.InitiallyActive)))
	if err := s.Start(ctx, zap.New(&dispCore{rn: rn})); err != nil {
		c.Inconclusive("Scheduler.Start: " + err.Error())
		return
	}
	// provider calls: NewScheduler (the scheduler's own ticker, never ticked), then Setup of attester, proposer, sync committee, voluntary exit
	if len(tickers) != 5 || sc.head == nil {
		c.Inconclusive(fmt.Sprintf("unexpected scheduler wiring: %d tickers, head handler %v", len(tickers), sc.head != nil))
		return
	}
	for i := 0; i < 3; i++ {
		rn.hs[i] = &hctl{r: role(i), tk: tickers[i+1], late: -1, lastTick: -1}
	}
	if !rn.schedBarrier() {
		return
	}

	for sl := p.Start; sl < p.End && !rn.dead; sl++ {
		net.now.Store(sl)
		rn.begin(evWorld, 0, sl, false, fmt.Sprintf("CLOCK slot %d (epoch %d slot-in-epoch %d, period %d)", sl, net.epochOf(sl), sl%p.SPE, net.periodOf(sl)))
		items := []int{0, 1, 2} // ticks of the three handlers
		if rng.Float64() < p.PReorg {
			items = append(items, 10)
		}
		if rng.Intn(10) < 8 {
			items = append(items, 11) // a head event (the block of the slot)
			if rng.Intn(6) == 0 {
				items = append(items, 10, 11) // re-org within the slot: second head
			}
		}
		if rng.Float64() < p.PSet {
			items = append(items, 12)
		}
		if rng.Float64() < p.PFail {
			items = append(items, 13)
		}
		rng.Shuffle(len(items), func(i, j int) { items[i], items[j] = items[j], items[i] })
		for _, it := range items {
			switch it {
			case 0, 1, 2:
				rn.deliverTick(rn.hs[it], sl)
			case 10:
				rn.worldReorg(-1)
			case 11:
				rn.headEvent()
			case 12:
				rn.worldSetChange(false)
			case 13:
				rn.worldArmFail(role(rng.Intn(3)), 1+rng.Intn(3))
			}
			if sc.pIdx > 0 && rng.Intn(10) < 6 {
				rn.schedIndexNotice()
			}
			if rn.dead {
				break
			}
		}
		if rn.dead {
			break
		}
		if sc.pIdx > 0 && rng.Intn(10) < 8 {
			rn.schedIndexNotice()
		}
		rn.begin(evWorld, 0, sl, false, fmt.Sprintf("RELEASE slot %d (a third of the slot has passed)", sl))
		hooks.VerifReleaseSlot(phase0.Slot(sl))
		if !rn.drain() {
			break
		}
	}
	cancel()
	if !rn.dead {
		done := make(chan struct{})
		go func() { _ = s.Wait(); close(done) }()
		select {
		case <-done:
		case <-time.After(watchdog):
			c.Inconclusive("scheduler: Wait did not return after the context was cancelled")
		}
	}

	w.mu.Lock()
	defer w.mu.Unlock()
	if !rn.dead {
		for k, n := range sc.open {
			if n > 0 {
				rn.violation("dispatch-never-executed", k.T.String(), fmt.Sprintf("%s duty of validator %d, slot %d was handed to Scheduler.ExecuteDuties but ExecuteDuty was never called for it", k.T.String(), k.V, k.Slot))
			}
		}
		if sc.nRec == 0 && sc.nExec > 0 {
			c.Inconclusive("scheduler: executions seen but no dispatch line (did the 'late duty execution' debug line change?)")
		}
	}
	for k, v := range rn.cnt {
		c.Count("sched_"+k, v)
	}
	for r := 0; r < 3; r++ {
		c.Count("sched_fetches_"+roleName[r], w.nFetch[r])
		c.Count("sched_fetch_failures_consumed_"+roleName[r], w.nFetchFail[r])
	}
	c.Count("sched_events", int64(w.curEvent))
	c.Count("sched_duties_executed", sc.nExec)
	if rn.dead {
		return
	}
	hsh := evid.Hash("sched", strings.Join(rn.seq, "\n"), fmt.Sprint(p))
	c.Distinct("sched_event_interleavings", hsh)
	if rn.anomalies > 0 && sc.nExec > 0 {
		c.Nontrivial(hsh)
	}
	if c.Idx == 0 && c.Index < 1 {
		lg := rn.log
		if len(lg) > 120 {
			lg = lg[:120]
		}
		c.Sample(map[string]any{"params": p, "log_head": append([]string(nil), lg...)})
	}
}
