package c16

// The virtual environment of the duty handlers: beacon network with a harness-controlled "now", slot ticker stepped by
// the harness, beacon node with versioned duty assignments and armed fetch failures, validator controller whose active
// set changes. Nothing here looks at the handlers' state: the oracle in c16.go uses only what this file recorded.

import (
	"context"
	"errors"
	"fmt"
	"sort"
	"sync"
	"sync/atomic"
	"time"

	eth2client "github.com/attestantio/go-eth2-client"
	eth2apiv1 "github.com/attestantio/go-eth2-client/api/v1"
	"github.com/attestantio/go-eth2-client/spec/phase0"
	spectypes "github.com/bloxapp/ssv-spec/types"

	"github.com/bloxapp/ssv/protocol/v2/blockchain/beacon"
	ssvtypes "github.com/bloxapp/ssv/protocol/v2/types"

	"verifharness/internal/evid"
)

type role int

const (
	rAtt role = iota
	rProp
	rSync
)

var roleName = [3]string{"attester", "proposer", "sync"}

// ---- virtual beacon network -------------------------------------------------------------------------

// vnet implements beacon.BeaconNetwork with small epochs / sync periods and a clock that only the harness moves.
// (beacon.Network cannot be embedded for this: its methods call each other on the value receiver, so SlotsPerEpoch /
// EstimatedCurrentSlot could not be overridden.)
type vnet struct {
	spe, epp uint64
	now      atomic.Uint64 // the current slot
	far      time.Time     // "slot start time" used only for context deadlines inside the handlers: far in the future
}

var _ beacon.BeaconNetwork = (*vnet)(nil)

func (n *vnet) ForkVersion() [4]byte                    { return [4]byte{0x99, 0x99, 0x99, 0x99} }
func (n *vnet) MinGenesisTime() uint64                  { return 0 }
func (n *vnet) SlotDurationSec() time.Duration          { return 12 * time.Second }
func (n *vnet) SlotsPerEpoch() uint64                   { return n.spe }
func (n *vnet) EstimatedCurrentSlot() phase0.Slot       { return phase0.Slot(n.now.Load()) }
func (n *vnet) EstimatedSlotAtTime(t int64) phase0.Slot { return phase0.Slot(uint64(t) / 12) }
func (n *vnet) EstimatedTimeAtSlot(s phase0.Slot) int64 { return int64(s) * 12 }
func (n *vnet) EstimatedCurrentEpoch() phase0.Epoch {
	return n.EstimatedEpochAtSlot(n.EstimatedCurrentSlot())
}
func (n *vnet) EstimatedEpochAtSlot(s phase0.Slot) phase0.Epoch {
	return phase0.Epoch(uint64(s) / n.spe)
}
func (n *vnet) FirstSlotAtEpoch(e phase0.Epoch) phase0.Slot  { return phase0.Slot(uint64(e) * n.spe) }
func (n *vnet) EpochStartTime(e phase0.Epoch) time.Time      { return n.far }
func (n *vnet) GetSlotStartTime(s phase0.Slot) time.Time     { return n.far }
func (n *vnet) GetSlotEndTime(s phase0.Slot) time.Time       { return n.far }
func (n *vnet) IsFirstSlotOfEpoch(s phase0.Slot) bool        { return uint64(s)%n.spe == 0 }
func (n *vnet) GetEpochFirstSlot(e phase0.Epoch) phase0.Slot { return phase0.Slot(uint64(e) * n.spe) }
func (n *vnet) EpochsPerSyncCommitteePeriod() uint64         { return n.epp }
func (n *vnet) EstimatedSyncCommitteePeriodAtEpoch(e phase0.Epoch) uint64 {
	return uint64(e) / n.epp
}
func (n *vnet) FirstEpochOfSyncPeriod(p uint64) phase0.Epoch { return phase0.Epoch(p * n.epp) }
func (n *vnet) LastSlotOfSyncPeriod(p uint64) phase0.Slot {
	// same formula as beacon.Network (first slot of the next period minus 2)
	lastEpoch := n.FirstEpochOfSyncPeriod(p+1) - 1
	return n.GetEpochFirstSlot(lastEpoch+1) - 2
}
func (n *vnet) GetNetwork() beacon.Network                { return beacon.NewNetwork(spectypes.BeaconTestNetwork) }
func (n *vnet) GetBeaconNetwork() spectypes.BeaconNetwork { return spectypes.BeaconTestNetwork }

func (n *vnet) epochOf(s uint64) uint64  { return s / n.spe }
func (n *vnet) periodOf(s uint64) uint64 { return s / n.spe / n.epp }

// ---- slot ticker stepped by the harness ---------------------------------------------------------------

type hTicker struct {
	ch   chan time.Time // unbuffered
	slot atomic.Uint64
}

func (t *hTicker) Next() <-chan time.Time { return t.ch }
func (t *hTicker) Slot() phase0.Slot      { return phase0.Slot(t.slot.Load()) }

// ---- the world: validators, versioned assignments, fetch log ----------------------------------------

type dutyKey struct {
	V    phase0.ValidatorIndex
	Slot uint64 // 0 for sync-committee membership (a duty per slot of the period)
}

// fetchRec is one successful answer of the fake beacon node.
type fetchRec struct {
	Event    int    // index of the harness event during which it was answered
	Now      uint64 // clock (slot) at that time
	X        uint64
	Ver      int
	Indices  map[phase0.ValidatorIndex]bool // what was asked for
	Returned map[dutyKey]bool               // what was answered
}

type world struct {
	mu   sync.Mutex
	seed uint64
	net  *vnet

	own     []phase0.ValidatorIndex // the operator's validators (active or not)
	foreign []phase0.ValidatorIndex // validators of other committees: in AllActiveIndices, never in CommitteeActiveIndices
	active  map[phase0.ValidatorIndex]bool
	ever    map[phase0.ValidatorIndex]bool // was active at some time in this case
	// activeSince: event index from which the validator has been active without interruption (0 = from the start)
	activeSince map[phase0.ValidatorIndex]int

	ver  [3]map[uint64]int         // the beacon node's current assignment version per role and epoch / period
	fail [3]int                    // fail the next k fetches of that role
	hist [3]map[uint64][]*fetchRec // successful fetches per role and epoch / period, oldest first

	curEvent int
	note     func(string)                 // appends a sub-line to the current event in the log
	onEvents func(func(*eth2apiv1.Event)) // scheduler lane: receives the head-event handler the scheduler subscribes

	nFetch, nFetchFail [3]int64
}

func newWorld(seed uint64, net *vnet) *world {
	w := &world{seed: seed, net: net, active: map[phase0.ValidatorIndex]bool{}, ever: map[phase0.ValidatorIndex]bool{}, activeSince: map[phase0.ValidatorIndex]int{}}
	for r := 0; r < 3; r++ {
		w.ver[r] = map[uint64]int{}
		w.hist[r] = map[uint64][]*fetchRec{}
	}
	return w
}

func pubKeyOf(v phase0.ValidatorIndex) (pk phase0.BLSPubKey) {
	pk[0] = 0xa0
	pk[1] = byte(v)
	pk[2] = byte(v >> 8)
	pk[47] = 0x16
	return
}

func (w *world) h(parts ...any) uint64 { return evid.Hash(append([]any{w.seed}, parts...)...) }

// The assignment functions: pure functions of (case seed, role, epoch / period, version, validator / slot).
// Attester: every validator attests once per epoch. Proposer: at most one proposer per slot, taken from all
// validators (own, active or not, and foreign) with two blanks. Sync committee: two thirds of the validators are members.
func (w *world) attSlot(e uint64, ver int, v phase0.ValidatorIndex) uint64 {
	return e*w.net.spe + w.h("A", e, ver, uint64(v))%w.net.spe
}

func (w *world) proposerAt(e uint64, ver int, slot uint64) (phase0.ValidatorIndex, bool) {
	n := uint64(len(w.own) + len(w.foreign))
	i := w.h("P", e, ver, slot) % (n + 2)
	if i >= n {
		return 0, false
	}
	if i < uint64(len(w.own)) {
		return w.own[i], true
	}
	return w.foreign[i-uint64(len(w.own))], true
}

func (w *world) inSync(p uint64, ver int, v phase0.ValidatorIndex) bool {
	return w.h("S", p, ver, uint64(v))%3 != 0
}

func (w *world) last(r role, x uint64) *fetchRec {
	l := w.hist[r][x]
	if len(l) == 0 {
		return nil
	}
	return l[len(l)-1]
}

func idxSet(ix []phase0.ValidatorIndex) map[phase0.ValidatorIndex]bool {
	m := make(map[phase0.ValidatorIndex]bool, len(ix))
	for _, v := range ix {
		m[v] = true
	}
	return m
}

func fmtIdx(ix []phase0.ValidatorIndex) string {
	s := make([]int, len(ix))
	for i, v := range ix {
		s[i] = int(v)
	}
	sort.Ints(s)
	return fmt.Sprint(s)
}

var errInjected = errors.New("injected beacon node failure")

// begin returns (version, fail) for a fetch of role r, epoch / period x; the caller holds w.mu.
func (w *world) begin(r role, x uint64, ix []phase0.ValidatorIndex) (int, bool) {
	w.nFetch[r]++
	if w.fail[r] > 0 {
		w.fail[r]--
		w.nFetchFail[r]++
		w.note(fmt.Sprintf("fetch %s x=%d idx=%s -> ERROR (injected, %d more armed)", roleName[r], x, fmtIdx(ix), w.fail[r]))
		return 0, true
	}
	return w.ver[r][x], false
}

func (w *world) record(r role, x uint64, ver int, ix []phase0.ValidatorIndex, ret map[dutyKey]bool) {
	w.hist[r][x] = append(w.hist[r][x], &fetchRec{Event: w.curEvent, Now: w.net.now.Load(), X: x, Ver: ver, Indices: idxSet(ix), Returned: ret})
	ks := make([]string, 0, len(ret))
	for k := range ret {
		if r == rSync {
			ks = append(ks, fmt.Sprintf("v%d", k.V))
		} else {
			ks = append(ks, fmt.Sprintf("v%d@%d", k.V, k.Slot))
		}
	}
	sort.Strings(ks)
	w.note(fmt.Sprintf("fetch %s x=%d idx=%s -> version %d %v", roleName[r], x, fmtIdx(ix), ver, ks))
}

// ---- fake beacon node ----------------------------------------------------------------------------------

type fakeBN struct{ w *world }

func (b *fakeBN) AttesterDuties(_ context.Context, epoch phase0.Epoch, ix []phase0.ValidatorIndex) ([]*eth2apiv1.AttesterDuty, error) {
	w := b.w
	w.mu.Lock()
	defer w.mu.Unlock()
	e := uint64(epoch)
	ver, fail := w.begin(rAtt, e, ix)
	if fail {
		return nil, errInjected
	}
	ret := map[dutyKey]bool{}
	var out []*eth2apiv1.AttesterDuty
	for _, v := range ix {
		s := w.attSlot(e, ver, v)
		ret[dutyKey{v, s}] = true
		out = append(out, &eth2apiv1.AttesterDuty{PubKey: pubKeyOf(v), Slot: phase0.Slot(s), ValidatorIndex: v,
			CommitteeIndex: phase0.CommitteeIndex(uint64(v) % 4), CommitteeLength: 128, CommitteesAtSlot: 4, ValidatorCommitteeIndex: uint64(v) % 128})
	}
	w.record(rAtt, e, ver, ix, ret)
	return out, nil
}

func (b *fakeBN) ProposerDuties(_ context.Context, epoch phase0.Epoch, ix []phase0.ValidatorIndex) ([]*eth2apiv1.ProposerDuty, error) {
	w := b.w
	w.mu.Lock()
	defer w.mu.Unlock()
	e := uint64(epoch)
	ver, fail := w.begin(rProp, e, ix)
	if fail {
		return nil, errInjected
	}
	asked := idxSet(ix)
	ret := map[dutyKey]bool{}
	var out []*eth2apiv1.ProposerDuty
	for s := e * w.net.spe; s < (e+1)*w.net.spe; s++ {
		v, ok := w.proposerAt(e, ver, s)
		if !ok || !asked[v] {
			continue
		}
		ret[dutyKey{v, s}] = true
		out = append(out, &eth2apiv1.ProposerDuty{PubKey: pubKeyOf(v), Slot: phase0.Slot(s), ValidatorIndex: v})
	}
	w.record(rProp, e, ver, ix, ret)
	return out, nil
}

func (b *fakeBN) SyncCommitteeDuties(_ context.Context, epoch phase0.Epoch, ix []phase0.ValidatorIndex) ([]*eth2apiv1.SyncCommitteeDuty, error) {
	w := b.w
	w.mu.Lock()
	defer w.mu.Unlock()
	p := uint64(epoch) / w.net.epp
	ver, fail := w.begin(rSync, p, ix)
	if fail {
		return nil, errInjected
	}
	ret := map[dutyKey]bool{}
	var out []*eth2apiv1.SyncCommitteeDuty
	for _, v := range ix {
		if !w.inSync(p, ver, v) {
			continue
		}
		ret[dutyKey{v, 0}] = true
		out = append(out, &eth2apiv1.SyncCommitteeDuty{PubKey: pubKeyOf(v), ValidatorIndex: v,
			ValidatorSyncCommitteeIndices: []phase0.CommitteeIndex{phase0.CommitteeIndex(uint64(v) % 512)}})
	}
	w.record(rSync, p, ver, ix, ret)
	return out, nil
}

func (b *fakeBN) Events(_ context.Context, _ []string, h eth2client.EventHandlerFunc) error {
	if b.w.onEvents != nil {
		b.w.onEvents(h)
	}
	return nil
}

// called from goroutines the handlers spawn: must not touch anything
func (b *fakeBN) SubmitBeaconCommitteeSubscriptions(context.Context, []*eth2apiv1.BeaconCommitteeSubscription) error {
	return nil
}
func (b *fakeBN) SubmitSyncCommitteeSubscriptions(context.Context, []*eth2apiv1.SyncCommitteeSubscription) error {
	return nil
}

// ---- fake validator controller ---------------------------------------------------------------------------

type fakeVC struct{ w *world }

func (c *fakeVC) CommitteeActiveIndices(phase0.Epoch) []phase0.ValidatorIndex {
	w := c.w
	w.mu.Lock()
	defer w.mu.Unlock()
	var out []phase0.ValidatorIndex
	for _, v := range w.own {
		if w.active[v] {
			out = append(out, v)
		}
	}
	return out
}

func (c *fakeVC) AllActiveIndices(phase0.Epoch, bool) []phase0.ValidatorIndex {
	w := c.w
	w.mu.Lock()
	defer w.mu.Unlock()
	var out []phase0.ValidatorIndex
	for _, v := range w.own {
		if w.active[v] {
			out = append(out, v)
		}
	}
	return append(out, w.foreign...)
}

func (c *fakeVC) GetOperatorShares() []*ssvtypes.SSVShare { return nil }
