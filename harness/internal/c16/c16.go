// Package c16: every attester / proposer / sync-committee duty assigned to an active validator of the operator is
// dispatched at most once, at the tick of its slot, exactly once when its assignment had been fetched before that tick,
// never when it is absent from the most recently fetched assignment or outside the role's slot window (property C16).
//
// Lane "handlers": the real AttesterHandler, ProposerHandler and SyncCommitteeHandler (operator/duties), wired through
// their exported Setup with a harness-stepped slot ticker, a virtual beacon network, a fake beacon node with versioned
// assignments and armed fetch failures, a fake validator controller and unbuffered reorg / index-change channels.
// The harness delivers one event at a time to one handler and then a no-op ReorgEvent{} on the same unbuffered reorg
// channel: its acceptance proves that the handler finished the event and is back in its select loop (an empty
// ReorgEvent has neither Previous nor Current set; all three handlers only compute an epoch from it and do nothing).
// ticker.Next() is NOT used as a completion signal (the handlers call it before they process the tick).
package c16

import (
	"context"
	"fmt"
	"math/rand"
	"os"
	"sort"
	"strings"
	"time"

	"github.com/attestantio/go-eth2-client/spec/phase0"
	spectypes "github.com/bloxapp/ssv-spec/types"
	"go.uber.org/zap"

	"github.com/bloxapp/ssv/networkconfig"
	"github.com/bloxapp/ssv/operator/duties"
	"github.com/bloxapp/ssv/operator/duties/dutystore"
	"github.com/bloxapp/ssv/operator/slotticker"

	"verifharness/internal/evid"
)

func Spec() *evid.Spec {
	sp := &evid.Spec{
		ID:    "C16",
		Level: "exploration",
		Rule: "handlers lane: seed-determined schedules over 3-5 epochs (4/6/8 slots per epoch, 2-4 epochs per sync period) that start 1-2 epochs before a sync-committee period " +
			"boundary, 1-6 own validators (+0-2 foreign ones); per slot a random interleaving of: clock advance, the tick of each of the three real handlers (occasionally one slot late), " +
			"chain reorgs (the beacon node's assignment version of the affected epochs / period changes; previous / current notices are delivered to each handler separately, " +
			"occasionally only after the next clock advance), validator-set changes and their index-change notices, and armed beacon-node failures (next 1-3 fetches of a role). " +
			"One event is delivered to one handler at a time, followed by a barrier. A case is non-trivial if at least one reorg notice, index-change notice or fetch failure was " +
			"consumed and at least one duty was dispatched; distinct = hash of the delivered event sequence",
		Assumptions: []string{
			"an on-time tick is processed while the network clock is inside the tick's slot; ticks delivered one slot late (never across an epoch boundary; the following slot's tick is skipped as " +
				"the real slot ticker does) only exercise the slot window: no exactly-once obligation is demanded for them",
			"obligation (e) is demanded for a duty only if the most recent successful fetch of its epoch / period returned the beacon node's CURRENT assignment version, asked for that validator, " +
				"happened in an earlier event than the tick, and the validator has been active without interruption since that fetch; a reorg changes the version, so the old assignment stops being demanded " +
				"(nothing is derived from the handlers' flags or from the notices: a handler may keep, replace or re-fetch at will as long as a fetched, still current assignment is executed)",
			"slot windows as documented at shouldExecute: attester now-slotsPerEpoch..now+1, proposer and sync committee now..now+1",
			"sync-committee duties are expanded by the handler to one duty per slot of the period for every member",
		},
		MinNontrivial: 200,
		Lanes: []evid.Lane{
			{Name: "handlers", Children: evid.Const(16, 32), Cases: evid.Const(320, 4700), TimeoutS: evid.Const(240, 3000), Run: runHandlers},
		},
	}
	// The scheduler lane needs the quiescence / release hooks of operator/duties/scheduler_verif.go (build tag verif, proposed
	// in hooks/scheduler_verif.go.txt). It registers itself only when the tree under test has them.
	if schedulerHooksPresent() {
		sp.Rule += "; scheduler lane (-race): the whole duties.Scheduler (Start, fan-out, HandleHeadEvent, ExecuteDuties) with the same world; reorg notices are produced by the real " +
			"HandleHeadEvent from head events whose dependent roots the harness changes; executions are released per slot (VerifReleaseSlot) and must match the synchronous dispatches one to one"
		// under the race detector whenever the driver was given a -race build of this binary (C16 listed in lib/race_lanes.txt)
		race := false
		for _, a := range os.Args {
			race = race || a == "-racebin" || a == "--racebin"
		}
		sp.Lanes = append(sp.Lanes, evid.Lane{Name: "scheduler", Race: race, Children: evid.Const(16, 32), Cases: evid.Const(40, 600), TimeoutS: evid.Const(300, 3000), Run: runScheduler})
	}
	return sp
}

const watchdog = 30 * time.Second

type handler interface {
	Setup(string, *zap.Logger, duties.BeaconNode, duties.ExecutionClient, networkconfig.NetworkConfig, duties.ValidatorController,
		duties.ExecuteDutiesFunc, slotticker.Provider, chan duties.ReorgEvent, chan struct{})
	HandleDuties(context.Context)
	HandleInitialDuties(context.Context)
	Name() string
}

type evKind int

const (
	evInit evKind = iota
	evWorld
	evTick
	evReorgN
	evIdxN
)

type cause struct {
	Event int
	Tag   string
	Rel   string // for a drop: was the dropped assignment's epoch / period the current one at that moment, or still upcoming
}

type pendingReorg struct {
	ev    duties.ReorgEvent
	epoch uint64 // epoch of the clock when the reorg happened
}

type hctl struct {
	r        role
	h        handler
	tk       *hTicker
	reorg    chan duties.ReorgEvent
	idx      chan struct{}
	done     chan struct{}
	pReorg   []pendingReorg
	pIdx     int
	late     int64 // slot of a tick that is held back (delivered after the next clock advance), -1 none
	causes   []cause
	lastTick int64 // clock slot during which this handler last received a tick
}

type dispKey struct {
	T    spectypes.BeaconRole
	V    phase0.ValidatorIndex
	Slot uint64
}

type params struct {
	SPE, EPP         uint64
	Start, End       uint64 // first slot ticked, end exclusive
	Own, Foreign     []phase0.ValidatorIndex
	InitiallyActive  []phase0.ValidatorIndex
	PReorg, PSet     float64
	PFail            float64
	AllowStale, Late bool
	Plan             *plan `json:",omitempty"`
}

// plan: one scripted event at a fixed position relative to the ticks of one slot (systematic part of the workload).
type plan struct {
	Slot      uint64
	AfterTick bool   // after all three handlers ticked that slot (else before any of them)
	Kind      string // reorg-previous | reorg-current | set-change
	Fail      int    // fetches of every role that fail afterwards
}

type run struct {
	c   *evid.Case
	rng *rand.Rand
	p   params
	w   *world
	net *vnet
	hs  [3]*hctl

	// everything below is guarded by w.mu
	log []string
	seq []string // event lines only (interleaving identity)
	cur struct {
		kind   evKind
		r      role
		slot   uint64
		onTime bool
	}
	seen      map[dispKey]int
	inEvent   map[dispKey]int
	reported  map[string]bool
	dead      bool
	cnt       map[string]int64
	anomalies int

	sched *schedCtl // scheduler lane only

	// diagnostics only (never part of a verdict): when did the duty store stop holding what the last fetch returned
	store   *dutystore.Store
	held    map[*fetchRec]bool
	dropped map[*fetchRec]cause
}

func family(t spectypes.BeaconRole) (role, bool) {
	switch t {
	case spectypes.BNRoleAttester, spectypes.BNRoleAggregator:
		return rAtt, true
	case spectypes.BNRoleProposer:
		return rProp, true
	case spectypes.BNRoleSyncCommittee, spectypes.BNRoleSyncCommitteeContribution:
		return rSync, true
	}
	return 0, false
}

func pick(rng *rand.Rand, v ...float64) float64 { return v[rng.Intn(len(v))] }

func genParams(rng *rand.Rand, index int) params {
	var p params
	p.SPE = []uint64{4, 6, 8, 8}[rng.Intn(4)]
	p.EPP = uint64(2 + rng.Intn(3))
	boundary := p.EPP * uint64(2+rng.Intn(2)) // first epoch of a sync-committee period
	e0 := boundary - 1 - uint64(rng.Intn(2))
	off := uint64(rng.Intn(int(p.SPE)))
	if rng.Intn(2) == 0 {
		off = p.SPE - 1 - uint64(rng.Intn(2)) // just before the epoch (and possibly period) boundary
	}
	p.Start = e0*p.SPE + off
	p.End = p.Start + uint64(3+rng.Intn(3))*p.SPE
	nOwn := 1 + rng.Intn(6)
	for i := 0; i < nOwn; i++ {
		p.Own = append(p.Own, phase0.ValidatorIndex(10+i))
	}
	for i := 0; i < rng.Intn(3); i++ {
		p.Foreign = append(p.Foreign, phase0.ValidatorIndex(90+i))
	}
	for _, v := range p.Own {
		if rng.Intn(10) < 7 {
			p.InitiallyActive = append(p.InitiallyActive, v)
		}
	}
	if len(p.InitiallyActive) == 0 && rng.Intn(20) != 0 {
		p.InitiallyActive = append(p.InitiallyActive, p.Own[rng.Intn(nOwn)])
	}
	p.PReorg = pick(rng, 0, 0.08, 0.25)
	p.PSet = pick(rng, 0, 0.08, 0.25)
	p.PFail = pick(rng, 0, 0.08, 0.25)
	p.AllowStale = rng.Intn(4) == 0
	p.Late = rng.Intn(4) == 0
	if index < scriptedCases {
		// systematic part: one notice at every position (before / after the ticks of the slots -2..+2 around an epoch
		// boundary that is / is not a sync-period boundary), with 0 / 1 failing fetches afterwards, otherwise quiet
		p.PReorg, p.PSet, p.PFail, p.AllowStale, p.Late = 0, 0, 0, false, false
		p.Start = e0 * p.SPE // a whole epoch (or two) before the period boundary
		p.End = p.Start + 4*p.SPE
		b := boundary * p.SPE // first slot of the new period
		if (index/30)%2 == 1 {
			b -= p.SPE // plain epoch boundary inside the old period
			if b <= p.Start {
				b += 2 * p.SPE // (e0 = boundary-1): plain epoch boundary inside the new period
			}
		}
		p.Plan = &plan{Slot: uint64(int64(b) + int64((index/6)%5) - 2), AfterTick: (index/3)%2 == 1,
			Kind: []string{"reorg-previous", "reorg-current", "set-change"}[index%3], Fail: (index / 60) % 2}
		if len(p.InitiallyActive) == 0 {
			p.InitiallyActive = append(p.InitiallyActive, p.Own[0])
		}
	}
	return p
}

const scriptedCases = 120

// ---- event bookkeeping -------------------------------------------------------------------------------------

func (rn *run) begin(kind evKind, r role, slot uint64, onTime bool, line string) {
	w := rn.w
	w.mu.Lock()
	w.curEvent++
	rn.cur.kind, rn.cur.r, rn.cur.slot, rn.cur.onTime = kind, r, slot, onTime
	l := fmt.Sprintf("#%d %s", w.curEvent, line)
	rn.log = append(rn.log, l)
	rn.seq = append(rn.seq, line)
	rn.inEvent = map[dispKey]int{}
	w.mu.Unlock()
}

func (rn *run) violation(kind, sig, detail string) { // w.mu held
	k := kind + "|" + sig
	if rn.reported[k] {
		return
	}
	rn.reported[k] = true
	lg := rn.log
	if len(lg) > 600 {
		lg = append([]string{"... (truncated)"}, lg[len(lg)-600:]...)
	}
	rn.c.Violation(kind, sig, detail, map[string]any{"params": rn.p, "event": rn.w.curEvent, "log": append([]string(nil), lg...)})
}

// causesSince names what was delivered to handler h after event ev: the LAST notice (index-notice, reorg-previous,
// reorg-current, stale-...) plus "+fetch-fail" if a fetch of that handler failed since; "late-tick" only if nothing else.
func (rn *run) causesSince(h *hctl, ev int) string {
	notice, fail, late := "", false, false
	for _, c := range h.causes {
		if c.Event <= ev {
			continue
		}
		switch c.Tag {
		case "fetch-fail":
			fail = true
		case "late-tick":
			late = true
		default:
			notice = c.Tag
		}
	}
	switch {
	case notice == "" && !fail && late:
		return "late-tick"
	case notice == "" && !fail:
		return "no-anomaly"
	case notice == "":
		return "fetch-fail"
	case fail:
		return notice + "+fetch-fail"
	}
	return notice
}

func (rn *run) xOf(r role, slot uint64) uint64 {
	if r == rSync {
		return rn.net.periodOf(slot)
	}
	return rn.net.epochOf(slot)
}

// ---- oracle (a)-(d): on every call of the executeDuties callback ------------------------------------------------

func (rn *run) onDispatch(hr role, ds []*spectypes.Duty) {
	w := rn.w
	w.mu.Lock()
	defer w.mu.Unlock()
	h := rn.hs[hr]
	now := rn.net.now.Load()
	for _, d := range ds {
		fam, ok := family(d.Type)
		slot := uint64(d.Slot)
		v := d.ValidatorIndex
		rn.log = append(rn.log, fmt.Sprintf("      dispatch %s v%d slot %d", d.Type.String(), v, slot))
		rn.cnt["dispatched_"+d.Type.String()]++
		if !ok || fam != hr {
			rn.violation("wrong-role", roleName[hr]+":"+d.Type.String(), fmt.Sprintf("the %s handler dispatched a duty of type %s", roleName[hr], d.Type.String()))
			continue
		}
		key := dispKey{d.Type, v, slot}
		// (a) at most once
		if rn.seen[key] > 0 {
			rn.violation("duplicate-dispatch", roleName[hr]+":"+rn.causesSince(h, 0),
				fmt.Sprintf("%s duty of validator %d for slot %d dispatched a second time (event #%d)", d.Type.String(), v, slot, w.curEvent))
		}
		rn.seen[key]++
		rn.inEvent[key]++
		// (b) only inside the processing of the tick of that slot, by that role's handler
		if rn.cur.kind != evTick || rn.cur.r != hr || rn.cur.slot != slot {
			during := []string{"init", "world", "tick-of-other-slot", "reorg-notice", "index-notice"}[rn.cur.kind]
			rn.violation("dispatch-outside-its-tick", roleName[hr]+":"+during,
				fmt.Sprintf("%s duty of validator %d for slot %d dispatched during event #%d (%s, tick slot %d) which is not the tick of slot %d",
					d.Type.String(), v, slot, w.curEvent, during, rn.cur.slot, slot))
		}
		// (c) never a duty absent from the most recently fetched assignment of its epoch / period
		x := rn.xOf(fam, slot)
		dk := dutyKey{v, slot}
		if fam == rSync {
			dk.Slot = 0
		}
		if L := w.last(fam, x); L == nil || !L.Returned[dk] {
			src := -1
			for _, f := range w.hist[fam][x] {
				if f.Returned[dk] {
					src = f.Event
				}
			}
			why := "never-fetched"
			if src >= 0 {
				why = "superseded:" + rn.causesSince(h, src-1)
			}
			lv := "none"
			if L != nil {
				lv = fmt.Sprintf("version %d fetched in event #%d", L.Ver, L.Event)
			}
			rn.violation("dispatch-absent-from-latest-assignment", roleName[hr]+":"+why,
				fmt.Sprintf("%s duty of validator %d for slot %d dispatched in event #%d, but the most recently fetched assignment of %s epoch/period %d (%s) does not contain it (last fetch that contained it: event #%d)",
					d.Type.String(), v, slot, w.curEvent, roleName[fam], x, lv, src))
		}
		if !w.ever[v] {
			rn.violation("dispatch-for-foreign-validator", roleName[hr], fmt.Sprintf("%s duty dispatched for validator %d which never was an active validator of the operator", d.Type.String(), v))
		}
		// (d) never outside the role's slot window (relative to the network clock)
		lo, hi := now, now+1
		if fam == rAtt {
			lo = 0
			if now > rn.p.SPE {
				lo = now - rn.p.SPE
			}
		}
		if slot < lo || slot > hi {
			rn.violation("dispatch-outside-window", roleName[hr], fmt.Sprintf("%s duty of validator %d for slot %d dispatched while the clock is at slot %d (window %d..%d)",
				d.Type.String(), v, slot, now, lo, hi))
		}
	}
}

// ---- oracle (e): reference model of what must be dispatched at an on-time tick ---------------------------------

type obligation struct {
	Key dispKey
	F   *fetchRec
}

// expected: duties of role r at slot s that the beacon node currently assigns to an active validator and whose
// assignment (that very version) is what the last successful fetch, in an earlier event, returned when asked for that
// validator. bnDuties counts all duties the beacon node currently assigns to active validators at s.  (w.mu held)
func (rn *run) expected(r role, s uint64) (obl []obligation, bnDuties int) {
	w := rn.w
	x := rn.xOf(r, s)
	ver := w.ver[r][x]
	F := w.last(r, x)
	for _, v := range w.own {
		if !w.active[v] {
			continue
		}
		var has bool
		var t spectypes.BeaconRole
		dk := dutyKey{v, s}
		switch r {
		case rAtt:
			has, t = w.attSlot(x, ver, v) == s, spectypes.BNRoleAttester
		case rProp:
			pv, ok := w.proposerAt(x, ver, s)
			has, t = ok && pv == v, spectypes.BNRoleProposer
		case rSync:
			has, t = w.inSync(x, ver, v), spectypes.BNRoleSyncCommittee
			dk.Slot = 0
		}
		if !has {
			continue
		}
		bnDuties++
		if F != nil && F.Ver == ver && F.Indices[v] && F.Returned[dk] && w.activeSince[v] <= F.Event {
			obl = append(obl, obligation{dispKey{t, v, s}, F})
		}
	}
	return
}

// ---- delivery ------------------------------------------------------------------------------------------------

func sendReorg(ch chan duties.ReorgEvent, v duties.ReorgEvent) bool {
	select {
	case ch <- v:
		return true
	default:
	}
	t := time.NewTimer(watchdog)
	defer t.Stop()
	select {
	case ch <- v:
		return true
	case <-t.C:
		return false
	}
}

func sendTick(ch chan time.Time) bool {
	select {
	case ch <- time.Time{}:
		return true
	default:
	}
	t := time.NewTimer(watchdog)
	defer t.Stop()
	select {
	case ch <- time.Time{}:
		return true
	case <-t.C:
		return false
	}
}

func sendIdx(ch chan struct{}) bool {
	select {
	case ch <- struct{}{}:
		return true
	default:
	}
	t := time.NewTimer(watchdog)
	defer t.Stop()
	select {
	case ch <- struct{}{}:
		return true
	case <-t.C:
		return false
	}
}

func (rn *run) stuck(h *hctl, what string) {
	rn.w.mu.Lock()
	last := ""
	if len(rn.seq) > 0 {
		last = rn.seq[len(rn.seq)-1]
	}
	rn.dead = true
	rn.w.mu.Unlock()
	rn.c.Inconclusive(fmt.Sprintf("%s handler did not accept %s within %v (last event: %s)", roleName[h.r], what, watchdog, last))
}

// barrier: a no-op ReorgEvent{} on the unbuffered reorg channel; accepted only from inside the handler's select.
func (rn *run) barrier(h *hctl) bool {
	if rn.sched != nil {
		return rn.schedBarrier()
	}
	if !sendReorg(h.reorg, duties.ReorgEvent{}) {
		rn.stuck(h, "the barrier")
		return false
	}
	return true
}

func (rn *run) addCause(h *hctl, tag string) { // w.mu not held
	rn.w.mu.Lock()
	h.causes = append(h.causes, cause{Event: rn.w.curEvent, Tag: tag})
	rn.w.mu.Unlock()
}

// probe is DIAGNOSTIC ONLY: after an event of handler h it looks into the duty store (which the harness created) and
// notes the event after which the store no longer holds everything the latest successful fetch of an epoch / period
// returned. Verdicts never depend on it; it only names the dropping event in the signature of a missed-duty violation.
func (rn *run) probe(h *hctl, tag string) { // w.mu held
	w := rn.w
	for x, l := range w.hist[h.r] {
		F := l[len(l)-1]
		all := true
		for k := range F.Returned {
			if !w.ever[k.V] {
				continue
			}
			var present bool
			switch h.r {
			case rAtt:
				present = rn.store.Attester.ValidatorDuty(phase0.Epoch(x), phase0.Slot(k.Slot), k.V) != nil
			case rProp:
				present = rn.store.Proposer.ValidatorDuty(phase0.Epoch(x), phase0.Slot(k.Slot), k.V) != nil
			case rSync:
				present = rn.store.SyncCommittee.Duty(x, k.V) != nil
			}
			if !present {
				all = false
				break
			}
		}
		if was, known := rn.held[F]; !known {
			rn.held[F] = all
		} else if was && !all {
			rn.held[F] = false
			rel := "while-current"
			if cur := rn.xOf(h.r, rn.net.now.Load()); x > cur {
				rel = "while-upcoming"
			} else if x < cur {
				rel = "while-past"
			}
			rn.dropped[F] = cause{w.curEvent, tag, rel}
		}
	}
}

// noticesBefore: the distinct kinds of notices delivered to h between its previous tick and the tick of event ev (what the
// handler's per-tick flags can still remember), sorted and joined by "+".
func noticesBefore(h *hctl, ev int) string {
	set := map[string]bool{}
	for _, c := range h.causes {
		if c.Event >= ev {
			break
		}
		switch c.Tag {
		case "tick", "late-tick":
			set = map[string]bool{}
		case "fetch-fail":
		default:
			set[c.Tag] = true
		}
	}
	if len(set) == 0 {
		return "nothing"
	}
	var ks []string
	for k := range set {
		ks = append(ks, k)
	}
	sort.Strings(ks)
	return strings.Join(ks, "+")
}

// whyMissed names, for the signature, the event that made the store drop fetch F and whether a re-fetch failed since.
func (rn *run) whyMissed(h *hctl, F *fetchRec) string { // w.mu held
	d, ok := rn.dropped[F]
	if !ok {
		// no drop at all: whatever the last fetch returned is (as far as the probe saw) still in the store at this tick
		if rn.held[F] {
			return "still-stored"
		}
		return "never-stored-completely"
	}
	refetch := ":not-refetched"
	for _, c := range h.causes {
		if c.Event >= d.Event && c.Tag == "fetch-fail" {
			refetch = ":refetch-failed"
		}
	}
	within := d.Tag == "tick" && d.Event == rn.w.curEvent // dropped and missed within one tick: discarded before being executed
	if rn.sched != nil {
		// scheduler lane: coarse and stable (what HandleHeadEvent tells the handlers is not the harness's doing)
		if within {
			return "assignment-dropped-within-the-tick-of-the-duty" + refetch
		}
		return "assignment-dropped-before-replacement" + refetch
	}
	tag := d.Tag
	if tag == "tick" {
		tag = "tick-after-" + noticesBefore(h, d.Event)
		if within {
			tag = "this-" + tag
		}
	} else if tag == "late-tick" {
		tag = "late-tick-after-" + noticesBefore(h, d.Event)
	}
	return "dropped-" + d.Rel + "-at-" + tag + refetch
}

func (rn *run) deliverTick(h *hctl, s uint64) {
	if rn.dead {
		return
	}
	now := rn.net.now.Load()
	onTime := now == s
	w := rn.w
	w.mu.Lock()
	var obl []obligation
	var bnDuties int
	if onTime {
		obl, bnDuties = rn.expected(h.r, s)
	}
	failBefore := w.nFetchFail[h.r]
	w.mu.Unlock()
	line := fmt.Sprintf("tick %s slot %d", roleName[h.r], s)
	if !onTime {
		line += fmt.Sprintf(" LATE (clock at %d)", now)
	}
	rn.begin(evTick, h.r, s, onTime, line)
	if !onTime {
		rn.addCause(h, "late-tick")
	} else {
		rn.addCause(h, "tick")
	}
	h.lastTick = int64(now)
	h.tk.slot.Store(s)
	if !sendTick(h.tk.ch) {
		rn.stuck(h, "a tick")
		return
	}
	if !rn.barrier(h) {
		return
	}
	w.mu.Lock()
	defer w.mu.Unlock()
	rn.cnt["ticks_"+roleName[h.r]]++
	if onTime {
		rn.probe(h, "tick")
	} else {
		rn.probe(h, "late-tick")
	}
	if w.nFetchFail[h.r] > failBefore {
		h.causes = append(h.causes, cause{Event: w.curEvent, Tag: "fetch-fail"})
		rn.anomalies++
	}
	if !onTime {
		rn.cnt["ticks_late"]++
		return
	}
	rn.cnt["bn_duties_at_ticks"] += int64(bnDuties)
	rn.cnt["obligations"] += int64(len(obl))
	for _, o := range obl {
		n := rn.inEvent[o.Key]
		if n == 1 {
			rn.cnt["obligations_met"]++
			continue
		}
		if n > 1 {
			continue // reported by (a)
		}
		ahead := "fetched-in-its-epoch"
		if o.F.X > rn.xOf(h.r, o.F.Now) {
			ahead = "fetched-ahead"
		}
		sig := fmt.Sprintf("%s:%s:%s", roleName[h.r], ahead, rn.whyMissed(h, o.F))
		if rn.sched != nil {
			sig = fmt.Sprintf("%s:%s", roleName[h.r], rn.whyMissed(h, o.F))
		}
		rn.violation("missed-duty", sig,
			fmt.Sprintf("%s duty of active validator %d for slot %d was not dispatched at the tick of slot %d (event #%d) although the %s assignment of epoch/period %d "+
				"(version %d, still the beacon node's current one) had been fetched successfully in event #%d for that validator",
				o.Key.T.String(), o.Key.V, s, s, w.curEvent, roleName[h.r], o.F.X, o.F.Ver, o.F.Event))
	}
}

// position classifies where a notice reaches handler h relative to its tick of the current clock slot.
func (rn *run) position(h *hctl, kind string) string {
	now := rn.net.now.Load()
	rel := "before_tick"
	if h.lastTick == int64(now) {
		rel = "after_tick"
	}
	where := "mid"
	switch now % rn.p.SPE {
	case 0:
		where = "first"
	case rn.p.SPE - 1:
		where = "last"
	}
	return fmt.Sprintf("pos_%s_%s_%s_slot_of_epoch", kind, rel, where)
}

func (rn *run) deliverReorg(h *hctl) {
	if rn.dead || len(h.pReorg) == 0 {
		return
	}
	pr := h.pReorg[0]
	h.pReorg = h.pReorg[1:]
	ev := pr.ev
	kind := "current"
	if ev.Previous {
		kind = "previous"
	}
	now := rn.net.now.Load()
	stale := uint64(ev.Slot) != now
	line := fmt.Sprintf("reorg-notice %s %s slot %d", roleName[h.r], kind, ev.Slot)
	tag := "reorg-" + kind
	if stale {
		line += fmt.Sprintf(" STALE (clock at %d)", now)
		tag = "stale-" + tag
	}
	rn.begin(evReorgN, h.r, uint64(ev.Slot), false, line)
	rn.addCause(h, tag)
	if !sendReorg(h.reorg, ev) {
		rn.stuck(h, "a reorg notice")
		return
	}
	if !rn.barrier(h) {
		return
	}
	rn.w.mu.Lock()
	rn.probe(h, tag)
	rn.cnt["reorg_notices_"+kind]++
	rn.cnt[rn.position(h, "reorg_"+kind)]++
	if stale {
		rn.cnt["reorg_notices_stale"]++
	}
	rn.anomalies++
	rn.w.mu.Unlock()
}

func (rn *run) deliverIdx(h *hctl) {
	if rn.dead || h.pIdx == 0 {
		return
	}
	h.pIdx--
	rn.begin(evIdxN, h.r, rn.net.now.Load(), false, fmt.Sprintf("index-notice %s", roleName[h.r]))
	rn.addCause(h, "index-notice")
	if !sendIdx(h.idx) {
		rn.stuck(h, "an index-change notice")
		return
	}
	if !rn.barrier(h) {
		return
	}
	rn.w.mu.Lock()
	rn.probe(h, "index-notice")
	rn.cnt["index_notices"]++
	rn.cnt[rn.position(h, "index")]++
	rn.anomalies++
	rn.w.mu.Unlock()
}

// deliverPending hands pending notices to the handlers (all of them if force).
func (rn *run) deliverPending(force bool, p float64) {
	for _, i := range rn.rng.Perm(3) {
		h := rn.hs[i]
		for len(h.pReorg) > 0 || h.pIdx > 0 {
			if !force && rn.rng.Float64() >= p {
				break
			}
			// the two channels are independent: either head may go first
			if len(h.pReorg) > 0 && (h.pIdx == 0 || rn.rng.Intn(2) == 0) {
				rn.deliverReorg(h)
			} else {
				rn.deliverIdx(h)
			}
			if rn.dead {
				return
			}
		}
	}
}

// ---- world events --------------------------------------------------------------------------------------------

func (rn *run) worldReorg(mode int) { // mode: -1 random, 0 current root only, 1 previous root too
	w := rn.w
	now := rn.net.now.Load()
	e, p := rn.net.epochOf(now), rn.net.periodOf(now)
	deep := rn.rng.Intn(2) == 0
	if mode >= 0 {
		deep = mode == 1
	}
	both := rn.rng.Intn(2) == 0
	syncToo := rn.rng.Intn(2) == 0
	var line string
	w.mu.Lock()
	w.ver[rAtt][e+1]++
	w.ver[rProp][e]++
	if deep {
		w.ver[rAtt][e]++
	}
	if syncToo {
		w.ver[rSync][p+1]++
	}
	w.mu.Unlock()
	var notices []duties.ReorgEvent
	if deep {
		line = fmt.Sprintf("REORG previous dependent root changed at slot %d: new attester assignment for epochs %d,%d, proposer %d", now, e, e+1, e)
		notices = append(notices, duties.ReorgEvent{Slot: phase0.Slot(now), Previous: true})
		if both {
			notices = append(notices, duties.ReorgEvent{Slot: phase0.Slot(now), Current: true})
			line += " (previous + current notices)"
		} else {
			line += " (previous notice only)"
		}
	} else {
		line = fmt.Sprintf("REORG current dependent root changed at slot %d: new attester assignment for epoch %d, proposer %d", now, e+1, e)
		notices = append(notices, duties.ReorgEvent{Slot: phase0.Slot(now), Current: true})
	}
	if syncToo {
		line += fmt.Sprintf(", new sync-committee assignment for period %d", p+1)
	}
	if sc := rn.sched; sc != nil {
		// scheduler lane: the chain's dependent roots change; what the handlers are told is HandleHeadEvent's business
		sc.rver[e-1]++
		if deep {
			sc.rver[e-2]++
		}
		line = strings.Split(line, " (")[0]
		rn.begin(evWorld, 0, now, false, line)
	} else {
		rn.begin(evWorld, 0, now, false, line)
		for _, h := range rn.hs {
			for _, n := range notices {
				h.pReorg = append(h.pReorg, pendingReorg{n, e})
			}
		}
	}
	w.mu.Lock()
	rn.cnt["world_reorgs"]++
	w.mu.Unlock()
}

func (rn *run) worldSetChange(scripted bool) {
	w := rn.w
	w.mu.Lock()
	var on, off []phase0.ValidatorIndex
	for _, v := range w.own {
		if w.active[v] {
			on = append(on, v)
		} else {
			off = append(off, v)
		}
	}
	line := "SET-CHANGE spurious (no change)"
	add := len(off) > 0 && (len(on) == 0 || rn.rng.Intn(2) == 0)
	switch {
	case !scripted && rn.rng.Intn(10) == 0:
	case add:
		v := off[rn.rng.Intn(len(off))]
		w.active[v], w.ever[v] = true, true
		w.activeSince[v] = w.curEvent + 1
		line = fmt.Sprintf("SET-CHANGE validator %d becomes active", v)
	case len(on) > 0:
		v := on[rn.rng.Intn(len(on))]
		w.active[v] = false
		line = fmt.Sprintf("SET-CHANGE validator %d removed", v)
	}
	notify := scripted || rn.rng.Intn(100) < 85
	if !notify {
		line += " (no notice)"
	}
	rn.cnt["world_set_changes"]++
	w.mu.Unlock()
	rn.begin(evWorld, 0, rn.net.now.Load(), false, line)
	if notify && rn.sched != nil {
		rn.sched.pIdx++
	} else if notify {
		for _, h := range rn.hs {
			h.pIdx++
		}
	}
}

func (rn *run) worldArmFail(r role, k int) {
	rn.w.mu.Lock()
	rn.w.fail[r] = k
	rn.cnt["fetch_failures_armed"] += int64(k)
	rn.w.mu.Unlock()
	rn.begin(evWorld, 0, rn.net.now.Load(), false, fmt.Sprintf("ARM-FAIL next %d %s fetches fail", k, roleName[r]))
}

func (rn *run) scripted(pl *plan) {
	switch pl.Kind {
	case "reorg-previous":
		rn.worldReorg(1)
	case "reorg-current":
		rn.worldReorg(0)
	default:
		rn.worldSetChange(true)
	}
	rn.deliverPending(true, 1)
	if pl.Fail > 0 {
		for r := rAtt; r <= rSync; r++ {
			rn.worldArmFail(r, pl.Fail)
		}
	}
}

// ---- one case ------------------------------------------------------------------------------------------------

func runHandlers(c *evid.Case) {
	rng := c.Rng
	p := genParams(rng, c.Index)
	net := &vnet{spe: p.SPE, epp: p.EPP, far: time.Now().Add(24 * time.Hour)}
	w := newWorld(rng.Uint64(), net)
	w.own, w.foreign = p.Own, p.Foreign
	for _, v := range p.InitiallyActive {
		w.active[v], w.ever[v] = true, true
	}
	rn := &run{c: c, rng: rng, p: p, w: w, net: net, seen: map[dispKey]int{}, inEvent: map[dispKey]int{}, reported: map[string]bool{}, cnt: map[string]int64{},
		held: map[*fetchRec]bool{}, dropped: map[*fetchRec]cause{}}
	w.note = func(s string) { rn.log = append(rn.log, "      "+s) }
	c.Journal("handlers case %d params %+v", c.Index, p)

	ctx, cancel := context.WithCancel(context.Background())
	defer cancel()
	store := dutystore.New()
	rn.store = store
	hh := [3]handler{duties.NewAttesterHandler(store.Attester), duties.NewProposerHandler(store.Proposer), duties.NewSyncCommitteeHandler(store.SyncCommittee)}
	netCfg := networkconfig.NetworkConfig{Name: "c16-virtual", Beacon: net}
	bn, vc := &fakeBN{w}, &fakeVC{w}
	logger := zap.NewNop()
	for i := range hh {
		r := role(i)
		h := &hctl{r: r, h: hh[i], tk: &hTicker{ch: make(chan time.Time)}, reorg: make(chan duties.ReorgEvent), idx: make(chan struct{}), done: make(chan struct{}), late: -1, lastTick: -1}
		rn.hs[i] = h
		h.h.Setup(h.h.Name(), logger, bn, nil, netCfg, vc, func(_ *zap.Logger, ds []*spectypes.Duty) { rn.onDispatch(r, ds) },
			func() slotticker.SlotTicker { return h.tk }, h.reorg, h.idx)
	}

	// start-up like Scheduler.Start: initial duties (blocking), then the handler loop; the clock is in the slot before the first tick
	if p.Start > 0 {
		net.now.Store(p.Start - 1)
	}
	rn.begin(evInit, 0, net.now.Load(), false, fmt.Sprintf("INIT clock at slot %d (epoch %d, period %d), active %s", net.now.Load(), net.epochOf(net.now.Load()), net.periodOf(net.now.Load()), fmtIdx(p.InitiallyActive)))
	for _, h := range rn.hs {
		h.h.HandleInitialDuties(ctx)
	}
	for _, h := range rn.hs {
		h := h
		go func() { defer close(h.done); h.h.HandleDuties(ctx) }()
		if !rn.barrier(h) {
			return
		}
	}

	type item struct {
		kind int // 0 tick, 1 late tick from the previous slot, 2 reorg, 3 set change, 4 arm failure
		h    *hctl
		slot uint64
	}
	for s := p.Start; s < p.End && !rn.dead; s++ {
		net.now.Store(s)
		rn.begin(evWorld, 0, s, false, fmt.Sprintf("CLOCK slot %d (epoch %d slot-in-epoch %d, period %d)", s, net.epochOf(s), s%p.SPE, net.periodOf(s)))
		var items []item
		for _, h := range rn.hs {
			if h.late >= 0 {
				// the real ticker skips the slot that began while the handler was busy with the late tick
				items = append(items, item{1, h, uint64(h.late)})
				h.late = -1
				continue
			}
			items = append(items, item{0, h, s})
		}
		if rng.Float64() < p.PReorg {
			items = append(items, item{kind: 2})
			if rng.Intn(5) == 0 {
				items = append(items, item{kind: 2})
			}
		}
		if rng.Float64() < p.PSet {
			items = append(items, item{kind: 3})
		}
		if rng.Float64() < p.PFail {
			items = append(items, item{kind: 4})
		}
		rng.Shuffle(len(items), func(i, j int) { items[i], items[j] = items[j], items[i] })
		if p.Plan != nil && p.Plan.Slot == s && !p.Plan.AfterTick {
			rn.scripted(p.Plan)
		}
		rn.deliverPending(false, 0.5) // notices carried over from the previous slot may arrive before anything else
		for _, it := range items {
			switch it.kind {
			case 0:
				if p.Late && s+1 < p.End && (s+1)%p.SPE != 0 && rng.Intn(10) == 0 {
					it.h.late = int64(s)
				} else {
					rn.deliverTick(it.h, s)
				}
			case 1:
				rn.deliverTick(it.h, it.slot)
			case 2:
				rn.worldReorg(-1)
			case 3:
				rn.worldSetChange(false)
			case 4:
				rn.worldArmFail(role(rng.Intn(3)), 1+rng.Intn(3))
			}
			rn.deliverPending(false, 0.6)
			if rn.dead {
				break
			}
		}
		if p.Plan != nil && p.Plan.Slot == s && p.Plan.AfterTick {
			rn.scripted(p.Plan)
		}
		// end of the slot: the remaining notices are delivered now, unless this case lets some of them cross the clock advance
		if !(p.AllowStale && rng.Intn(4) == 0) {
			rn.deliverPending(true, 1)
		}
	}
	if !rn.dead {
		rn.deliverPending(true, 1)
	}
	cancel()
	if !rn.dead {
		for _, h := range rn.hs {
			select {
			case <-h.done:
			case <-time.After(watchdog):
				c.Inconclusive(fmt.Sprintf("%s handler did not stop after its context was cancelled", roleName[h.r]))
			}
		}
	}

	w.mu.Lock()
	defer w.mu.Unlock()
	var dispatched int64
	for _, n := range rn.seen {
		dispatched += int64(n)
	}
	for k, v := range rn.cnt {
		c.Count(k, v)
	}
	for r := 0; r < 3; r++ {
		c.Count("fetches_"+roleName[r], w.nFetch[r])
		c.Count("fetch_failures_consumed_"+roleName[r], w.nFetchFail[r])
	}
	c.Count("events", int64(w.curEvent))
	if p.Plan != nil {
		c.Count("scripted_cases", 1)
	}
	c.Count("duties_dispatched", dispatched)
	c.Max("max_events_per_case", int64(w.curEvent))
	if rn.dead {
		return
	}
	hsh := evid.Hash(strings.Join(rn.seq, "\n"), fmt.Sprint(p))
	c.Distinct("event_interleavings", hsh)
	if rn.anomalies > 0 && dispatched > 0 {
		c.Nontrivial(hsh)
	} else {
		c.Count("trivial_cases", 1)
	}
	if c.Idx == 0 && c.Index < 2 {
		lg := rn.log
		if len(lg) > 120 {
			lg = lg[:120]
		}
		c.Sample(map[string]any{"params": p, "log_head": append([]string(nil), lg...)})
	}
}
