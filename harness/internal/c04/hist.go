package c04

import (
	"fmt"
	"math/rand"
	"os"

	"github.com/attestantio/go-eth2-client/spec/phase0"
	spectypes "github.com/bloxapp/ssv-spec/types"
	ssz "github.com/ferranbt/fastssz"
	"github.com/herumi/bls-eth-go-binary/bls"

	"verifharness/internal/evid"
)

// blankFault (opt-in, C04_FAULT_BLANK=1): additionally blank the value of a protection record (a record that
// exists but cannot be decoded). Not part of the default alphabet: badger does not produce such a record by itself.
var blankFault = os.Getenv("C04_FAULT_BLANK") != "0" // on by default since the fix: commit 6c3e51a83 (an unreadable record must be refused)

type histParams struct {
	nShares      int
	nOps         int
	onDisk       bool
	randomFaults bool // random crash / read-error / record-deletion operations in the alphabet
	crashAbs     int  // crash at this absolute storage operation (enumeration lane); 0 = none
	crashAfter   bool
	tag          string
	lane         string
}

type histResult struct {
	storageOps       int
	loopStorageOps   int // storage operations up to the end of the generated history (before the final audit)
	released         int
	refused          int
	conflictAttempts int // requests that would be slashable against an already released signature
	conflictAcross   int // ... and a restart / remove / add / crash / reactivation lies between the two
	disruptions      int // restart / remove / add / crash / reactivation
	crashes          []crashInfo
	shape            []any
	ops              []opRec
	err              string
}

type attReq struct {
	s, t phase0.Epoch
	salt uint64
	why  string
}

type blkReq struct {
	slot phase0.Slot
	kind string
	salt uint64
	why  string
}

// saltOf remembers the salt of released data so that byte-identical data can be requested again.
type relMeta struct {
	attSalt map[[32]byte]uint64
	blkSalt map[[32]byte]uint64
	blkKind map[[32]byte]string
}

func pickW(rng *rand.Rand, w []int) int {
	tot := 0
	for _, x := range w {
		tot += x
	}
	if tot == 0 {
		return 0
	}
	r := rng.Intn(tot)
	for i, x := range w {
		if r < x {
			return i
		}
		r -= x
	}
	return len(w) - 1
}

// genAtt picks an attestation adversarially around the stored mark and the released signatures
// (source < target <= current epoch always holds).
func genAtt(rng *rand.Rand, w *world, sh *share, meta *relMeta) attReq {
	E := w.clk.epoch()
	ms, mt, present := w.rawAtt(sh)
	salt := rng.Uint64() | 1
	duty := func(why string) attReq {
		s := E - 1 - phase0.Epoch(rng.Intn(2))
		if present && ms > s && ms < E && rng.Intn(2) == 0 {
			s = ms // justified checkpoint does not move backwards in real duties
		}
		return attReq{s, E, salt, why}
	}
	ok := func(r attReq) bool { return r.s < r.t && r.t <= E }
	var rel *attRel
	if n := len(sh.atts); n > 0 {
		if rng.Intn(3) != 0 {
			rel = &sh.atts[n-1]
		} else {
			rel = &sh.atts[rng.Intn(n)]
		}
	}
	var r attReq
	switch pickW(rng, []int{22, 16, 6, 10, 10, 8, 8, 9, 11, 9}) {
	case 0:
		return duty("duty")
	case 9: // a wide but legal vote (source = stored source mark): later requests can be surrounded by it
		if !present || ms >= E {
			return duty("duty")
		}
		r = attReq{ms, E, salt, "wide"}
	case 1:
		if rel == nil {
			return duty("duty")
		}
		r = attReq{rel.Source, rel.Target, salt, "same-target-other-root"}
		if rng.Intn(3) == 0 && rel.Source > 0 {
			r.s = rel.Source - 1
			r.why = "same-target-lower-source"
		}
	case 2:
		if rel == nil {
			return duty("duty")
		}
		r = attReq{rel.Source, rel.Target, meta.attSalt[rel.full], "identical-resign"}
	case 3:
		if rel == nil {
			return duty("duty")
		}
		r = attReq{rel.Source - 1 - phase0.Epoch(rng.Intn(2)), rel.Target + 1 + phase0.Epoch(rng.Intn(2)), salt, "surrounding"}
		if !ok(r) {
			r = attReq{rel.Source - 1, E, salt, "surrounding"}
		}
	case 4:
		if rel == nil {
			return duty("duty")
		}
		r = attReq{rel.Source + 1, rel.Target - 1, salt, "surrounded"}
	case 5:
		if !present {
			return duty("duty")
		}
		r = attReq{ms - 1 - phase0.Epoch(rng.Intn(2)), E, salt, "lower-source"}
		if rng.Intn(2) == 0 {
			r.t = mt + 1
		}
	case 6:
		if !present {
			return duty("duty")
		}
		r = attReq{ms, mt, salt, "at-mark"}
	case 7:
		if !present {
			return duty("duty")
		}
		r = attReq{ms, mt + 1, salt, "one-above-mark"}
		if rng.Intn(2) == 0 {
			r.s = ms + 1
		}
	default:
		t := E - phase0.Epoch(rng.Intn(5))
		r = attReq{t - 1 - phase0.Epoch(rng.Intn(4)), t, salt, "window"}
	}
	if !ok(r) {
		return duty("duty")
	}
	return r
}

func genBlk(rng *rand.Rand, w *world, sh *share, meta *relMeta) blkReq {
	S := w.clk.EstimatedCurrentSlot()
	mp, present := w.rawProp(sh)
	salt := rng.Uint64() | 1
	kind := blockKinds[rng.Intn(len(blockKinds))]
	if !w.builder && rng.Intn(4) != 0 {
		kind = blockKinds[rng.Intn(2)]
	}
	duty := func() blkReq { return blkReq{S, kind, salt, "duty"} }
	ok := func(r blkReq) bool { return r.slot >= 1 && r.slot <= S }
	var rel *blkRel
	if n := len(sh.blks); n > 0 {
		if rng.Intn(3) != 0 {
			rel = &sh.blks[n-1]
		} else {
			rel = &sh.blks[rng.Intn(n)]
		}
	}
	var r blkReq
	switch pickW(rng, []int{28, 22, 6, 12, 10, 10, 12}) {
	case 0:
		return duty()
	case 1:
		if rel == nil {
			return duty()
		}
		r = blkReq{rel.Slot, kind, salt, "same-slot-other-root"}
	case 2:
		if rel == nil {
			return duty()
		}
		r = blkReq{rel.Slot, meta.blkKind[rel.full], meta.blkSalt[rel.full], "identical-resign"}
	case 3:
		if rel != nil && rng.Intn(2) == 0 {
			r = blkReq{rel.Slot - 1 - phase0.Slot(rng.Intn(3)), kind, salt, "lower-slot"}
		} else if present {
			r = blkReq{mp - 1 - phase0.Slot(rng.Intn(3)), kind, salt, "lower-slot"}
		} else {
			return duty()
		}
	case 4:
		if !present {
			return duty()
		}
		r = blkReq{mp, kind, salt, "at-mark"}
	case 5:
		if !present {
			return duty()
		}
		r = blkReq{mp + 1, kind, salt, "one-above-mark"}
	default:
		r = blkReq{S - phase0.Slot(rng.Intn(6)), kind, salt, "window"}
	}
	if !ok(r) {
		return duty()
	}
	return r
}

// verifySig: the released signature really is over the data the monitor recorded (monitor soundness).
func verifySig(sh *share, obj ssz.HashRoot, dom phase0.Domain, sig []byte) bool {
	root, err := spectypes.ComputeETHSigningRoot(obj, dom)
	if err != nil {
		return false
	}
	var s bls.Sign
	if err := s.Deserialize(sig); err != nil {
		return false
	}
	return s.VerifyByte(sh.sk.GetPublicKey(), root[:])
}

type runner struct {
	w    *world
	c    *evid.Case
	rng  *rand.Rand
	p    histParams
	res  *histResult
	meta *relMeta
	seq  int
}

func (r *runner) viol(kind, sig, detail string, extra map[string]any) {
	if r.w.violated {
		return
	}
	r.w.violated = true
	wit := map[string]any{"history": r.w.hist, "builder_proposals": r.w.builder, "on_disk": r.w.onDisk,
		"crash_abs": r.p.crashAbs, "crash_after": r.p.crashAfter}
	for i, sh := range r.w.shares {
		wit[fmt.Sprintf("share%d_released_attestations", i)] = sh.atts
		wit[fmt.Sprintf("share%d_released_blocks", i)] = sh.blks
	}
	for k, v := range extra {
		wit[k] = v
	}
	r.c.Violation(kind, sig, detail, wit)
}

func (r *runner) rec(op string, sh int, arg, result string) {
	r.w.hist = append(r.w.hist, opRec{I: r.seq, Op: op, Share: sh, Arg: arg, Result: result, Slot: uint64(r.w.clk.EstimatedCurrentSlot())})
	r.res.shape = append(r.res.shape, op, result)
}

func (r *runner) life(sh int, what string) {
	r.w.life = append(r.w.life, lifeEvent{seq: r.seq, share: sh, what: what})
	if what != "liquidate" {
		r.res.disruptions++
	}
}

// recover after an injected crash: every object is dropped, the database survives.
func (r *runner) afterCrash(within string) bool {
	w := r.w
	ci := *w.fdb.fired
	w.fdb.fired = nil
	r.res.crashes = append(r.res.crashes, ci)
	r.c.Count("crash_points_fired", 1)
	ba := "before"
	if ci.After {
		ba = "after"
	}
	r.c.Count("crash_"+ba+"_"+ci.Op+"_"+ci.Class, 1)
	r.c.Distinct("crash_points", evid.Hash(within, ci.Op, ci.Class, ba))
	r.life(-1, "crash")
	w.km, w.sp = nil, nil
	w.fdb.disarm()
	w.fdb.mu.Lock()
	w.fdb.readErrAtt, w.fdb.readErrPro = false, false
	w.fdb.mu.Unlock()
	if err := w.reopenDisk(); err != nil {
		r.res.err = "reopen after crash: " + err.Error()
		return false
	}
	if err := w.newSigner(); err != nil {
		r.res.err = "restart after crash: " + err.Error()
		return false
	}
	return true
}

func (r *runner) doAdd(sh *share, replay bool) (crashed bool) {
	w := r.w
	var err error
	name := "add"
	if replay {
		name = "add(replayed)"
	}
	r.c.Count("op_add_share", 1)
	crashed = w.guarded("add", func() { err = w.km.AddShare(sh.sk) })
	switch {
	case crashed:
		r.rec(name, sh.idx, "", "crash")
	case err != nil:
		r.rec(name, sh.idx, "", "error")
		r.c.Count("add_share_errors", 1)
	default:
		sh.inNode, sh.liq = true, false
		r.rec(name, sh.idx, "", "ok")
		r.life(sh.idx, "add")
	}
	return
}

func (r *runner) doRemove(sh *share, replay bool) (crashed bool) {
	w := r.w
	var err error
	name := "remove"
	if replay {
		name = "remove(replayed)"
	}
	r.c.Count("op_remove_share", 1)
	crashed = w.guarded("remove", func() { err = w.km.RemoveShare(sh.pkHex) })
	switch {
	case crashed:
		r.rec(name, sh.idx, "", "crash")
	case err != nil:
		r.rec(name, sh.idx, "", "error")
		r.c.Count("remove_share_errors", 1)
	default:
		sh.inNode = false
		r.rec(name, sh.idx, "", "ok")
		r.life(sh.idx, "remove")
	}
	return
}

func (r *runner) doBump(sh *share, replay bool) (crashed bool) {
	w := r.w
	var err error
	name := "reactivate"
	if replay {
		name = "reactivate(replayed)"
	}
	r.c.Count("op_reactivate_bump", 1)
	crashed = w.guarded("reactivate", func() { err = w.sp.BumpSlashingProtection(sh.pk) })
	switch {
	case crashed:
		r.rec(name, sh.idx, "", "crash")
	case err != nil:
		r.rec(name, sh.idx, "", "error")
		r.c.Count("bump_errors", 1)
	default:
		sh.liq = false
		r.rec(name, sh.idx, "", "ok")
		r.life(sh.idx, "reactivate")
	}
	return
}

func (r *runner) doRestart() (crashed bool) {
	w := r.w
	r.c.Count("op_restart", 1)
	var err error
	crashed = w.guarded("restart", func() {
		w.km, w.sp = nil, nil
		if w.onDisk && r.rng.Intn(3) != 0 {
			if err = w.reopenDisk(); err != nil {
				return
			}
			r.c.Count("disk_reopens", 1)
		}
		err = w.newSigner()
	})
	if crashed {
		r.rec("restart", -1, "", "crash")
		return
	}
	if err != nil {
		r.res.err = "restart: " + err.Error()
		return
	}
	r.rec("restart", -1, "", "ok")
	r.life(-1, "restart")
	return
}

func (r *runner) doSignAtt(sh *share, q attReq) (crashed bool) {
	w := r.w
	slot := w.clk.EstimatedCurrentSlot()
	if first := phase0.Slot(q.t) * 32; slot > first+31 {
		slot = first + phase0.Slot(q.salt%32)
	}
	data := mkAtt(slot, q.s, q.t, q.salt)
	root, err := data.HashTreeRoot()
	if err != nil {
		r.res.err = "hash attestation: " + err.Error()
		return
	}
	_, _, present := w.rawAtt(sh)
	w.fdb.mu.Lock()
	unreadable := w.fdb.readErrAtt || w.blank(attPrefix, sh)
	w.fdb.mu.Unlock()
	if j, k := attWouldConflict(sh.atts, q.s, q.t, root); j >= 0 {
		r.res.conflictAttempts++
		r.c.Count("conflicting_requests_"+k, 1)
		for _, o := range sh.atts {
			if attConflict(o.Source, o.Target, o.full, q.s, q.t, root) != "" && between(w.life, sh.idx, o.Seq, r.seq) != "none" {
				r.res.conflictAcross++
				r.c.Count("conflicting_requests_across_disruption", 1)
				break
			}
		}
	}
	r.c.Count("op_sign_attestation", 1)
	r.c.Count("att_req_"+q.why, 1)
	arg := fmt.Sprintf("att s=%d t=%d root=%s (%s)", q.s, q.t, short(root), q.why)
	var sig spectypes.Signature
	var serr, perr error
	pre := r.rng.Intn(2) == 0
	crashed = w.guarded("sign-att", func() {
		if pre { // the node's value check asks first
			perr = w.km.IsAttestationSlashable(sh.pk, data)
		}
		sig, _, serr = w.km.SignBeaconObject(data, w.domAtt, sh.pk, spectypes.DomainAttester)
	})
	if crashed {
		r.rec("sign-att", sh.idx, arg, "crash")
		return
	}
	if pre {
		if perr == nil {
			r.c.Count("precheck_att_not_slashable", 1)
		} else {
			r.c.Count("precheck_att_slashable_or_error", 1)
		}
	}
	if serr != nil || len(sig) == 0 {
		r.res.refused++
		cl := "empty-signature"
		if serr != nil {
			cl = refusalClass(serr)
		}
		r.c.Count("refused_att_"+cl, 1)
		r.rec("sign-att", sh.idx, arg, "refused:"+cl)
		return
	}
	// released
	r.res.released++
	r.c.Count("released_attestations", 1)
	r.rec("sign-att", sh.idx, arg, "SIGNED")
	if !present || unreadable {
		cause := "record-missing"
		if present {
			cause = "record-unreadable"
		}
		r.viol("signed-without-protection-record", "attestation/"+cause+"/last-event:"+lastEvent(w.life, sh.idx),
			fmt.Sprintf("share %d: attestation (source %d, target %d) was signed while the highest-attestation record was %s", sh.idx, q.s, q.t, cause), nil)
	}
	if j, k := attWouldConflict(sh.atts, q.s, q.t, root); j >= 0 {
		o := sh.atts[j]
		r.viol("slashable-attestation-"+k, fmt.Sprintf("%s/across:%s", k, between(w.life, sh.idx, o.Seq, r.seq)),
			fmt.Sprintf("share %d released attestation (source %d, target %d, root %s) at op %d and (source %d, target %d, root %s) at op %d: %s; between them: %s",
				sh.idx, o.Source, o.Target, o.Root, o.Seq, q.s, q.t, short(root), r.seq, k, between(w.life, sh.idx, o.Seq, r.seq)),
			map[string]any{"first": o, "second": attRel{Seq: r.seq, Source: q.s, Target: q.t, Root: short(root)}})
	}
	sh.atts = append(sh.atts, attRel{Seq: r.seq, Source: q.s, Target: q.t, Root: short(root), full: root})
	r.meta.attSalt[root] = q.salt
	if r.rng.Intn(8) == 0 {
		r.c.Count("signatures_verified", 1)
		if !verifySig(sh, data, w.domAtt, sig) {
			r.c.Inconclusive("a released attestation signature does not verify over the requested data under the share key: the monitor cannot attribute it")
		}
	}
	return
}

func (r *runner) doSignBlk(sh *share, q blkReq) (crashed bool) {
	w := r.w
	obj := mkBlock(q.kind, q.slot, q.salt)
	root, err := obj.HashTreeRoot()
	if err != nil {
		r.res.err = "hash block: " + err.Error()
		return
	}
	_, present := w.rawProp(sh)
	w.fdb.mu.Lock()
	unreadable := w.fdb.readErrPro || w.blank(propPrefix, sh)
	w.fdb.mu.Unlock()
	if j, k := blkWouldConflict(sh.blks, q.slot, root); j >= 0 {
		r.res.conflictAttempts++
		r.c.Count("conflicting_requests_"+k, 1)
		for _, o := range sh.blks {
			if blkConflict(o.Slot, o.full, q.slot, root) != "" && between(w.life, sh.idx, o.Seq, r.seq) != "none" {
				r.res.conflictAcross++
				r.c.Count("conflicting_requests_across_disruption", 1)
				break
			}
		}
	}
	r.c.Count("op_sign_block", 1)
	r.c.Count("blk_req_"+q.why, 1)
	r.c.Count("blk_kind_"+q.kind, 1)
	arg := fmt.Sprintf("%s block slot=%d root=%s (%s)", q.kind, q.slot, short(root), q.why)
	var sig spectypes.Signature
	var serr, perr error
	pre := r.rng.Intn(2) == 0
	crashed = w.guarded("sign-block", func() {
		if pre {
			perr = w.km.IsBeaconBlockSlashable(sh.pk, q.slot)
		}
		sig, _, serr = w.km.SignBeaconObject(obj, w.domProp, sh.pk, spectypes.DomainProposer)
	})
	if crashed {
		r.rec("sign-block", sh.idx, arg, "crash")
		return
	}
	if pre {
		if perr == nil {
			r.c.Count("precheck_block_not_slashable", 1)
		} else {
			r.c.Count("precheck_block_slashable_or_error", 1)
		}
	}
	if serr != nil || len(sig) == 0 {
		r.res.refused++
		cl := "empty-signature"
		if serr != nil {
			cl = refusalClass(serr)
		}
		r.c.Count("refused_blk_"+cl, 1)
		r.rec("sign-block", sh.idx, arg, "refused:"+cl)
		return
	}
	r.res.released++
	r.c.Count("released_blocks", 1)
	r.c.Count("released_blk_"+q.kind, 1)
	r.rec("sign-block", sh.idx, arg, "SIGNED")
	if !present || unreadable {
		cause := "record-missing"
		if present {
			cause = "record-unreadable"
		}
		r.viol("signed-without-protection-record", "block:"+q.kind+"/"+cause+"/last-event:"+lastEvent(w.life, sh.idx),
			fmt.Sprintf("share %d: %s block for slot %d was signed while the highest-proposal record was %s", sh.idx, q.kind, q.slot, cause), nil)
	}
	if j, k := blkWouldConflict(sh.blks, q.slot, root); j >= 0 {
		o := sh.blks[j]
		r.viol("slashable-"+k, fmt.Sprintf("%s:%s-then-%s/across:%s", k, o.Kind, q.kind, between(w.life, sh.idx, o.Seq, r.seq)),
			fmt.Sprintf("share %d released %s block (slot %d, root %s) at op %d and %s block (slot %d, root %s) at op %d; between them: %s",
				sh.idx, o.Kind, o.Slot, o.Root, o.Seq, q.kind, q.slot, short(root), r.seq, between(w.life, sh.idx, o.Seq, r.seq)),
			map[string]any{"first": o, "second": blkRel{Seq: r.seq, Slot: q.slot, Kind: q.kind, Root: short(root)}})
	}
	sh.blks = append(sh.blks, blkRel{Seq: r.seq, Slot: q.slot, Kind: q.kind, Root: short(root), full: root})
	r.meta.blkSalt[root] = q.salt
	r.meta.blkKind[root] = q.kind
	if r.rng.Intn(8) == 0 {
		r.c.Count("signatures_verified", 1)
		if !verifySig(sh, obj, w.domProp, sig) {
			r.c.Inconclusive("a released block signature does not verify over the requested data under the share key: the monitor cannot attribute it")
		}
	}
	return
}

// runHistory executes one seed-determined history against a fresh world and checks every release.
func runHistory(c *evid.Case, rng *rand.Rand, p histParams) *histResult {
	res := &histResult{}
	w, err := newWorld(c, rng, p.nShares, p.onDisk, p.tag)
	if err != nil {
		res.err = "world: " + err.Error()
		return res
	}
	defer w.close()
	r := &runner{w: w, c: c, rng: rng, p: p, res: res,
		meta: &relMeta{attSalt: map[[32]byte]uint64{}, blkSalt: map[[32]byte]uint64{}, blkKind: map[[32]byte]string{}}}
	res.shape = append(res.shape, p.nShares, w.builder, p.onDisk)
	if p.crashAbs > 0 {
		w.fdb.armAbs(p.crashAbs, p.crashAfter)
	}
	// node start
	if crashed := w.guarded("start", func() { err = w.newSigner() }); crashed {
		r.rec("start", -1, "", "crash")
		if !r.afterCrash("start") {
			return res
		}
	} else if err != nil {
		res.err = "start: " + err.Error()
		return res
	}

	readErrLeft, writeErrLeft := 0, 0
	// pending = lifecycle event whose handling crashed: the node replays the block after restart
	type pend struct {
		op string
		sh *share
	}
	var pending *pend
	handleCrash := func(op string, sh *share) bool {
		if !r.afterCrash(op) {
			return false
		}
		if (op == "add" || op == "remove" || op == "reactivate") && rng.Intn(8) != 0 {
			pending = &pend{op, sh}
		}
		return true
	}

	total := p.nOps
	for i := 0; i < total && res.err == "" && !w.violated; i++ {
		r.seq = i
		c.Journal("  op %d", i)
		if pending != nil {
			pe := pending
			pending = nil
			var crashed bool
			switch pe.op {
			case "add":
				crashed = r.doAdd(pe.sh, true)
			case "remove":
				crashed = r.doRemove(pe.sh, true)
			default:
				crashed = r.doBump(pe.sh, true)
			}
			if crashed && !handleCrash(pe.op, pe.sh) {
				break
			}
			continue
		}
		sh := w.shares[rng.Intn(len(w.shares))]
		// weights
		nIn := 0
		for _, s := range w.shares {
			if s.inNode {
				nIn++
			}
		}
		_, _, attPresent := w.rawAtt(sh)
		_, propPresent := w.rawProp(sh)
		wAdd, wRemove, wLiq, wReact := 0, 0, 0, 0
		if !sh.inNode {
			wAdd = 40
			if i < len(w.shares) {
				wAdd = 400 // the history starts with registrations
			}
		} else {
			wRemove = 6
			if sh.liq {
				wReact = 25
			} else {
				wLiq = 3
				wReact = 1
				if !attPresent || !propPresent {
					wReact = 10
				}
			}
		}
		wSignA, wSignB := 32, 20
		if sh.liq || !sh.inNode {
			wSignA, wSignB = 6, 4
		}
		if readErrLeft > 0 || writeErrLeft > 0 {
			wSignA, wSignB = 120, 80
		}
		wCrash, wReadErr, wDelete, wBlank, wWriteErr := 0, 0, 0, 0, 0
		if p.randomFaults {
			wCrash, wReadErr, wDelete, wWriteErr = 7, 3, 2, 3
			if blankFault {
				wBlank = 3
			}
			if !sh.inNode {
				wDelete, wBlank = 0, 0
			}
		}
		op := pickW(rng, []int{wSignA, wSignB, 20, wAdd, wRemove, wLiq, wReact, 6, wCrash, wReadErr, wDelete, wBlank, wWriteErr})
		var crashed bool
		var opName string
		switch op {
		case 0:
			opName = "sign-att"
			crashed = r.doSignAtt(sh, genAtt(rng, w, sh, r.meta))
		case 1:
			opName = "sign-block"
			crashed = r.doSignBlk(sh, genBlk(rng, w, sh, r.meta))
		case 2:
			var d uint64
			switch rng.Intn(10) {
			case 0, 1, 2:
				d = 1
			case 3, 4, 5, 6:
				d = uint64(1 + rng.Intn(32))
			default:
				d = uint64(32 * (1 + rng.Intn(3)))
			}
			w.clk.advance(d)
			c.Count("op_advance_clock", 1)
			r.rec("advance", -1, fmt.Sprintf("+%d slots", d), fmt.Sprintf("epoch %d", w.clk.epoch()))
		case 3:
			opName = "add"
			crashed = r.doAdd(sh, false)
		case 4:
			opName = "remove"
			crashed = r.doRemove(sh, false)
		case 5:
			sh.liq = true
			c.Count("op_liquidate", 1)
			r.rec("liquidate", sh.idx, "", "ok")
			r.life(sh.idx, "liquidate")
		case 6:
			opName = "reactivate"
			crashed = r.doBump(sh, false)
		case 7:
			opName = "restart"
			crashed = r.doRestart()
		case 8:
			k := 1 + rng.Intn(10)
			after := rng.Intn(2) == 0
			w.fdb.arm(k, after)
			c.Count("op_arm_crash", 1)
			r.rec("arm-crash", -1, fmt.Sprintf("k=+%d after=%v", k, after), "")
		case 9:
			w.fdb.mu.Lock()
			switch rng.Intn(3) {
			case 0:
				w.fdb.readErrAtt = true
			case 1:
				w.fdb.readErrPro = true
			default:
				w.fdb.readErrAtt, w.fdb.readErrPro = true, true
			}
			w.fdb.errFound = rng.Intn(2) == 0
			arg := fmt.Sprintf("att=%v prop=%v found=%v", w.fdb.readErrAtt, w.fdb.readErrPro, w.fdb.errFound)
			w.fdb.mu.Unlock()
			readErrLeft = 2 + rng.Intn(3)
			c.Count("op_read_error_on", 1)
			r.rec("read-error-on", -1, arg, "")
		case 10:
			which := rng.Intn(3)
			if which != 1 {
				_ = w.inner.Delete(w.netPrefix(attPrefix), sh.pk)
			}
			if which != 0 {
				_ = w.inner.Delete(w.netPrefix(propPrefix), sh.pk)
			}
			c.Count("op_delete_record_behind_back", 1)
			r.rec("delete-record", sh.idx, []string{"att", "prop", "both"}[which], "")
			r.life(sh.idx, "record-deleted")
		case 11:
			which := rng.Intn(3)
			if _, _, ok := w.rawAtt(sh); ok && which != 1 {
				_ = w.inner.Set(w.netPrefix(attPrefix), sh.pk, []byte{})
			}
			if _, ok := w.rawProp(sh); ok && which != 0 {
				_ = w.inner.Set(w.netPrefix(propPrefix), sh.pk, []byte{})
			}
			c.Count("op_blank_record", 1)
			r.rec("blank-record", sh.idx, []string{"att", "prop", "both"}[which], "")
			r.life(sh.idx, "record-blanked")
		case 12:
			// the WRITE of the protection record fails (disk full, IO error): the signature must not be released, and the
			// history goes on in the same process with conflicting requests
			w.fdb.mu.Lock()
			switch rng.Intn(3) {
			case 0:
				w.fdb.writeErrAtt = true
			case 1:
				w.fdb.writeErrPro = true
			default:
				w.fdb.writeErrAtt, w.fdb.writeErrPro = true, true
			}
			arg := fmt.Sprintf("att=%v prop=%v", w.fdb.writeErrAtt, w.fdb.writeErrPro)
			w.fdb.mu.Unlock()
			writeErrLeft = 1 + rng.Intn(3)
			c.Count("op_write_error_on", 1)
			r.rec("write-error-on", -1, arg, "")
		}
		if crashed {
			if !handleCrash(opName, sh) {
				break
			}
		}
		if writeErrLeft > 0 && op != 12 {
			writeErrLeft--
			if writeErrLeft == 0 {
				w.fdb.mu.Lock()
				w.fdb.writeErrAtt, w.fdb.writeErrPro = false, false
				w.fdb.mu.Unlock()
				r.rec("write-error-off", -1, "", "")
			}
		}
		if readErrLeft > 0 && op != 9 {
			readErrLeft--
			if readErrLeft == 0 {
				w.fdb.mu.Lock()
				w.fdb.readErrAtt, w.fdb.readErrPro = false, false
				w.fdb.mu.Unlock()
				r.rec("read-error-off", -1, "", "")
			}
		}
	}

	res.loopStorageOps = w.fdb.ops()
	// final audit: restart once more and ask for data conflicting with the last releases of every share
	if res.err == "" && !w.violated {
		w.fdb.disarm()
		w.fdb.mu.Lock()
		w.fdb.readErrAtt, w.fdb.readErrPro = false, false
		w.fdb.mu.Unlock()
		r.seq = total
		if !r.doRestart() && res.err == "" {
			for _, sh := range w.shares {
				if w.violated {
					break
				}
				r.seq++
				if n := len(sh.atts); n > 0 {
					l := sh.atts[n-1]
					r.doSignAtt(sh, attReq{l.Source, l.Target, rng.Uint64() | 1, "audit-same-target"})
					if l.Source > 0 && l.Target+1 <= w.clk.epoch() && !w.violated {
						r.seq++
						r.doSignAtt(sh, attReq{l.Source - 1, l.Target + 1, rng.Uint64() | 1, "audit-surrounding"})
					}
				}
				if n := len(sh.blks); n > 0 && !w.violated {
					r.seq++
					l := sh.blks[n-1]
					r.doSignBlk(sh, blkReq{l.Slot, blockKinds[rng.Intn(4)], rng.Uint64() | 1, "audit-same-slot"})
				}
			}
		}
	}
	res.storageOps = w.fdb.ops()
	res.ops = w.hist
	w.fdb.mu.Lock()
	c.Count("injected_read_errors_hit", int64(w.fdb.readErrHit))
	w.fdb.mu.Unlock()
	return res
}
