package c04

import (
	"encoding/binary"
	"encoding/hex"
	"errors"
	"fmt"
	"math/rand"
	"os"
	"path/filepath"
	"strings"
	"sync"
	"sync/atomic"

	apiv1capella "github.com/attestantio/go-eth2-client/api/v1/capella"
	apiv1deneb "github.com/attestantio/go-eth2-client/api/v1/deneb"
	"github.com/attestantio/go-eth2-client/spec/capella"
	"github.com/attestantio/go-eth2-client/spec/deneb"
	"github.com/attestantio/go-eth2-client/spec/phase0"
	spectypes "github.com/bloxapp/ssv-spec/types"
	"github.com/bloxapp/ssv-spec/types/testingutils"
	ssz "github.com/ferranbt/fastssz"
	"github.com/herumi/bls-eth-go-binary/bls"
	"go.uber.org/zap"

	"github.com/bloxapp/ssv/ekm"
	"github.com/bloxapp/ssv/networkconfig"
	"github.com/bloxapp/ssv/protocol/v2/blockchain/beacon"
	"github.com/bloxapp/ssv/storage/basedb"
	"github.com/bloxapp/ssv/storage/kv"
	"github.com/bloxapp/ssv/utils/threshold"

	"verifharness/internal/evid"
)

// ---- virtual clock -------------------------------------------------------------------------------

// vclock is the beacon network handed to the key manager: all constants are the real mainnet ones
// (eth2-key-manager must know the network name), only "now" is virtual.
type vclock struct {
	beacon.Network
	slot atomic.Uint64
}

func newClock(slot phase0.Slot) *vclock {
	v := &vclock{Network: beacon.NewNetwork(spectypes.MainNetwork)}
	v.slot.Store(uint64(slot))
	return v
}

func (v *vclock) EstimatedCurrentSlot() phase0.Slot { return phase0.Slot(v.slot.Load()) }
func (v *vclock) EstimatedCurrentEpoch() phase0.Epoch {
	return v.EstimatedEpochAtSlot(v.EstimatedCurrentSlot())
}
func (v *vclock) epoch() phase0.Epoch  { return v.EstimatedCurrentEpoch() }
func (v *vclock) advance(slots uint64) { v.slot.Add(slots) }

// realEpochOK: the far-future guard of eth2-key-manager reads the wall clock; virtual epochs must be far below it.
func realEpochOK() bool {
	return beacon.NewNetwork(spectypes.MainNetwork).EstimatedCurrentEpoch() > 100_000
}

// ---- fault-injecting database wrapper ----------------------------------------------------------------

type crashSentinel struct{}

var errInjectedRead = errors.New("c04: injected storage read error")

type crashInfo struct {
	Op     string `json:"op"`     // Set / Delete / Get / GetAll
	Class  string `json:"class"`  // wallet / accounts / highest_att / highest_prop / other
	After  bool   `json:"after"`  // the operation was applied before the crash
	Within string `json:"within"` // harness operation that was executing
	At     int    `json:"at"`     // storage operation index since history start
}

const (
	attPrefix  = "signer_data-highest_att-"
	propPrefix = "signer_data-highest_prop-"
)

func classOf(prefix []byte) string {
	s := string(prefix)
	switch {
	case strings.Contains(s, "highest_att-"):
		return "highest_att"
	case strings.Contains(s, "highest_prop-"):
		return "highest_prop"
	case strings.Contains(s, "wallet-"):
		return "wallet"
	case strings.Contains(s, "accounts-"):
		return "accounts"
	}
	return "other"
}

// faultDB wraps the real badger store. It counts Set/Delete/Get/GetAll, can "crash" (panic with a
// sentinel) before or after the k-th of them, and can fail reads of the protection records.
type faultDB struct {
	inner basedb.Database

	mu         sync.Mutex
	n          int // storage operations so far
	crashAt    int // absolute index; 0 = disarmed
	crashAfter bool
	within     string
	fired      *crashInfo
	readErrAtt bool // Get on highest_att-* fails
	readErrPro bool // Get on highest_prop-* fails
	errFound   bool // value of `found` returned together with the injected error
	readErrHit int
	writeErrAtt bool // Set on highest_att-* fails (the write is NOT applied)
	writeErrPro bool // Set on highest_prop-* fails
	writeErrHit int
}

// db returns the wrapped store (synchronised: the concurrent lane detaches it from frozen signers).
func (f *faultDB) db() basedb.Database {
	f.mu.Lock()
	defer f.mu.Unlock()
	return f.inner
}

func (f *faultDB) setInner(in basedb.Database) {
	f.mu.Lock()
	f.inner = in
	f.mu.Unlock()
}

func (f *faultDB) arm(k int, after bool) {
	f.mu.Lock()
	f.crashAt, f.crashAfter = f.n+k, after
	f.mu.Unlock()
}
func (f *faultDB) armAbs(k int, after bool) {
	f.mu.Lock()
	f.crashAt, f.crashAfter = k, after
	f.mu.Unlock()
}
func (f *faultDB) disarm() {
	f.mu.Lock()
	f.crashAt = 0
	f.mu.Unlock()
}
func (f *faultDB) setWithin(s string) {
	f.mu.Lock()
	f.within = s
	f.mu.Unlock()
}
func (f *faultDB) ops() int {
	f.mu.Lock()
	defer f.mu.Unlock()
	return f.n
}

// step is called at the start of every counted operation; it returns true if the crash must
// happen after the operation was applied.
func (f *faultDB) step(op string, prefix []byte) (crashAfter bool) {
	f.mu.Lock()
	f.n++
	if f.crashAt != 0 && f.n == f.crashAt {
		f.crashAt = 0
		f.fired = &crashInfo{Op: op, Class: classOf(prefix), After: f.crashAfter, Within: f.within, At: f.n}
		after := f.crashAfter
		f.mu.Unlock()
		if !after {
			panic(crashSentinel{})
		}
		return true
	}
	f.mu.Unlock()
	return false
}

var errInjectedWrite = errors.New("c04: injected storage write error")

func (f *faultDB) Set(prefix, key, value []byte) error {
	after := f.step("Set", prefix)
	f.mu.Lock()
	cl := classOf(prefix)
	failW := (cl == "highest_att" && f.writeErrAtt) || (cl == "highest_prop" && f.writeErrPro)
	if failW {
		f.writeErrHit++
	}
	f.mu.Unlock()
	if failW {
		if after {
			panic(crashSentinel{})
		}
		return errInjectedWrite
	}
	err := f.db().Set(prefix, key, value)
	if after {
		panic(crashSentinel{})
	}
	return err
}

func (f *faultDB) Delete(prefix, key []byte) error {
	after := f.step("Delete", prefix)
	err := f.db().Delete(prefix, key)
	if after {
		panic(crashSentinel{})
	}
	return err
}

func (f *faultDB) Get(prefix, key []byte) (basedb.Obj, bool, error) {
	after := f.step("Get", prefix)
	f.mu.Lock()
	cl := classOf(prefix)
	fail := (cl == "highest_att" && f.readErrAtt) || (cl == "highest_prop" && f.readErrPro)
	found := f.errFound
	if fail {
		f.readErrHit++
	}
	f.mu.Unlock()
	if fail {
		if after {
			panic(crashSentinel{})
		}
		return basedb.Obj{}, found, errInjectedRead
	}
	o, ok, err := f.db().Get(prefix, key)
	if after {
		panic(crashSentinel{})
	}
	return o, ok, err
}

func (f *faultDB) GetAll(prefix []byte, h func(int, basedb.Obj) error) error {
	after := f.step("GetAll", prefix)
	err := f.db().GetAll(prefix, h)
	if after {
		panic(crashSentinel{})
	}
	return err
}

func (f *faultDB) GetMany(prefix []byte, keys [][]byte, it func(basedb.Obj) error) error {
	return f.db().GetMany(prefix, keys, it)
}
func (f *faultDB) SetMany(prefix []byte, n int, next func(int) (basedb.Obj, error)) error {
	return f.db().SetMany(prefix, n, next)
}
func (f *faultDB) Begin() basedb.Txn         { return f.db().Begin() }
func (f *faultDB) BeginRead() basedb.ReadTxn { return f.db().BeginRead() }
func (f *faultDB) Using(rw basedb.ReadWriter) basedb.ReadWriter {
	if rw == nil {
		return f
	}
	return rw
}
func (f *faultDB) UsingReader(r basedb.Reader) basedb.Reader {
	if r == nil {
		return f
	}
	return r
}
func (f *faultDB) CountPrefix(prefix []byte) (int64, error) { return f.db().CountPrefix(prefix) }
func (f *faultDB) DeletePrefix(prefix []byte) (int, error)  { return f.db().DeletePrefix(prefix) }
func (f *faultDB) DropPrefix(prefix []byte) error           { return f.db().DropPrefix(prefix) }
func (f *faultDB) Update(fn func(basedb.Txn) error) error   { return f.db().Update(fn) }
func (f *faultDB) Close() error                             { return f.db().Close() }

// ---- shares, released signatures -----------------------------------------------------------------------

type attRel struct {
	Seq    int          `json:"seq"` // index of the harness operation that released it
	Source phase0.Epoch `json:"source"`
	Target phase0.Epoch `json:"target"`
	Root   string       `json:"root"` // hash tree root of the attestation data (hex, first 8 bytes) - identity of the signed data
	full   [32]byte
}

type blkRel struct {
	Seq  int         `json:"seq"`
	Slot phase0.Slot `json:"slot"`
	Kind string      `json:"kind"`
	Root string      `json:"root"`
	full [32]byte
}

type share struct {
	idx    int
	sk     *bls.SecretKey
	pk     []byte
	pkHex  string
	inNode bool // the node's share storage holds the validator (decides whether ValidatorAdded calls AddShare)
	liq    bool
	atts   []attRel
	blks   []blkRel
}

func newShare(rng *rand.Rand, idx int) *share {
	var b [32]byte
	for i := range b {
		b[i] = byte(rng.Intn(256))
	}
	sk := &bls.SecretKey{}
	if err := sk.SetLittleEndianMod(b[:]); err != nil {
		panic(err)
	}
	pk := sk.GetPublicKey().Serialize()
	return &share{idx: idx, sk: sk, pk: pk, pkHex: hex.EncodeToString(pk)}
}

// ---- the world: real signer over real badger -------------------------------------------------------------

type opRec struct {
	I      int    `json:"i"`
	Op     string `json:"op"`
	Share  int    `json:"share"`
	Arg    string `json:"arg,omitempty"`
	Result string `json:"result,omitempty"`
	Slot   uint64 `json:"slot"`
}

type lifeEvent struct {
	seq   int
	share int // -1 = all shares (restart, crash)
	what  string
}

type world struct {
	c        *evid.Case
	logger   *zap.Logger
	onDisk   bool
	shared   bool // inner is the child's shared in-memory store (never closed by a case)
	dir      string
	inner    basedb.Database
	fdb      *faultDB
	clk      *vclock
	net      networkconfig.NetworkConfig
	builder  bool
	km       spectypes.KeyManager
	sp       ekm.StorageProvider
	shares   []*share
	hist     []opRec
	life     []lifeEvent
	domAtt   phase0.Domain
	domProp  phase0.Domain
	violated bool
}

var initOnce sync.Once

func initCrypto() { initOnce.Do(threshold.Init) }

func runTmp() string { return filepath.Join(evid.OutRoot, "build", "run-tmp") }

// childState: one in-memory badger per child process, wiped before every history (opening a badger
// instance costs 30 ms - 4 s of allocation on this machine; the wipe makes a case independent of its predecessors).
type childState struct {
	db basedb.Database
}

func sharedDB(c *evid.Case, logger *zap.Logger) (basedb.Database, bool, error) {
	if c == nil {
		db, err := kv.NewInMemory(logger, basedb.Options{})
		return db, false, err
	}
	st, _ := c.Child.Data.(*childState)
	if st == nil {
		st = &childState{}
		c.Child.Data = st
	}
	if st.db == nil {
		db, err := kv.NewInMemory(logger, basedb.Options{})
		if err != nil {
			return nil, false, err
		}
		st.db = db
	}
	var werr error
	for try := 0; try < 5; try++ {
		if _, werr = st.db.DeletePrefix(nil); werr == nil {
			break
		}
	}
	if werr != nil {
		return nil, false, werr
	}
	if n, err := st.db.CountPrefix(nil); err != nil || n != 0 {
		return nil, false, fmt.Errorf("shared store not empty after wipe: %d keys, %v", n, err)
	}
	return st.db, true, nil
}

func newWorld(c *evid.Case, rng *rand.Rand, nShares int, onDisk bool, tag string) (*world, error) {
	initCrypto()
	w := &world{c: c, logger: zap.NewNop(), onDisk: onDisk}
	w.builder = rng.Intn(4) != 0
	startEpoch := 1000 + rng.Intn(3000)
	w.clk = newClock(phase0.Slot(startEpoch*32 + rng.Intn(32)))
	w.net = networkconfig.NetworkConfig{Name: "c04", Beacon: w.clk, Domain: networkconfig.TestNetwork.Domain}
	for i := range w.domAtt {
		w.domAtt[i] = byte(rng.Intn(256))
		w.domProp[i] = byte(rng.Intn(256))
	}
	copy(w.domAtt[:4], spectypes.DomainAttester[:])
	copy(w.domProp[:4], spectypes.DomainProposer[:])
	for i := 0; i < nShares; i++ {
		w.shares = append(w.shares, newShare(rng, i))
	}
	var err error
	if onDisk {
		w.dir = filepath.Join(runTmp(), fmt.Sprintf("c04-%d-%s", os.Getpid(), tag))
		_ = os.RemoveAll(w.dir)
		if err = os.MkdirAll(w.dir, 0o755); err != nil {
			return nil, err
		}
		w.inner, err = kv.New(w.logger, basedb.Options{Path: w.dir})
	} else {
		w.inner, w.shared, err = sharedDB(c, w.logger)
	}
	if err != nil {
		return nil, err
	}
	w.fdb = &faultDB{inner: w.inner}
	return w, nil
}

func (w *world) close() {
	if w.inner != nil && !w.shared {
		_ = w.inner.Close()
	}
	w.inner = nil
	if w.dir != "" {
		_ = os.RemoveAll(w.dir)
	}
}

// deadDB is what a frozen signer of the concurrent lane is left with: every access fails.
type deadDB struct{}

var errDead = errors.New("c04: store detached")

func (deadDB) Get([]byte, []byte) (basedb.Obj, bool, error)             { return basedb.Obj{}, false, errDead }
func (deadDB) GetMany([]byte, [][]byte, func(basedb.Obj) error) error   { return errDead }
func (deadDB) GetAll([]byte, func(int, basedb.Obj) error) error         { return errDead }
func (deadDB) Set([]byte, []byte, []byte) error                         { return errDead }
func (deadDB) SetMany([]byte, int, func(int) (basedb.Obj, error)) error { return errDead }
func (deadDB) Delete([]byte, []byte) error                              { return errDead }
func (deadDB) Begin() basedb.Txn                                        { return nil }
func (deadDB) BeginRead() basedb.ReadTxn                                { return nil }
func (d deadDB) Using(rw basedb.ReadWriter) basedb.ReadWriter           { return d }
func (d deadDB) UsingReader(r basedb.Reader) basedb.Reader              { return d }
func (deadDB) CountPrefix([]byte) (int64, error)                        { return 0, errDead }
func (deadDB) DeletePrefix([]byte) (int, error)                         { return 0, errDead }
func (deadDB) DropPrefix([]byte) error                                  { return errDead }
func (deadDB) Update(func(basedb.Txn) error) error                      { return errDead }
func (deadDB) Close() error                                             { return nil }

// reopenDisk closes and reopens the on-disk store (process restart with a real database).
func (w *world) reopenDisk() error {
	if !w.onDisk {
		return nil
	}
	if err := w.inner.Close(); err != nil {
		return err
	}
	in, err := kv.New(w.logger, basedb.Options{Path: w.dir})
	if err != nil {
		return err
	}
	w.inner = in
	w.fdb.setInner(in)
	return nil
}

// newSigner builds fresh signer objects on the same database (what a node restart does).
func (w *world) newSigner() error {
	km, err := ekm.NewETHKeyManagerSigner(w.logger, w.fdb, w.net, w.builder, "")
	if err != nil {
		return err
	}
	sp, ok := km.(ekm.StorageProvider)
	if !ok {
		return errors.New("key manager does not implement ekm.StorageProvider")
	}
	w.km, w.sp = km, sp
	return nil
}

// guarded runs f; a crash injected by faultDB is recovered (true), anything else propagates.
func (w *world) guarded(within string, f func()) (crashed bool) {
	w.fdb.setWithin(within)
	defer func() {
		if r := recover(); r != nil {
			if _, ok := r.(crashSentinel); ok {
				crashed = true
				return
			}
			panic(r)
		}
	}()
	f()
	return false
}

func (w *world) netPrefix(p string) []byte {
	return []byte(string(w.clk.GetBeaconNetwork()) + p)
}

// rawAtt / rawProp read the protection records straight from the real store (no faults, no signer code).
func (w *world) rawAtt(sh *share) (src, tgt phase0.Epoch, present bool) {
	o, found, err := w.inner.Get(w.netPrefix(attPrefix), sh.pk)
	if err != nil || !found {
		return 0, 0, false
	}
	d := &phase0.AttestationData{}
	if err := d.UnmarshalSSZ(o.Value); err != nil || d.Source == nil || d.Target == nil {
		return 0, 0, true // present but not decodable by the harness
	}
	return d.Source.Epoch, d.Target.Epoch, true
}

func (w *world) rawProp(sh *share) (slot phase0.Slot, present bool) {
	o, found, err := w.inner.Get(w.netPrefix(propPrefix), sh.pk)
	if err != nil || !found {
		return 0, false
	}
	if len(o.Value) < 8 {
		return 0, true
	}
	return phase0.Slot(binary.LittleEndian.Uint64(o.Value)), true
}

// blank: the record exists but its value is empty (only with the opt-in blank-record fault).
func (w *world) blank(prefix string, sh *share) bool {
	o, found, err := w.inner.Get(w.netPrefix(prefix), sh.pk)
	return err == nil && found && len(o.Value) == 0
}

// ---- objects to sign ----------------------------------------------------------------------------------

func mkAtt(slot phase0.Slot, src, tgt phase0.Epoch, salt uint64) *phase0.AttestationData {
	d := &phase0.AttestationData{
		Slot:   slot,
		Index:  3,
		Source: &phase0.Checkpoint{Epoch: src},
		Target: &phase0.Checkpoint{Epoch: tgt},
	}
	binary.LittleEndian.PutUint64(d.BeaconBlockRoot[:8], salt)
	binary.LittleEndian.PutUint64(d.Source.Root[:8], uint64(src)*7+1)
	binary.LittleEndian.PutUint64(d.Target.Root[:8], salt^uint64(tgt))
	return d
}

var blockKinds = []string{"capella", "deneb", "blinded-capella", "blinded-deneb"}

// mkBlock returns a block of the given kind for slot; salt makes the content (hence the root) distinct.
func mkBlock(kind string, slot phase0.Slot, salt uint64) ssz.HashRoot {
	var pr phase0.Root
	binary.LittleEndian.PutUint64(pr[:8], salt)
	binary.LittleEndian.PutUint64(pr[8:16], uint64(slot))
	switch kind {
	case "capella":
		b := *testingutils.TestingBeaconBlockCapella
		b.Slot, b.ParentRoot = slot, pr
		return &b
	case "deneb":
		b := *testingutils.TestingBlockContentsDeneb.Block
		b.Slot, b.ParentRoot = slot, pr
		return &b
	case "blinded-capella":
		b := *testingutils.TestingBlindedBeaconBlockCapella
		b.Slot, b.ParentRoot = slot, pr
		return &b
	default:
		b := *testingutils.TestingBlindedBeaconBlockDeneb
		b.Slot, b.ParentRoot = slot, pr
		return &b
	}
}

func blockSlot(o ssz.HashRoot) phase0.Slot {
	switch b := o.(type) {
	case *capella.BeaconBlock:
		return b.Slot
	case *deneb.BeaconBlock:
		return b.Slot
	case *apiv1capella.BlindedBeaconBlock:
		return b.Slot
	case *apiv1deneb.BlindedBeaconBlock:
		return b.Slot
	}
	return 0
}

// refusalClass buckets a refusal by its reason (evidence only; never part of a verdict).
func refusalClass(err error) string {
	s := err.Error()
	switch {
	case errors.Is(err, errInjectedRead) || strings.Contains(s, "injected storage read error"):
		return "read-error"
	case errors.Is(err, errInjectedWrite) || strings.Contains(s, "injected storage write error"):
		return "write-error"
	case strings.Contains(s, "slashable attestation"):
		return "slashable-attestation"
	case strings.Contains(s, "slashable proposal"):
		return "slashable-proposal"
	case strings.Contains(s, "is not found"):
		return "record-missing"
	case strings.Contains(s, "account not found"):
		return "account-not-found"
	case strings.Contains(s, "too far"):
		return "far-future"
	case strings.Contains(s, "obj type is unknown"):
		return "unknown-type"
	}
	return "other"
}
