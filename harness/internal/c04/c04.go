// Package c04: the operator's signer never releases a slashable pair of attestation / block
// signatures over the whole life of a key share, and refuses to sign when the protection record is
// missing or unreadable (property C04).
//
// System under test: the real ekm.NewETHKeyManagerSigner (and, through it, eth2-key-manager's
// SimpleSigner + NormalProtection) over the real badger store, wrapped by a private fault-injecting
// basedb.Database (crash before/after the k-th storage operation, read errors on the protection
// records), with a virtual beacon clock.
//
// Monitor: the set of released signatures per share public key (a call that returned a signature).
// Oracle: the consensus slashing conditions, pairwise over that set (oracle.go).
//
// Lanes: hist (random adversarial histories with faults), crashenum (every crash point of a history),
// conc (-race: concurrent conflicting requests for one share, lifecycle events in parallel).
package c04

import (
	"fmt"
	"math/rand"
	"runtime"
	"runtime/debug"
	"sync"

	"verifharness/internal/evid"
)

func Spec() *evid.Spec {
	return &evid.Spec{
		ID:    "C04",
		Level: "exploration",
		Rule: "hist lane: seed-determined histories of 30-60 operations over 1-3 shares (real BLS keys) from the alphabet {ValidatorAdded->AddShare, ValidatorRemoved->RemoveShare, " +
			"liquidate, ClusterReactivated->BumpSlashingProtection, sign attestation (source<target<=current epoch; duty-like / same target other root / identical / surrounding / surrounded / lower source / at mark / one above mark / window), " +
			"sign block (capella, deneb, blinded; slot<=current slot; duty-like / same slot other root / identical / lower / at mark / one above), advance clock, restart (new signer objects, same database), " +
			"crash before|after the k-th storage operation (recover, drop objects, reopen, replay the interrupted registry event), read error on a protection record, deletion of a protection record behind the signer's back}, " +
			"followed by a restart and a final audit that asks for data conflicting with the last releases; thorough also on an on-disk badger with close/reopen. " +
			"crashenum lane: for a fault-free history every storage operation index k x {before, after} is crashed once. " +
			"conc lane (-race): 2-8 goroutines ask at once for conflicting data for one share (plus parallel requests of the other duty type and parallel remove/re-add/reactivate), then a sequential audit. " +
			"Non-trivial: at least one request that would be slashable against an already released signature was attempted with a restart/remove/add/reactivation/crash between the two " +
			"(conc: at least two conflicting requests overlapped in time); distinct = hash of the (operation, outcome) sequence",
		Assumptions: []string{
			"attestation targets and block slots requested are never beyond the virtual clock at signing time (as duties are); the clock never moves backwards",
			"virtual epochs (1000-4100 + history) are far below the real current mainnet epoch, so eth2-key-manager's wall-clock far-future guard never interferes",
			"a crash is modelled at storage-operation granularity (badger's own atomicity of one Set/Delete is trusted); the in-memory store survives the crash as the disk would",
			"two signatures over byte-identical data are not a slashable pair (the statement speaks of two distinct attestations / blocks)",
			"conc lane: eth2-key-manager v1.4.0 SimpleSigner.lock holds its map mutex while waiting for the per-account mutex, so two overlapping same-type requests for one account can deadlock the signer; " +
				"such cases are counted (conc_deadlocked_cases) and carry no verdict - the property is a safety property",
		},
		MinNontrivial: 200,
		Lanes: []evid.Lane{
			{Name: "hist", Children: evid.Const(16, 16), Cases: evid.Const(190, 3000), TimeoutS: evid.Const(600, 5400), Run: runHistLane},
			{Name: "crashenum", Children: evid.Const(16, 16), Cases: evid.Const(1, 19), TimeoutS: evid.Const(600, 5400), Run: runEnumLane},
			{Name: "conc", Race: true, Children: evid.Const(16, 16), Cases: evid.Const(60, 800), TimeoutS: evid.Const(600, 5400), Run: runConcLane},
		},
	}
}

var procsOnce sync.Once

// limitProcs: a sequential lane runs 16 children side by side; leaving every child 16 Ps only makes
// badger's goroutine hand-offs spin (measured: 45% of the CPU time in futex / work stealing).
func limitProcs(n int) {
	procsOnce.Do(func() {
		runtime.GOMAXPROCS(n)
		if n <= 2 { // sequential lanes: short-lived garbage only (JSON decoding of accounts); fewer GC cycles, RSS stays ~120 MB
			debug.SetGCPercent(300)
		}
	})
}

func runHistLane(c *evid.Case) {
	limitProcs(2)
	if !realEpochOK() {
		c.Inconclusive("the wall clock of this machine is before/near mainnet genesis: the far-future guard of eth2-key-manager would interfere")
		return
	}
	rng := c.Rng
	p := histParams{
		nShares:      1 + rng.Intn(3),
		nOps:         30 + rng.Intn(31),
		randomFaults: true,
		onDisk:       c.Tier == "thorough" && c.Index%40 == 39,
		tag:          fmt.Sprintf("hist-%d-%d", c.Idx, c.Index),
		lane:         "hist",
	}
	res := runHistory(c, rng, p)
	finishHistory(c, res, "hist")
	if c.Idx == 0 && c.Index < 2 {
		c.Sample(map[string]any{"lane": "hist", "shares": p.nShares, "history": res.ops})
	}
}

func finishHistory(c *evid.Case, res *histResult, lane string) {
	if res.err != "" {
		c.Inconclusive(lane + ": harness could not drive the history: " + res.err)
		return
	}
	c.Count(lane+"_histories", 1)
	c.Count(lane+"_storage_ops", int64(res.storageOps))
	c.Count("signatures_released", int64(res.released))
	c.Count("signatures_refused", int64(res.refused))
	c.Max("max_storage_ops_per_history", int64(res.storageOps))
	if res.released > 0 && res.conflictAcross > 0 {
		h := evid.Hash(res.shape...)
		c.Nontrivial(h)
		c.Distinct(lane+"_history_shapes", h)
	}
}

// runEnumLane: one fault-free history, then the same seed once per (storage operation k, before|after).
func runEnumLane(c *evid.Case) {
	limitProcs(2)
	if !realEpochOK() {
		c.Inconclusive("wall clock before/near mainnet genesis")
		return
	}
	seed := c.Rng.Int63()
	shape := rand.New(rand.NewSource(seed))
	p := histParams{nShares: 1 + shape.Intn(2), nOps: 14 + shape.Intn(12), tag: fmt.Sprintf("enum-%d-%d", c.Idx, c.Index), lane: "crashenum"}
	base := runHistory(c, rand.New(rand.NewSource(seed)), p)
	finishHistory(c, base, "crashenum")
	if base.err != "" {
		return
	}
	c.Count("crashenum_base_histories", 1)
	n := base.loopStorageOps
	for k := 1; k <= n; k++ {
		for _, after := range []bool{false, true} {
			q := p
			q.crashAbs, q.crashAfter = k, after
			c.Journal(" crashenum k=%d after=%v", k, after)
			res := runHistory(c, rand.New(rand.NewSource(seed)), q)
			finishHistory(c, res, "crashenum")
			if len(res.crashes) == 0 {
				c.Count("crashenum_point_not_reached", 1) // the run diverged before k (cannot happen for a deterministic prefix)
			}
		}
	}
	if c.Idx == 0 && c.Index == 0 {
		c.Sample(map[string]any{"lane": "crashenum", "storage_ops": n, "base_history": base.ops})
	}
}
