package c04

import (
	"math/rand"
	"sync"
	"testing"
	"time"

	spectypes "github.com/bloxapp/ssv-spec/types"
)

func TestProbeDeadlock(t *testing.T) {
	rng := rand.New(rand.NewSource(1))
	w, err := newWorld(nil, rng, 1, false, "probe")
	if err != nil {
		t.Fatal(err)
	}
	if err := w.newSigner(); err != nil {
		t.Fatal(err)
	}
	sh := w.shares[0]
	if err := w.km.AddShare(sh.sk); err != nil {
		t.Fatal(err)
	}
	w.clk.advance(64)
	E := w.clk.epoch()
	var wg sync.WaitGroup
	done := make(chan struct{})
	res := make([]error, 4)
	for i := 0; i < 4; i++ {
		wg.Add(1)
		go func(i int) {
			defer wg.Done()
			d := mkAtt(w.clk.EstimatedCurrentSlot(), E-1, E, uint64(i+1))
			_, _, err := w.km.SignBeaconObject(d, w.domAtt, sh.pk, spectypes.DomainAttester)
			res[i] = err
		}(i)
	}
	go func() { wg.Wait(); close(done) }()
	select {
	case <-done:
		t.Logf("finished: %v", res)
	case <-time.After(5 * time.Second):
		t.Fatalf("DEADLOCK: concurrent attestation signing for one share did not finish in 5s")
	}
}
