package c04

import (
	"fmt"
	"sort"
	"strings"

	"github.com/attestantio/go-eth2-client/spec/phase0"
)

// The oracle: the slashing conditions of the consensus spec, written over the monitor's own records
// of what was released (source, target, data root / slot, block root). Nothing of the signer's
// bookkeeping (high-water marks) is consulted.

// attConflict tells whether two released attestations of one key are a slashable pair.
func attConflict(as, at phase0.Epoch, ar [32]byte, bs, bt phase0.Epoch, br [32]byte) string {
	if at == bt && ar != br {
		return "double-vote"
	}
	if as < bs && bt < at {
		return "surround" // a surrounds b
	}
	if bs < as && at < bt {
		return "surround" // b surrounds a
	}
	return ""
}

// blkConflict tells whether two released block signatures of one key are a slashable pair.
func blkConflict(aslot phase0.Slot, ar [32]byte, bslot phase0.Slot, br [32]byte) string {
	if aslot == bslot && ar != br {
		return "double-proposal"
	}
	return ""
}

// attWouldConflict: would releasing (s,t,root) create a slashable pair with what was already released?
// Used for accounting (was a conflicting request attempted?) and by checkNewAtt.
func attWouldConflict(rel []attRel, s, t phase0.Epoch, root [32]byte) (int, string) {
	for i := range rel {
		if k := attConflict(rel[i].Source, rel[i].Target, rel[i].full, s, t, root); k != "" {
			return i, k
		}
	}
	return -1, ""
}

func blkWouldConflict(rel []blkRel, slot phase0.Slot, root [32]byte) (int, string) {
	for i := range rel {
		if k := blkConflict(rel[i].Slot, rel[i].full, slot, root); k != "" {
			return i, k
		}
	}
	return -1, ""
}

// between lists the lifecycle events that concern share sh between two harness operations
// (exclusive/inclusive: (from, to]); it makes the violation signature say across what the pair was released.
func between(life []lifeEvent, sh, from, to int) string {
	set := map[string]bool{}
	for _, e := range life {
		if e.seq > from && e.seq <= to && (e.share == sh || e.share == -1) && e.what != "liquidate" {
			set[e.what] = true
		}
	}
	if len(set) == 0 {
		return "none"
	}
	l := make([]string, 0, len(set))
	for k := range set {
		l = append(l, k)
	}
	sort.Strings(l)
	return strings.Join(l, "+")
}

// lastEvent is the most recent lifecycle event that concerns share sh.
func lastEvent(life []lifeEvent, sh int) string {
	for i := len(life) - 1; i >= 0; i-- {
		if life[i].share == sh || life[i].share == -1 {
			return life[i].what
		}
	}
	return "none"
}

func short(r [32]byte) string { return fmt.Sprintf("%x", r[:6]) }
