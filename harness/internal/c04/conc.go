package c04

import (
	"fmt"
	"math"
	"runtime"
	"sort"
	"strings"
	"sync"
	"sync/atomic"
	"time"

	"github.com/attestantio/go-eth2-client/spec/phase0"
	spectypes "github.com/bloxapp/ssv-spec/types"

	"verifharness/internal/evid"
)

// Concurrent lane. The node has one event-handler goroutine (AddShare / RemoveShare /
// BumpSlashingProtection) and one queue consumer per (validator, duty type); the property quantifies
// over concurrent signing requests for one share, so three shapes are generated:
//
//	A  2-8 goroutines ask at once for mutually conflicting data of ONE type for one share
//	B  one attestation signer + one block signer per share, plus the event handler removing / re-adding /
//	   reactivating the same shares and the clock advancing, all in parallel (what the node does)
//	C  B plus a second attestation or block signer for share 0
//
// What was released is judged by the same pairwise oracle; a sequential audit after a restart follows.
type cstep struct {
	Kind   string       `json:"kind"` // att | blk | remove | add | bump | advance
	Share  int          `json:"share"`
	S      phase0.Epoch `json:"s,omitempty"`
	T      phase0.Epoch `json:"t,omitempty"`
	Slot   phase0.Slot  `json:"slot,omitempty"`
	BKind  string       `json:"block_kind,omitempty"`
	Salt   uint64       `json:"salt,omitempty"`
	Adv    uint64       `json:"advance,omitempty"`
	Yields int          `json:"-"`
}

type cop struct {
	G        int    `json:"g"`
	Step     cstep  `json:"step"`
	Call     int64  `json:"call"`
	Ret      int64  `json:"ret"` // MaxInt64: never returned
	Released bool   `json:"released"`
	Result   string `json:"result"`
	root     [32]byte
}

const signerLockWaitLine = "signer/validator_signer.go:60" // val.Lock() inside SimpleSigner.lock, reached with mapLock held

// frozen: goroutines of earlier cases that are stuck in SimpleSigner.lock for good (they stay in every later dump).
var frozen = map[string]bool{}

func goroutineID(block string) string {
	// "goroutine 123 [sync.RWMutex.Lock]:"
	if !strings.HasPrefix(block, "goroutine ") {
		return ""
	}
	rest := block[len("goroutine "):]
	if i := strings.IndexByte(rest, ' '); i > 0 {
		return rest[:i]
	}
	return ""
}

// signerDeadlocked: some goroutine (of the current case) waits for a per-account mutex inside
// SimpleSigner.lock. It holds the signer's map mutex meanwhile, and the owner of the per-account mutex
// needs that map mutex (RLock in unlock) to release it: the wait is permanent.
func signerDeadlocked() (bool, string) {
	buf := make([]byte, 8<<20)
	n := runtime.Stack(buf, true)
	found := false
	dump := string(buf[:n])
	for _, g := range strings.Split(dump, "\n\n") {
		if strings.Contains(g, signerLockWaitLine) && strings.Contains(g, "(*SimpleSigner).lock") {
			id := goroutineID(g)
			if id != "" && !frozen[id] {
				frozen[id] = true
				found = true
			}
		}
	}
	return found, dump
}

// relevantStacks keeps the goroutines that are inside the code under test (diagnostics of an unexplained hang).
func relevantStacks(dump string) string {
	var sb strings.Builder
	for _, g := range strings.Split(dump, "\n\n") {
		id := goroutineID(g)
		if frozen[id] {
			continue
		}
		if strings.Contains(g, "bloxapp/ssv/ekm") || strings.Contains(g, "eth2-key-manager") {
			if len(g) > 1500 {
				g = g[:1500]
			}
			sb.WriteString(g)
			sb.WriteString("\n\n")
		}
		if sb.Len() > 8000 {
			break
		}
	}
	return sb.String()
}

func runConcLane(c *evid.Case) {
	limitProcs(4)
	if !realEpochOK() {
		c.Inconclusive("wall clock before/near mainnet genesis")
		return
	}
	rng := c.Rng
	mode := []string{"A", "A", "B", "B", "B", "C"}[rng.Intn(6)]
	nShares := 1
	if mode != "A" && rng.Intn(2) == 0 {
		nShares = 2
	}
	w, err := newWorld(c, rng, nShares, false, "conc")
	if err != nil {
		c.Inconclusive("conc: world: " + err.Error())
		return
	}
	defer w.close()
	if err := w.newSigner(); err != nil {
		c.Inconclusive("conc: signer: " + err.Error())
		return
	}
	for _, sh := range w.shares {
		if err := w.km.AddShare(sh.sk); err != nil {
			c.Inconclusive("conc: AddShare: " + err.Error())
			return
		}
		sh.inNode = true
	}
	w.clk.advance(uint64(32 * (4 + rng.Intn(2))))
	E := w.clk.epoch()
	S := w.clk.EstimatedCurrentSlot()

	var mu sync.Mutex // guards ops and the released lists
	var ops []*cop
	var snap []cop // stable copy taken after the concurrent phase
	stopped := false
	var lclock int64
	violated := false
	viol := func(kind, sig, detail string, extra map[string]any) {
		if violated {
			return
		}
		violated = true
		wit := map[string]any{"mode": mode, "operations": snap}
		for k, v := range extra {
			wit[k] = v
		}
		c.Violation(kind, sig, detail, wit)
	}

	// exec runs one step against the live signer and records it
	exec := func(g int, st cstep) {
		o := &cop{G: g, Step: st, Ret: math.MaxInt64}
		sh := w.shares[st.Share]
		for y := 0; y < st.Yields; y++ {
			runtime.Gosched()
		}
		mu.Lock()
		if stopped && g >= 0 {
			mu.Unlock()
			return
		}
		ops = append(ops, o)
		km, sp := w.km, w.sp
		mu.Unlock()
		done := func(released bool, res string) {
			mu.Lock()
			o.Ret = atomic.AddInt64(&lclock, 1)
			o.Released, o.Result = released, res
			mu.Unlock()
		}
		errS := func(e error) string {
			if e == nil {
				return "ok"
			}
			return "refused:" + refusalClass(e)
		}
		switch st.Kind {
		case "att":
			d := mkAtt(phase0.Slot(st.T)*32+phase0.Slot(st.Salt%32), st.S, st.T, st.Salt)
			root, _ := d.HashTreeRoot()
			mu.Lock()
			o.root = root
			o.Call = atomic.AddInt64(&lclock, 1)
			mu.Unlock()
			sig, _, e := km.SignBeaconObject(d, w.domAtt, sh.pk, spectypes.DomainAttester)
			done(e == nil && len(sig) > 0, errS(e))
		case "blk":
			b := mkBlock(st.BKind, st.Slot, st.Salt)
			root, _ := b.HashTreeRoot()
			mu.Lock()
			o.root = root
			o.Call = atomic.AddInt64(&lclock, 1)
			mu.Unlock()
			sig, _, e := km.SignBeaconObject(b, w.domProp, sh.pk, spectypes.DomainProposer)
			done(e == nil && len(sig) > 0, errS(e))
		case "remove":
			mu.Lock()
			o.Call = atomic.AddInt64(&lclock, 1)
			mu.Unlock()
			done(false, errS(km.RemoveShare(sh.pkHex)))
		case "add":
			mu.Lock()
			o.Call = atomic.AddInt64(&lclock, 1)
			mu.Unlock()
			done(false, errS(km.AddShare(sh.sk)))
		case "bump":
			mu.Lock()
			o.Call = atomic.AddInt64(&lclock, 1)
			mu.Unlock()
			done(false, errS(sp.BumpSlashingProtection(sh.pk)))
		case "advance":
			mu.Lock()
			o.Call = atomic.AddInt64(&lclock, 1)
			mu.Unlock()
			w.clk.advance(st.Adv)
			done(false, "ok")
		}
	}

	// ---- request pools (all targets <= E, all slots <= S: never beyond the clock, which only grows) ----
	salt := func() uint64 { return rng.Uint64() | 1 }
	attPool := func(sh int) []cstep {
		s1 := salt()
		p := []cstep{
			{Kind: "att", Share: sh, S: E - 1, T: E, Salt: s1},
			{Kind: "att", Share: sh, S: E - 1, T: E, Salt: salt()},
			{Kind: "att", Share: sh, S: E - 1, T: E, Salt: salt()},
			{Kind: "att", Share: sh, S: E - 2, T: E, Salt: salt()},
			{Kind: "att", Share: sh, S: E - 3, T: E, Salt: salt()},     // surrounds the next
			{Kind: "att", Share: sh, S: E - 2, T: E - 1, Salt: salt()}, // surrounded by the previous
			{Kind: "att", Share: sh, S: E - 3, T: E - 2, Salt: salt()},
			{Kind: "att", Share: sh, S: E - 3, T: E - 2, Salt: salt()},
			{Kind: "att", Share: sh, S: E - 4, T: E - 1, Salt: salt()},
			{Kind: "att", Share: sh, S: E - 1, T: E, Salt: s1}, // byte-identical to the first
		}
		return p
	}
	blkPool := func(sh int) []cstep {
		s1 := salt()
		k1 := blockKinds[rng.Intn(4)]
		p := []cstep{
			{Kind: "blk", Share: sh, Slot: S, BKind: k1, Salt: s1},
			{Kind: "blk", Share: sh, Slot: S, BKind: blockKinds[rng.Intn(4)], Salt: salt()},
			{Kind: "blk", Share: sh, Slot: S, BKind: blockKinds[rng.Intn(4)], Salt: salt()},
			{Kind: "blk", Share: sh, Slot: S - 1, BKind: blockKinds[rng.Intn(4)], Salt: salt()},
			{Kind: "blk", Share: sh, Slot: S - 1, BKind: blockKinds[rng.Intn(4)], Salt: salt()},
			{Kind: "blk", Share: sh, Slot: S - 2, BKind: blockKinds[rng.Intn(2)], Salt: salt()},
			{Kind: "blk", Share: sh, Slot: S, BKind: k1, Salt: s1}, // byte-identical to the first
		}
		return p
	}
	seqFrom := func(pool []cstep, n int) []cstep {
		out := make([]cstep, 0, n)
		for i := 0; i < n; i++ {
			st := pool[rng.Intn(len(pool))]
			st.Yields = rng.Intn(4)
			out = append(out, st)
		}
		return out
	}
	lifecycle := func() []cstep {
		var out []cstep
		n := 2 + rng.Intn(5)
		in := make([]bool, nShares)
		for i := range in {
			in[i] = true
		}
		for i := 0; i < n; i++ {
			sh := rng.Intn(nShares)
			st := cstep{Share: sh, Yields: rng.Intn(6)}
			switch k := rng.Intn(10); {
			case !in[sh]:
				st.Kind, in[sh] = "add", true
			case k < 4:
				st.Kind, in[sh] = "remove", false
			case k < 7:
				st.Kind = "bump"
			default:
				st.Kind, st.Adv = "advance", uint64(1+rng.Intn(40))
			}
			out = append(out, st)
		}
		for sh := range in { // the history ends with every share registered
			if !in[sh] {
				out = append(out, cstep{Kind: "add", Share: sh})
			}
		}
		return out
	}

	// optional sequential pre-release, so that concurrent requests also conflict with something on record
	pre := 0
	if rng.Intn(2) == 0 {
		exec(-1, cstep{Kind: "att", Share: 0, S: E - 3, T: E - 2, Salt: salt()})
		exec(-1, cstep{Kind: "blk", Share: 0, Slot: S - 1, BKind: blockKinds[rng.Intn(4)], Salt: salt()})
		pre = 2
	}

	var plans [][]cstep
	switch mode {
	case "A":
		n := 2 + rng.Intn(7)
		pool := attPool(0)
		if rng.Intn(3) == 0 {
			pool = blkPool(0)
		}
		for g := 0; g < n; g++ {
			plans = append(plans, seqFrom(pool, 1))
		}
	default:
		for sh := 0; sh < nShares; sh++ {
			plans = append(plans, seqFrom(attPool(sh), 3+rng.Intn(4)))
			plans = append(plans, seqFrom(blkPool(sh), 2+rng.Intn(4)))
		}
		plans = append(plans, lifecycle())
		if mode == "C" {
			if rng.Intn(2) == 0 {
				plans = append(plans, seqFrom(attPool(0), 2+rng.Intn(3)))
			} else {
				plans = append(plans, seqFrom(blkPool(0), 2+rng.Intn(3)))
			}
		}
	}
	c.Journal("  conc mode=%s goroutines=%d", mode, len(plans))

	var wg sync.WaitGroup
	start := make(chan struct{})
	for g, pl := range plans {
		wg.Add(1)
		go func(g int, pl []cstep) {
			defer wg.Done()
			<-start
			for _, st := range pl {
				exec(g, st)
			}
		}(g, pl)
	}
	allDone := make(chan struct{})
	go func() { wg.Wait(); close(allDone) }()
	close(start)
	deadlocked := false
	tick := time.NewTicker(40 * time.Millisecond)
	defer tick.Stop()
	began := time.Now()
wait:
	for {
		select {
		case <-allDone:
			break wait
		case <-tick.C:
			dl, dump := signerDeadlocked()
			if dl {
				// no new step may start; calls in flight either return or run into the frozen signer within
				// milliseconds (every path takes the wallet lock or the signer's map lock)
				mu.Lock()
				stopped = true
				mu.Unlock()
				time.Sleep(150 * time.Millisecond)
				w.fdb.setInner(deadDB{}) // stragglers of a frozen signer must not touch the child's shared store any more
				deadlocked = true
				break wait
			}
			if time.Since(began) > 120*time.Second {
				mu.Lock()
				stopped = true
				mu.Unlock()
				w.fdb.setInner(deadDB{})
				c.Inconclusive("conc: goroutines did not finish within the 120s watchdog and no signer lock wait was found; stacks inside the code under test:\n" + relevantStacks(dump))
				return
			}
		}
	}
	c.Count("conc_cases", 1)
	c.Count("conc_mode_"+mode, 1)
	c.Count("conc_goroutines", int64(len(plans)))
	if deadlocked {
		c.Count("conc_deadlocked_cases", 1)
		c.Count("conc_deadlocked_mode_"+mode, 1)
	}

	// ---- snapshot, oracle over what was released --------------------------------------------------------
	mu.Lock()
	stopped = true
	snap = make([]cop, len(ops))
	for i, o := range ops {
		snap[i] = *o
	}
	mu.Unlock()

	released := func(kind string, sh int) []cop {
		var l []cop
		for _, o := range snap {
			if o.Released && o.Step.Kind == kind && o.Step.Share == sh {
				l = append(l, o)
			}
		}
		return l
	}
	pairConflict := func(a, b cop) string {
		if a.Step.Kind != b.Step.Kind || a.Step.Share != b.Step.Share {
			return ""
		}
		if a.Step.Kind == "att" {
			return attConflict(a.Step.S, a.Step.T, a.root, b.Step.S, b.Step.T, b.root)
		}
		if a.Step.Kind == "blk" {
			return blkConflict(a.Step.Slot, a.root, b.Step.Slot, b.root)
		}
		return ""
	}
	for sh := 0; sh < nShares; sh++ {
		for _, kind := range []string{"att", "blk"} {
			rel := released(kind, sh)
			for i := range rel {
				for j := 0; j < i; j++ {
					if k := pairConflict(rel[i], rel[j]); k != "" {
						a, b := rel[j], rel[i]
						viol("slashable-"+map[string]string{"att": "attestation-", "blk": ""}[kind]+k, fmt.Sprintf("conc/%s/%s", mode, k),
							fmt.Sprintf("share %d: two conflicting %s signatures were released by concurrent requests (%s): %+v [call %d, ret %d] and %+v [call %d, ret %d]",
								sh, kind, k, a.Step, a.Call, a.Ret, b.Step, b.Call, b.Ret), map[string]any{"first": a, "second": b})
					}
				}
			}
			c.Count("conc_released_"+kind, int64(len(rel)))
		}
	}
	nRel, nRef := 0, 0
	for _, o := range snap {
		if o.Step.Kind != "att" && o.Step.Kind != "blk" {
			c.Count("conc_op_"+o.Step.Kind, 1)
			continue
		}
		c.Count("conc_sign_requests", 1)
		switch {
		case o.Released:
			nRel++
		case o.Ret == math.MaxInt64:
			c.Count("conc_requests_never_returned", 1)
		default:
			nRef++
			c.Count("conc_"+o.Result, 1)
		}
	}
	c.Count("signatures_released", int64(nRel))
	c.Count("signatures_refused", int64(nRef))

	// ---- non-triviality: a conflicting request overlapped in time with another operation on the share ----
	overlap := func(a, b cop) bool { return a.G != b.G && a.Call < b.Ret && b.Call < a.Ret }
	nontrivial := false
	conflPairsOverlapped := 0
	for i, a := range snap {
		if a.Step.Kind != "att" && a.Step.Kind != "blk" {
			continue
		}
		conflicting := false
		for j, b := range snap {
			if i != j && pairConflict(a, b) != "" {
				conflicting = true
				if overlap(a, b) && i < j {
					conflPairsOverlapped++
				}
			}
		}
		if !conflicting {
			continue
		}
		for j, b := range snap {
			if i != j && b.Step.Share == a.Step.Share && overlap(a, b) {
				nontrivial = true
			}
		}
	}
	c.Count("conc_conflicting_request_pairs_overlapped", int64(conflPairsOverlapped))

	// ---- audit after a restart (also the way out of a frozen signer) ----------------------------------------
	if !violated && !deadlocked {
		mu.Lock()
		w.km, w.sp = nil, nil
		err := w.newSigner()
		mu.Unlock()
		if err != nil {
			c.Inconclusive("conc: restart for the audit: " + err.Error())
			return
		}
		for sh := 0; sh < nShares && !violated; sh++ {
			for _, kind := range []string{"att", "blk"} {
				rel := released(kind, sh)
				if len(rel) == 0 {
					continue
				}
				last := rel[0]
				for _, o := range rel {
					if o.Ret > last.Ret {
						last = o
					}
				}
				st := last.Step
				st.Salt, st.Yields = salt(), 0
				before := len(ops)
				exec(-2, st)
				mu.Lock()
				au := *ops[before]
				mu.Unlock()
				c.Count("conc_audit_requests", 1)
				if au.Released {
					for _, o := range rel {
						if k := pairConflict(au, o); k != "" {
							viol("slashable-"+map[string]string{"att": "attestation-", "blk": ""}[kind]+k, fmt.Sprintf("conc/%s/audit-after-restart/%s", mode, k),
								fmt.Sprintf("share %d: after the concurrent phase and a restart the signer released %+v conflicting (%s) with the earlier released %+v", sh, au.Step, k, o.Step),
								map[string]any{"first": o, "second": au})
							break
						}
					}
				}
			}
		}
	}

	// interleaving fingerprint: the order of call / return events
	type ev struct {
		t int64
		s string
	}
	var evs []ev
	for _, o := range snap {
		if o.G < 0 {
			continue
		}
		evs = append(evs, ev{o.Call, fmt.Sprintf("c%d%s", o.G, o.Step.Kind)})
		if o.Ret != math.MaxInt64 {
			evs = append(evs, ev{o.Ret, fmt.Sprintf("r%d%v", o.G, o.Released)})
		}
	}
	sort.Slice(evs, func(i, j int) bool { return evs[i].t < evs[j].t })
	var sb strings.Builder
	sb.WriteString(mode)
	for _, e := range evs {
		sb.WriteString(e.s)
		sb.WriteByte(' ')
	}
	h := evid.Hash(sb.String(), pre)
	c.Distinct("conc_interleavings", h)
	if nontrivial {
		c.Nontrivial(h)
		c.Count("conc_nontrivial_cases", 1)
	}
	if c.Idx == 0 && c.Index < 2 {
		c.Sample(map[string]any{"lane": "conc", "mode": mode, "deadlocked": deadlocked, "operations": snap})
	}
}
