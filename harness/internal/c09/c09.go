// Package c09: message validation never accepts a message that breaks a gossip rule (property C09).
//
// Oracle = the independent rulebook of oracle.go, applied to every delivery the REAL validator accepts (only the
// direction "accepted => every rule of the statement holds" is checked). Workload: honest streams of all roles
// (consensus messages from real qsim executions up to the role's maximum round, partial-signature messages), and for
// honest messages after (sampled) prefixes every single rule-breaking mutation of a catalogue with at least one entry per
// rule, re-signed so that it reaches the rule it targets; both envelope phases. A concurrency lane (race detector)
// validates the same / conflicting / unrelated messages from several goroutines and bounds the number of accepts.
package c09

import (
	"fmt"
	"math/rand"
	"sort"
	"strings"
	"sync"
	"time"

	"github.com/attestantio/go-eth2-client/spec/phase0"
	specqbft "github.com/bloxapp/ssv-spec/qbft"
	spectypes "github.com/bloxapp/ssv-spec/types"

	"github.com/bloxapp/ssv/message/validation"
	"github.com/bloxapp/ssv/network/commons"

	"verifharness/internal/evid"
	"verifharness/internal/vsim"
)

func Spec() *evid.Spec {
	return &evid.Spec{
		ID:    "C09",
		Level: "exploration",
		Rule: "lane rules: a case = (honest stream, envelope phase, position i): a fresh real validator replays the prefix [0,i) (oracle on every accept), the honest message i gives the baseline, " +
			"then every applicable entry of the mutation catalogue (one or more per rule of the statement) is validated on its own fresh validator after the same prefix " +
			"('instead-of' mutants) or after prefix + message i ('after' mutants: slot / round regression, duplicates, second proposal); every accept is judged by the rulebook. " +
			"non-trivial = a mutant whose unmutated message was accepted in the same state; distinct = (rule, mutation, message kind, role, committee, phase, prefix class). " +
			"lane conc (-race): K goroutines validate the same message / same-signer same-round variants / messages of other validators at once; accepts per (validator, role, signer, slot, round, kind) <= 1",
		Assumptions: []string{
			"numbers the statement leaves to the protocol documentation: slot TTL 34 (attester, aggregator) / 3 (proposer, sync committee roles) slots + 3 s, none for validator registration / voluntary exit; " +
				"round estimate from eight 2 s rounds then 2 min rounds, accepted rounds 1..estimate+1 and <= 12 / 6; early bound = slot start (50 ms tolerance); the oracle allows one extra slot at the late edge",
			"per-signer limits bind consensus messages only, against previously accepted consensus messages of the same (validator, role); quorum-sized commits (decided) carry no count limit in the statement",
			"two readings are switchable constants in oracle.go (both bind by default): slot window of partial-signature messages, full data attached to prepare / commit messages",
			"a topic name without the ssv.v2. prefix is outside the input space of the gate (pubsub only delivers on joined full names): counted as an observation, never a verdict",
		},
		MinNontrivial: 200,
		Lanes: []evid.Lane{
			{Name: "rules", Children: evid.Const(16, 16), Cases: evid.Const(70, 2500), TimeoutS: evid.Const(1200, 7200), Setup: setup, Run: runRules},
			{Name: "conc", Race: true, Children: evid.Const(16, 16), Cases: evid.Const(60, 1500), TimeoutS: evid.Const(1500, 7200), Setup: setup, Run: runConc},
		},
	}
}

// ---- environment -----------------------------------------------------------------------------------------------------

type stream struct {
	name string
	val  *vsim.Val
	msgs []*vsim.Msg
}

type env struct {
	w       *vsim.World
	o       *oracle
	specs   []streamSpec
	streams map[string]*stream
	// witnesses already emitted by this child: the rulebook judges every accept, so one real defect shows up in almost
	// every case; each (kind, sig) is reported once and each kind at most maxPerKind times per child, the rest is counted
	emitted     map[string]int
	emittedKind map[string]int
}

const maxPerKind = 5

type streamSpec struct {
	name   string
	kind   vsim.ValKind
	duties []dutySpec
}

type dutySpec struct {
	role spectypes.BeaconRole
	off  int // slot offset from the stream's base slot
	prof vsim.Profile
}

func setup(ch *evid.Child) {
	w := vsim.NewWorld()
	e := &env{w: w, o: &oracle{w: w}, streams: map[string]*stream{}, emitted: map[string]int{}, emittedKind: map[string]int{}}
	// the oracle's own slot arithmetic must describe the same (virtual) chain as the world
	if slotStartNanos(uint64(w.BaseSlot())).Int64() != w.Beacon.GetSlotStartTime(w.BaseSlot()).UnixNano() {
		panic("oracle genesis / slot duration differ from the world's beacon network")
	}
	R := spectypes.BNRoleAttester
	cheap := []streamSpec{
		{"k4/attester/2-duties", vsim.Known4, []dutySpec{{R, 0, vsim.Profile{Target: 1}}, {R, 2, vsim.Profile{Target: 2}}}},
		{"k4/attester/t3p2", vsim.Known4, []dutySpec{{R, 4, vsim.Profile{Target: 3, PreparedFrom: 2}}}},
		{"k4/aggregator/t2", vsim.Known4, []dutySpec{{spectypes.BNRoleAggregator, 1, vsim.Profile{Target: 2}}}},
		{"k4/proposer/t2", vsim.Known4, []dutySpec{{spectypes.BNRoleProposer, 5, vsim.Profile{Target: 2}}}},
		{"k4/sync-committee/t1+t1", vsim.Known4, []dutySpec{{spectypes.BNRoleSyncCommittee, 6, vsim.Profile{Target: 1}}, {spectypes.BNRoleSyncCommittee, 7, vsim.Profile{Target: 1}}}},
		{"k4/sync-contribution/t2p1", vsim.Known4, []dutySpec{{spectypes.BNRoleSyncCommitteeContribution, 9, vsim.Profile{Target: 2, PreparedFrom: 1}}}},
		{"k4/validator-registration", vsim.Known4, []dutySpec{{spectypes.BNRoleValidatorRegistration, 3, vsim.Profile{Target: 1}}}},
		{"k4/voluntary-exit", vsim.Known4, []dutySpec{{spectypes.BNRoleVoluntaryExit, 3, vsim.Profile{Target: 1}}}},
	}
	costly := []streamSpec{
		{"k4/attester/t12p0", vsim.Known4, []dutySpec{{R, 12, vsim.Profile{Target: 12}}}},
		{"k4/proposer/t6p3", vsim.Known4, []dutySpec{{spectypes.BNRoleProposer, 13, vsim.Profile{Target: 6, PreparedFrom: 3}}}},
		{"k7/attester/t1", vsim.Known7, []dutySpec{{R, 14, vsim.Profile{Target: 1}}}},
		{"k7/proposer/t2", vsim.Known7, []dutySpec{{spectypes.BNRoleProposer, 15, vsim.Profile{Target: 2}}}},
		{"k4/aggregator/t12p9", vsim.Known4, []dutySpec{{spectypes.BNRoleAggregator, 16, vsim.Profile{Target: 12, PreparedFrom: 9}}}},
		{"k7/sync-committee/t1", vsim.Known7, []dutySpec{{spectypes.BNRoleSyncCommittee, 17, vsim.Profile{Target: 1}}}},
		{"k4/sync-committee/t6p0", vsim.Known4, []dutySpec{{spectypes.BNRoleSyncCommittee, 18, vsim.Profile{Target: 6}}}},
		{"k7/attester/t3p2", vsim.Known7, []dutySpec{{R, 19, vsim.Profile{Target: 3, PreparedFrom: 2}}}},
	}
	e.specs = append(e.specs, cheap...)
	// every child owns two of the costly streams (qsim executions with BLS verification cost seconds)
	e.specs = append(e.specs, costly[ch.Idx%len(costly)], costly[(ch.Idx+3)%len(costly)])
	if ch.Tier == "thorough" {
		e.specs = append(e.specs, costly[(ch.Idx+5)%len(costly)],
			streamSpec{"k4/attester/t12p2", vsim.Known4, []dutySpec{{R, 20, vsim.Profile{Target: 12, PreparedFrom: 2}}}})
	}
	ch.Data = e
}

func (e *env) stream(sp streamSpec) *stream {
	if s, ok := e.streams[sp.name]; ok {
		return s
	}
	v := e.w.Vals[sp.kind]
	s := &stream{name: sp.name, val: v}
	for _, d := range sp.duties {
		s.msgs = append(s.msgs, e.w.Duty(v, d.role, e.w.BaseSlot()+phase0.Slot(d.off), d.prof)...)
	}
	e.streams[sp.name] = s
	return s
}

// ---- deliveries / validation -------------------------------------------------------------------------------------------

type delivery struct {
	topic   string
	wire    []byte
	at      time.Time
	topicOb bool // topic name outside the gate's input space: observation only
}

func (e *env) honest(m *vsim.Msg, post bool) delivery {
	return delivery{topic: m.Val.Topic(), wire: m.WireBytes(e.w, post), at: m.At}
}

// validate runs one delivery on mv; a panic (property C08's business) is counted, never an accept.
func (e *env) validate(c *evid.Case, mv validation.MessageValidator, d delivery) (r vsim.Result, panicked bool) {
	defer func() {
		if p := recover(); p != nil {
			panicked = true
			c.Count("validation_panicked(C08)", 1)
		}
	}()
	c.Count("validations", 1)
	return e.w.ValidateAt(mv, vsim.Pubsub(d.topic, d.wire), d.at), false
}

// judge applies the rulebook to an accepted delivery and reports what fails.
func (e *env) judge(c *evid.Case, post bool, d delivery, hist *[]accepted, what string, ctx map[string]any) bool {
	fs, rec := e.o.check(post, d.topic, d.wire, d.at, *hist, d.topicOb)
	if rec != nil {
		*hist = append(*hist, *rec)
	}
	clean := true
	for _, f := range fs {
		role := "?"
		kind := "?"
		if rec != nil {
			role, kind = rec.role.String(), rec.kind
		} else if p := parseWire(d.wire, post); len(p.msgID) == 56 {
			role = spectypes.BeaconRole(uint32(p.msgID[52]) | uint32(p.msgID[53])<<8 | uint32(p.msgID[54])<<16 | uint32(p.msgID[55])<<24).String()
		}
		if f.kind == "observation" {
			c.Count("observation/"+f.rule+"/"+role, 1)
			continue
		}
		clean = false
		sig := kind + "/" + role
		if i := strings.Index(f.rule, "/"); i > 0 {
			sig += f.rule[i:]
		}
		c.Count("rulebook_alarms/"+f.kind, 1)
		if strings.HasPrefix(what, "honest") {
			c.Count("rulebook_alarms_on_honest_messages", 1)
		}
		e.emitted[f.kind+"|"+sig]++
		if e.emitted[f.kind+"|"+sig] > 1 || e.emittedKind[f.kind] >= maxPerKind {
			c.Count("alarms_not_repeated_as_violation/"+f.kind, 1)
			continue
		}
		e.emittedKind[f.kind]++
		wit := map[string]any{"what": what, "rule": f.rule, "phase_post": post, "topic": d.topic, "received_at": d.at.UTC().Format(time.RFC3339Nano),
			"wire_hex": fmt.Sprintf("%x", clip(d.wire, 1500)), "history_accepted": len(*hist)}
		for k, v := range ctx {
			wit[k] = v
		}
		c.Violation(f.kind, sig, fmt.Sprintf("ACCEPTED %s: %s\n(rule %q of the statement; envelope phase %v; %s)", what, f.detail, f.rule, post, ctxLine(ctx)), wit)
	}
	return clean
}

func ctxLine(ctx map[string]any) string {
	var ks []string
	for k := range ctx {
		ks = append(ks, k)
	}
	sort.Strings(ks)
	var sb strings.Builder
	for _, k := range ks {
		fmt.Fprintf(&sb, "%s=%v ", k, ctx[k])
	}
	return sb.String()
}

func clip(b []byte, n int) []byte {
	if len(b) > n {
		return b[:n]
	}
	return b
}

func phaseName(post bool) string {
	if post {
		return "post"
	}
	return "pre"
}

// ---- lane rules -------------------------------------------------------------------------------------------------------------

func prefixClass(s *stream, i int) string {
	if i == 0 {
		return "empty"
	}
	m := s.msgs[i]
	c := "same-duty"
	if s.msgs[0].Slot != m.Slot {
		c = "second-duty"
	}
	switch {
	case m.Part != nil && m.Tag == "post":
		return c + "/after-consensus"
	case m.Cons != nil && m.Cons.Message.Round > 1:
		return c + "/after-round-change"
	}
	return c + "/round-1"
}

func runRules(c *evid.Case) {
	e := c.Child.Data.(*env)
	rng := c.Rng
	sp := e.specs[rng.Intn(len(e.specs))]
	s := e.stream(sp)
	post := rng.Intn(2) == 0
	i := rng.Intn(len(s.msgs))
	// prefer positions with history-dependent rules now and then: a message of a later round / the second duty
	if rng.Intn(3) == 0 {
		for try := 0; try < 20; try++ {
			j := rng.Intn(len(s.msgs))
			if s.msgs[j].Cons != nil && (s.msgs[j].Cons.Message.Round > 1 || s.msgs[j].Slot != s.msgs[0].Slot) {
				i = j
				break
			}
		}
	}
	m := s.msgs[i]
	pc := prefixClass(s, i)
	ctx := map[string]any{"stream": s.name, "position": i, "message": m.Tag, "sender": m.Sender, "prefix_class": pc}
	c.Journal("stream %s post=%v i=%d %s", s.name, post, i, m.Tag)

	// baseline: prefix + honest message on validator B, oracle on every accept
	replay := func(upto int, judge bool) (validation.MessageValidator, []accepted, bool) {
		mv := e.w.NewValidator(post, spectypes.OperatorID(1+rng.Intn(4)))
		var hist []accepted
		for k := 0; k < upto; k++ {
			d := e.honest(s.msgs[k], post)
			r, _ := e.validate(c, mv, d)
			if r.Accepted() {
				if judge {
					c.Count("honest_accepts_judged", 1)
					e.judge(c, post, d, &hist, "honest stream message "+s.msgs[k].Tag, map[string]any{"stream": s.name, "position": k})
				} else if rec := record(post, d.wire); rec != nil {
					hist = append(hist, *rec)
				}
			} else if judge {
				c.Count("honest_not_accepted(C10)", 1)
			}
		}
		return mv, hist, true
	}
	mvB, histB, _ := replay(i, true)
	dB := e.honest(m, post)
	rB, _ := e.validate(c, mvB, dB)
	baseline := rB.Accepted()
	if baseline {
		c.Count("baseline_accepted", 1)
		e.judge(c, post, dB, &histB, "honest stream message "+m.Tag, ctx)
	} else {
		c.Count("baseline_not_accepted", 1)
	}

	muts := e.mutants(rng, s, i, post)
	for _, mu := range muts {
		c.Journal("mutant %s/%s", mu.rule, mu.name)
		mv, hist, _ := replay(i, false)
		if mu.after {
			r, _ := e.validate(c, mv, dB)
			if r.Accepted() {
				if rec := record(post, dB.wire); rec != nil {
					hist = append(hist, *rec)
				}
			}
		}
		for _, pd := range mu.pre {
			if r, _ := e.validate(c, mv, pd); r.Accepted() {
				c.Count("mutant_history_step_accepted/"+mu.name, 1)
				e.judge(c, post, pd, &hist, fmt.Sprintf("history step of mutant %q of honest %s", mu.name, m.Tag), map[string]any{"mutation": mu.name, "stream": s.name, "position": i})
			} else {
				c.Count("mutant_history_step_refused/"+mu.name, 1)
			}
		}
		r, pan := e.validate(c, mv, mu.d)
		c.Count("mutants", 1)
		c.Count("mutants/"+mu.rule, 1)
		kind := "partial-signature"
		if m.Cons != nil {
			kind = kindOf(m.Cons)
		}
		switch {
		case pan:
			c.Count("outcome/"+mu.rule+"/panic", 1)
		case r.Accepted():
			c.Count("mutants_accepted", 1)
			c.Count("outcome/"+mu.rule+"/ACCEPTED", 1)
			mctx := map[string]any{"mutation": mu.name, "targets_rule": mu.rule, "after_honest_original": mu.after, "baseline_accepted": baseline}
			for k, v := range ctx {
				mctx[k] = v
			}
			if mu.d.topicOb {
				c.Count("observation/accepted_on_topic_name_without_prefix", 1)
			}
			if e.judge(c, post, mu.d, &hist, fmt.Sprintf("mutant %q of honest %s", mu.name, m.Tag), mctx) && !mu.d.topicOb && !mu.benign {
				// accepted and every rule holds: the mutation did not break the rule it aimed at (catalogue entry too weak)
				c.Count("mutant_accepted_but_rulebook_satisfied/"+mu.name, 1)
			}
		default:
			c.Count("outcome/"+mu.rule+"/"+r.ErrText(), 1)
			// informational (C10's direction, no verdict here): does a REFUSED instead-of mutant change what happens to
			// the honest original afterwards?
			if baseline && !mu.after {
				if r2, p2 := e.validate(c, mv, dB); !p2 && !r2.Accepted() {
					c.Count("observation/refused_mutant_made_the_honest_original_unacceptable/"+mu.rule, 1)
				}
			}
		}
		if baseline && !pan {
			h := evid.Hash(mu.rule, mu.name, kind, m.Role, s.val.N, post, pc)
			c.Nontrivial(h)
			c.Distinct("rule_role_prefix", evid.Hash(mu.rule, m.Role, pc))
			c.Distinct("rule_mutation_kind_role_phase", evid.Hash(mu.rule, mu.name, kind, m.Role, post))
		} else {
			c.Count("trivial_mutants(baseline_not_accepted)", 1)
		}
	}
	if c.Index < 2 && c.Idx == 0 {
		c.Sample(map[string]any{"stream": s.name, "position": i, "message": m.Tag, "phase": phaseName(post), "baseline_accepted": baseline, "mutants": len(muts)})
	}
}

// ---- the mutation catalogue ---------------------------------------------------------------------------------------------------

type mutant struct {
	rule   string
	name   string
	after  bool // validated after the honest original was accepted
	benign bool // not rule-breaking by itself (control)
	d      delivery
	pre    []delivery // validated (and judged) before d: a history step the mutant needs
}

func (e *env) deliver(m *vsim.Msg, post bool) delivery {
	return delivery{topic: m.Val.Topic(), wire: e.w.Wire(m.SSV, m.Sender, post), at: m.At}
}

func firstSigner(m *vsim.Msg) spectypes.OperatorID {
	if m.Cons != nil && len(m.Cons.Signers) > 0 {
		return m.Cons.Signers[0]
	}
	if m.Part != nil {
		return m.Part.Signer
	}
	return m.Sender
}

// remake re-signs (BLS) and re-encodes a mutated clone.
func remake(m *vsim.Msg) bool {
	if m.Cons != nil {
		vsim.Resign(m.Val, m.Cons)
	} else if m.Part != nil {
		vsim.SignPartialOuter(m.Val, m.Part, m.Sender)
	}
	return m.Reencode() == nil
}

func (e *env) mutants(rng *rand.Rand, s *stream, i int, post bool) []mutant {
	w := e.w
	m0 := s.msgs[i]
	v := m0.Val
	n := v.N
	var out []mutant
	add := func(rule, name string, after bool, d delivery) {
		out = append(out, mutant{rule: rule, name: name, after: after, d: d})
	}
	addMsg := func(rule, name string, after bool, m *vsim.Msg) {
		if remake(m) {
			if m.Role == spectypes.BNRoleProposer && uint64(m.Slot) < 1<<40 {
				w.AddProposerDuty(m.Val, m.Slot)
			}
			add(rule, name, after, e.deliver(m, post))
		}
	}
	hd := e.honest(m0, post)

	// --- validator status
	for _, vk := range []struct {
		kind vsim.ValKind
		rule string
	}{{vsim.Unknown, "known-validator"}, {vsim.Liquidated, "not-liquidated"}, {vsim.NoMetadata, "active-validator"}, {vsim.NotAttesting, "active-validator"}} {
		if n != 4 {
			continue // the variant validators carry the 4-operator committee
		}
		r := vsim.Retarget(m0, w.Vals[vk.kind])
		addMsg(vk.rule, "retarget-to-"+vk.kind.String(), false, r)
	}
	// --- topic
	topics := commons.Topics()
	own := -1
	for k, t := range topics {
		if t == hd.topic {
			own = k
		}
	}
	ownBase := strings.TrimPrefix(hd.topic, "ssv.v2.")
	for _, t := range []struct{ name, topic string }{{"next-subnet", topics[(own+1)%128]}, {"random-subnet", topics[(own+1+rng.Intn(127))%128]}, {"unknown-topic", "ssv.v2.unknown"}, {"empty-topic", ""},
		{"own-subnet-with-leading-digit", "ssv.v2.1" + ownBase}, {"own-subnet-with-leading-zero", "ssv.v2.0" + ownBase}, {"own-subnet-with-trailing-digit", "ssv.v2." + ownBase + "0"},
		{"own-name-doubled-prefix", "ssv.v2." + hd.topic}} {
		d := hd
		d.topic = t.topic
		add("topic", t.name, false, d)
	}
	{
		d := hd
		d.topic = strings.TrimPrefix(hd.topic, "ssv.v2.")
		d.topicOb = true
		add("topic", "name-without-prefix(observation)", false, d)
	}
	// --- envelope
	if post {
		payload := vsim.EncodeSSV(m0.SSV)
		goodSig := hd.wire[:256]
		// a different, still well-formed payload under the honest signature
		alt := m0.Clone()
		if alt.Cons != nil {
			if len(alt.Cons.FullData) > 0 {
				alt.Cons.FullData = append(alt.Cons.FullData, 'x')
				alt.Cons.Message.Root, _ = specqbft.HashDataRoot(alt.Cons.FullData)
			} else {
				alt.Cons.Message.Root[5] ^= 1
			}
		} else {
			alt.Part.Message.Messages[0].SigningRoot[5] ^= 1
		}
		if remake(alt) {
			add("envelope", "honest-signature-over-other-payload", false, delivery{topic: hd.topic, at: hd.at, wire: commons.EncodeSignedSSVMessage(vsim.EncodeSSV(alt.SSV), m0.Sender, goodSig)})
		}
		flip := append([]byte(nil), hd.wire...)
		flip[rng.Intn(256)] ^= 1 << uint(rng.Intn(8))
		add("envelope", "signature-bit-flip", false, delivery{topic: hd.topic, at: hd.at, wire: flip})
		add("envelope", "zero-signature", false, delivery{topic: hd.topic, at: hd.at, wire: commons.EncodeSignedSSVMessage(payload, m0.Sender, make([]byte, 256))})
		us, _ := w.Ops[vsim.UnregisteredOperator].Priv.Sign(payload)
		add("envelope", "unregistered-operator", false, delivery{topic: hd.topic, at: hd.at, wire: commons.EncodeSignedSSVMessage(payload, vsim.UnregisteredOperator, us)})
		other := spectypes.OperatorID(uint64(m0.Sender)%vsim.NumOperators + 1)
		os, _ := w.Ops[other].Priv.Sign(payload)
		add("envelope", "signed-with-another-operators-key", false, delivery{topic: hd.topic, at: hd.at, wire: commons.EncodeSignedSSVMessage(payload, m0.Sender, os)})
		add("envelope", "operator-id-zero", false, delivery{topic: hd.topic, at: hd.at, wire: commons.EncodeSignedSSVMessage(payload, 0, goodSig)})
		pf := append([]byte(nil), hd.wire...) // control: an untouched copy must behave like the original
		out = append(out, mutant{rule: "control", name: "control-identical-copy", benign: true, d: delivery{topic: hd.topic, at: hd.at, wire: pf}})
	}

	recvSlot := w.Beacon.EstimatedSlotAtTime(m0.At.Unix()) // the slot in which the honest message is received
	ttlSlots := vsim.TTLSlots(m0.Role)
	slotDur := time.Duration(vsim.SlotSeconds) * time.Second

	if m0.Part != nil {
		// --- partial-signature messages: signer and slot window
		for _, sg := range []struct {
			name string
			id   spectypes.OperatorID
		}{{"zero-signer", 0}, {"non-member-signer", spectypes.OperatorID(n + 1)}, {"unregistered-signer", 99}} {
			m := m0.Clone()
			m.Part.Signer = sg.id
			for _, x := range m.Part.Message.Messages {
				x.Signer = sg.id
			}
			addMsg("signers", sg.name, false, m)
		}
		for _, sh := range []struct {
			name string
			slot phase0.Slot
		}{{"reception-slot+2(early)", recvSlot + 2}, {"reception-slot+40(early)", recvSlot + 40}, {"slot+2^62(alias)", m0.Part.Message.Slot + 1<<62}} {
			m := m0.Clone()
			m.Part.Message.Slot = sh.slot
			m.Slot = m.Part.Message.Slot
			addMsg("slot-window", sh.name, false, m)
		}
		if ttlSlots < 1<<30 {
			for _, k := range []uint64{ttlSlots + 3, ttlSlots + 40} {
				d := hd
				d.at = hd.at.Add(time.Duration(k) * slotDur)
				add("slot-window", fmt.Sprintf("received-%d-slots-later(late)", k), false, d)
			}
		}
		return out
	}

	// --- consensus messages
	sm0 := m0.Cons
	kind := kindOf(sm0)
	signer := sm0.Signers[0]
	q := v.Quorum()
	seq := func(a, b int) []spectypes.OperatorID {
		var l []spectypes.OperatorID
		for x := a; x <= b; x++ {
			l = append(l, spectypes.OperatorID(x))
		}
		return l
	}
	// signers
	type sgm struct {
		name string
		ids  []spectypes.OperatorID
	}
	var sgs []sgm
	if kind == "decided" {
		l := append([]spectypes.OperatorID(nil), sm0.Signers...)
		sw := append([]spectypes.OperatorID(nil), l...)
		sw[0], sw[1] = sw[1], sw[0]
		dup := append([]spectypes.OperatorID(nil), l...)
		dup[1] = dup[0]
		z := append([]spectypes.OperatorID(nil), l...)
		z[0] = 0
		nm := append([]spectypes.OperatorID(nil), l...)
		nm[len(nm)-1] = spectypes.OperatorID(n + 1)
		sgs = append(sgs, sgm{"unsorted", sw}, sgm{"duplicate", dup}, sgm{"zero-signer", z}, sgm{"non-member-signer", nm},
			sgm{"sub-quorum", seq(1, q-1)}, sgm{"more-than-committee", seq(1, n+1)}, sgm{"empty", nil})
	} else {
		sgs = append(sgs, sgm{"zero-signer", []spectypes.OperatorID{0}}, sgm{"non-member-signer", []spectypes.OperatorID{spectypes.OperatorID(n + 1)}},
			sgm{"unregistered-signer", []spectypes.OperatorID{99}}, sgm{"empty", nil}, sgm{"two-signers", seq(1, 2)})
		if kind != "commit" {
			sgs = append(sgs, sgm{"quorum-of-signers-on-non-commit", seq(1, q)}, sgm{"duplicate-pair", []spectypes.OperatorID{signer, signer}})
		} else {
			sgs = append(sgs, sgm{"unsorted-quorum", append(seq(2, q), 1)}, sgm{"quorum-with-duplicate", append(seq(1, q-1), spectypes.OperatorID(q-1))},
				sgm{"quorum-with-zero", append([]spectypes.OperatorID{0}, seq(2, q)...)}, sgm{"quorum-with-non-member", append(seq(1, q-1), spectypes.OperatorID(n+1))},
				sgm{"more-than-committee", seq(1, n+1)})
		}
	}
	for _, g := range sgs {
		m := m0.Clone()
		m.Cons.Signers = g.ids
		addMsg("signers", g.name, false, m)
	}
	// leader
	if kind == "proposal" {
		for _, d := range []int{1, 2} {
			m := m0.Clone()
			m.Cons.Signers = []spectypes.OperatorID{spectypes.OperatorID((int(signer)-1+d)%n + 1)}
			m.Sender = m.Cons.Signers[0]
			addMsg("leader", fmt.Sprintf("signed-by-leader+%d", d), false, m)
		}
	}
	// full data
	if len(sm0.FullData) > 0 {
		m := m0.Clone()
		m.Cons.FullData[len(m.Cons.FullData)-1] ^= 1
		addMsg("full-data", "full-data-byte-flipped", false, m)
		m = m0.Clone()
		m.Cons.Message.Root[7] ^= 1
		addMsg("full-data", "root-byte-flipped", false, m)
	} else {
		m := m0.Clone()
		m.Cons.FullData = []byte("Vjunk-not-matching-the-root")
		addMsg("full-data", "unrelated-full-data-attached", false, m)
	}
	// slot window
	for _, sh := range []struct {
		name string
		h    uint64
	}{{"reception-slot+2(early)", uint64(recvSlot) + 2}, {"reception-slot+40(early)", uint64(recvSlot) + 40}, {"height+2^62(alias)", uint64(sm0.Message.Height) + 1<<62}, {"height+2^63(alias)", uint64(sm0.Message.Height) + 1<<63}} {
		m := m0.Clone()
		m.Cons.Message.Height = specqbft.Height(sh.h)
		m.Cons.Message.Round = 1 // (a first-round message of a future slot)
		if sh.h >= 1<<62 {
			m.Cons.Message.Round = sm0.Message.Round
		} else if kind == "proposal" || kind == "round-change" {
			m.Cons.Message.RoundChangeJustification, m.Cons.Message.PrepareJustification, m.Cons.Message.DataRound = nil, nil, 0
			if kind == "round-change" {
				m.Cons.FullData, m.Cons.Message.Root = nil, [32]byte{}
			}
		}
		m.Slot = phase0.Slot(m.Cons.Message.Height)
		if kind == "proposal" { // keep it the leader's proposal
			l := spectypes.OperatorID(oracleLeader(n, uint64(m.Cons.Message.Height), uint64(m.Cons.Message.Round)))
			m.Cons.Signers, m.Sender = []spectypes.OperatorID{l}, l
		}
		addMsg("slot-window", sh.name, false, m)
	}
	for _, k := range []uint64{ttlSlots + 3, ttlSlots + 40} {
		d := hd
		d.at = hd.at.Add(time.Duration(k) * slotDur)
		add("slot-window", fmt.Sprintf("received-%d-slots-later(late)", k), false, d)
	}
	// round window
	est := oracleEstimatedRound(m0.At.Sub(w.Beacon.GetSlotStartTime(m0.Slot)))
	maxR := uint64(vsim.MaxRound(m0.Role))
	for _, rr := range []struct {
		name string
		r    uint64
	}{{"round=estimate+2", est + 2}, {"round=estimate+5", est + 5}, {"round=max+1", maxR + 1}, {"round=0", 0}, {"round=2^63", 1 << 63}} {
		if rr.r >= 1 && rr.r <= est+1 && rr.r <= maxR {
			continue
		}
		m := m0.Clone()
		m.Cons.Message.Round = specqbft.Round(rr.r)
		if kind == "proposal" && rr.r >= 1 && rr.r < 1<<62 {
			l := spectypes.OperatorID(oracleLeader(n, uint64(m.Cons.Message.Height), rr.r))
			m.Cons.Signers, m.Sender = []spectypes.OperatorID{l}, l
			m.Cons.Message.RoundChangeJustification, m.Cons.Message.PrepareJustification = nil, nil
		}
		addMsg("round-window", rr.name, false, m)
	}
	{
		// the same message received before its round can have started is fine (no lower bound); received in the
		// window of a role without consensus is not: consensus under validator registration / voluntary exit ids
		for _, role := range []spectypes.BeaconRole{spectypes.BNRoleValidatorRegistration, spectypes.BNRoleVoluntaryExit} {
			m := m0.Clone()
			m.Role = role
			id := v.MsgID(role)
			m.SSV.MsgID = id
			m.Cons.Message.Identifier = id[:]
			addMsg("round-window", "consensus-under-"+role.String(), false, m)
		}
	}
	// per-signer limits (validated after the honest original)
	if kind != "decided" {
		// slot regression: the same signer, one slot earlier (still inside the role's late window)
		m := m0.Clone()
		m.Cons.Message.Height--
		m.Slot--
		if kind == "proposal" {
			m.Cons.Message.MsgType = specqbft.PrepareMsgType
			m.Cons.FullData, m.Cons.Message.RoundChangeJustification, m.Cons.Message.PrepareJustification = nil, nil, nil
		}
		m.Cons.Message.Round = 1
		m.Cons.Message.DataRound, m.Cons.Message.RoundChangeJustification = 0, nil
		if kind == "round-change" {
			m.Cons.FullData = nil
			m.Cons.Message.Root = [32]byte{}
		}
		addMsg("signer-slot", "same-signer-previous-slot", true, m)
		// the same, but first the signer's post-consensus signature for that previous slot arrives late (per-slot duties:
		// the partial-signature path shares the per-signer state with the consensus path)
		if m2 := m.Clone(); remake(m2) {
			x := firstSigner(m0)
			for _, pm := range s.msgs {
				if pm.Part == nil || pm.Part.Signer != x || pm.Part.Message.Type != spectypes.PostConsensusPartialSig || pm.Role != m0.Role {
					continue
				}
				late := pm.Clone()
				late.Part.Message.Slot = m.Slot
				late.Slot = m.Slot
				if remake(late) {
					ld := e.deliver(late, post)
					ld.at = hd.at
					out = append(out, mutant{rule: "signer-slot", name: "same-signer-previous-slot-after-its-late-post-consensus-signature", after: true, d: e.deliver(m2, post), pre: []delivery{ld}})
				}
				break
			}
		}
		// round regression
		if sm0.Message.Round >= 2 {
			m := m0.Clone()
			m.Cons.Message.MsgType = specqbft.PrepareMsgType
			m.Cons.Message.Round--
			m.Cons.FullData, m.Cons.Message.RoundChangeJustification, m.Cons.Message.PrepareJustification, m.Cons.Message.DataRound = nil, nil, nil, 0
			addMsg("signer-round", "same-signer-previous-round(prepare)", true, m)
			m = m0.Clone()
			m.Cons.Message.MsgType = specqbft.CommitMsgType
			m.Cons.Message.Round = 1
			m.Cons.FullData, m.Cons.Message.RoundChangeJustification, m.Cons.Message.PrepareJustification, m.Cons.Message.DataRound = nil, nil, nil, 0
			addMsg("signer-round", "same-signer-round-1(commit)", true, m)
		}
		// duplicates
		d := hd
		d.at = hd.at.Add(10 * time.Millisecond)
		add("signer-count", "exact-replay", true, d)
		m = m0.Clone()
		if kind == "proposal" || len(m.Cons.FullData) > 0 {
			m.Cons.FullData = append([]byte("V9-other-"), m.Cons.FullData...)
			m.Cons.Message.Root, _ = specqbft.HashDataRoot(m.Cons.FullData)
			if kind == "proposal" && m.Cons.Message.Round > 1 {
				// keep the justification valid: unprepared round-changes justify any value; prepared ones do not, so the
				// second proposal keeps only the structure the gate checks last
				m.Cons.Message.PrepareJustification = sm0.Message.PrepareJustification
			}
			m.At = m.At.Add(20 * time.Millisecond)
			addMsg("signer-count", "second-"+kind+"-with-different-data", true, m)
		} else {
			m.Cons.Message.Root[3] ^= 0x55
			m.At = m.At.Add(20 * time.Millisecond)
			addMsg("signer-count", "second-"+kind+"-with-different-root", true, m)
		}
	} else {
		// a quorum commit (decided) regressing the round of its signers
		if sm0.Message.Round >= 2 {
			m := m0.Clone()
			m.Cons.Message.Round--
			addMsg("signer-round", "decided-of-previous-round", true, m)
		}
		m := m0.Clone()
		m.Cons.Message.Height--
		m.Slot--
		m.Cons.Message.Round = 1
		addMsg("signer-slot", "decided-of-previous-slot", true, m)
	}
	return out
}

// ---- lane conc ---------------------------------------------------------------------------------------------------------------

func runConc(c *evid.Case) {
	e := c.Child.Data.(*env)
	rng := c.Rng
	w := e.w
	post := rng.Intn(2) == 0
	// a stream of the 4-committee and one of another validator
	var cands []streamSpec
	for _, sp := range e.specs {
		if len(sp.duties) > 0 && vsim.MaxRound(sp.duties[0].role) > 0 {
			cands = append(cands, sp)
		}
	}
	s := e.stream(cands[rng.Intn(len(cands))])
	var i int
	for try := 0; try < 50; try++ {
		i = rng.Intn(len(s.msgs))
		if s.msgs[i].Cons != nil && kindOf(s.msgs[i].Cons) != "decided" {
			break
		}
	}
	m0 := s.msgs[i]
	if m0.Cons == nil {
		return
	}
	kind := kindOf(m0.Cons)
	mv := w.NewValidator(post, 1)
	for k := 0; k < i; k++ {
		e.validate(c, mv, e.honest(s.msgs[k], post))
	}
	K := 3 + rng.Intn(6)
	scenario := rng.Intn(4)
	if scenario == 3 {
		// cold validator (no history, empty operator-key cache): the first messages of several streams, i.e. different
		// message ids (roles / validators), mostly broadcast by the same operator, all at once
		mv = w.NewValidator(post, 1)
		i, K = 0, 0
	}
	type job struct {
		d    delivery
		key  string
		what string // kind/role of the message (for signatures)
	}
	var jobs []job
	keyOf := func(m *vsim.Msg) string {
		return fmt.Sprintf("%x/%s/signer%d/slot%d/round%d/%s", m.Val.PK[:4], m.Role, m.Cons.Signers[0], m.Cons.Message.Height, m.Cons.Message.Round, kindOf(m.Cons))
	}
	for k := 0; k < K; k++ {
		m := m0
		if scenario >= 1 && k > 0 && kind != "proposal" {
			// same signer, slot, round and type, different content
			m = m0.Clone()
			if len(m.Cons.FullData) > 0 {
				m.Cons.FullData = append([]byte(fmt.Sprintf("V%d-", k)), m.Cons.FullData...)
				m.Cons.Message.Root, _ = specqbft.HashDataRoot(m.Cons.FullData)
			} else {
				m.Cons.Message.Root[0] ^= byte(k)
			}
			if !remake(m) {
				m = m0
			}
		}
		d := e.deliver(m, post)
		d.at = m0.At
		jobs = append(jobs, job{d: d, key: keyOf(m), what: kindOf(m.Cons) + "/" + m.Role.String()})
	}
	if scenario == 3 {
		jobs = nil
		for _, sp := range e.specs {
			st := e.stream(sp)
			fm := st.msgs[0]
			d := e.honest(fm, post)
			wh := "partial-signature/" + fm.Role.String()
			key := fmt.Sprintf("%x/%s/first", fm.Val.PK[:4], fm.Role)
			if fm.Cons != nil {
				wh, key = kindOf(fm.Cons)+"/"+fm.Role.String(), keyOf(fm)
			} else {
				key += fmt.Sprintf("/partial%d", rng.Intn(1<<30)) // partial-signature messages carry no per-round limit in the statement
			}
			jobs = append(jobs, job{d: d, key: key, what: wh})
			if fm.Cons != nil {
				jobs = append(jobs, job{d: d, key: key, what: wh})
			}
		}
	}
	if scenario == 2 {
		// unrelated traffic at the same time: other validators' honest messages (each twice)
		for _, vk := range []vsim.ValKind{vsim.Liquidated, vsim.Unknown} {
			if m0.Val.N == 4 {
				r := vsim.Retarget(m0, w.Vals[vk])
				wh := kindOf(r.Cons) + "/" + r.Role.String()
				jobs = append(jobs, job{d: e.deliver(r, post), key: keyOf(r), what: wh}, job{d: e.deliver(r, post), key: keyOf(r), what: wh})
			}
		}
		other := e.stream(e.specs[rng.Intn(len(e.specs))])
		for _, om := range other.msgs[:imin(len(other.msgs), 6)] {
			if om.Cons != nil && kindOf(om.Cons) != "decided" && (om.Val != m0.Val || om.Role != m0.Role) {
				d := e.honest(om, post)
				d.at = m0.At // one clock for the whole batch (the virtual clock is shared)
				wh := kindOf(om.Cons) + "/" + om.Role.String()
				jobs = append(jobs, job{d: d, key: keyOf(om), what: wh}, job{d: d, key: keyOf(om), what: wh})
			}
		}
	}
	c.Journal("conc stream %s i=%d kind=%s K=%d scenario=%d post=%v jobs=%d", s.name, i, kind, K, scenario, post, len(jobs))
	w.Beacon.SetNow(m0.At)
	start := make(chan struct{})
	results := make([]bool, len(jobs))
	var wg sync.WaitGroup
	for j := range jobs {
		wg.Add(1)
		go func(j int) {
			defer wg.Done()
			defer func() { _ = recover() }()
			<-start
			r := w.ValidateAt(mv, vsim.Pubsub(jobs[j].d.topic, jobs[j].d.wire), jobs[j].d.at)
			results[j] = r.Accepted()
		}(j)
	}
	close(start)
	done := make(chan struct{})
	go func() { wg.Wait(); close(done) }()
	select {
	case <-done:
	case <-time.After(300 * time.Second):
		c.Inconclusive("concurrent validations did not finish within the 300 s watchdog")
		return
	}
	acc := map[string]int{}
	whatOf := map[string]string{}
	total := 0
	for j, ok := range results {
		if ok {
			acc[jobs[j].key]++
			whatOf[jobs[j].key] = jobs[j].what
			total++
		}
	}
	c.Count("conc_validations", int64(len(jobs)))
	c.Count("conc_accepts", int64(total))
	c.Count(fmt.Sprintf("conc_scenario_%d", scenario), 1)
	for k, n := range acc {
		if n > 1 {
			c.Violation("accepted-over-limit", "concurrent/"+whatOf[k],
				fmt.Sprintf("%d concurrent validations of %s messages with the same (validator, role, signer, slot, round, type) = %s were ALL accepted (limit 1); K=%d scenario=%d phase=%s after %d honest messages of %s",
					n, whatOf[k], k, K, scenario, phaseName(post), i, s.name),
				map[string]any{"key": k, "accepts": n, "K": K, "scenario": scenario, "stream": s.name, "position": i, "phase_post": post})
		}
	}
	if total > 0 {
		h := evid.Hash("conc", s.name, i, scenario, post, K)
		c.Nontrivial(h)
		c.Distinct("conc_cases", h)
	}
}

func imin(a, b int) int {
	if a < b {
		return a
	}
	return b
}
