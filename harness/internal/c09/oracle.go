package c09

// The independent rulebook: written from the statement of C09, it knows the whole world (registered operators and
// their RSA keys, shares with status / liquidation / committee, virtual time, and the messages accepted so far) and
// recomputes, for a delivery the real validator ACCEPTED, every rule the statement names. It shares no code with
// /repo: the wire is parsed here (envelope layout, SSVMessage header), bodies are decoded with the ssv-spec types,
// slot / round arithmetic is done on big integers (no wrap-around), RSA is checked with the standard library.

import (
	"encoding/binary"
	"fmt"
	"math/big"
	"time"

	specqbft "github.com/bloxapp/ssv-spec/qbft"
	spectypes "github.com/bloxapp/ssv-spec/types"

	"verifharness/internal/vsim"
)

// Switches for the two readings the statement leaves open (reported as observations; see the final report).
const (
	// BindPartialSignatureSlotWindow: "fits the slot ... window of its role" also binds partial-signature messages
	// (DESIGN S6). With false, an accepted partial-signature message outside its slot window is only counted.
	BindPartialSignatureSlotWindow = true
	// BindFullDataOnEveryType: "has any attached full data matching its root" binds every consensus message type, also
	// prepare and single-signer commit messages (which never need full data). With false only counted.
	BindFullDataOnEveryType = true
)

// accepted is one delivery the validator accepted (the oracle's history).
type accepted struct {
	pk      string
	role    spectypes.BeaconRole
	kind    string // proposal | prepare | commit | decided | round-change | partial-signature
	signers []spectypes.OperatorID
	slot    uint64
	round   uint64
	root    [32]byte
}

type finding struct {
	kind   string // violation kind
	rule   string
	detail string
}

type parsed struct {
	ok      bool
	why     string
	opID    uint64
	sig     []byte
	payload []byte
	msgType uint64
	msgID   [56]byte
	data    []byte
	cons    *specqbft.SignedMessage
	part    *spectypes.SignedPartialSignatureMessage
}

// parseWire: envelope (in the envelope phase) = 256-byte signature | 8-byte little-endian operator id | payload;
// payload = SSZ SSVMessage: 8-byte type | 56-byte id (4 domain, 48 key, 4 role) | 4-byte offset (68) | data.
func parseWire(wire []byte, post bool) parsed {
	p := parsed{}
	p.payload = wire
	if post {
		if len(wire) < 264 {
			p.why = "shorter than an envelope header"
			return p
		}
		p.sig = wire[:256]
		p.opID = binary.LittleEndian.Uint64(wire[256:264])
		p.payload = wire[264:]
	}
	if len(p.payload) < 68 {
		p.why = "shorter than an SSVMessage header"
		return p
	}
	p.msgType = binary.LittleEndian.Uint64(p.payload[:8])
	copy(p.msgID[:], p.payload[8:64])
	if binary.LittleEndian.Uint32(p.payload[64:68]) != 68 {
		p.why = "bad data offset"
		return p
	}
	p.data = p.payload[68:]
	switch p.msgType {
	case 0:
		sm := &specqbft.SignedMessage{}
		if err := sm.Decode(p.data); err != nil {
			p.why = "consensus body does not decode"
			return p
		}
		p.cons = sm
	case 1:
		sm := &spectypes.SignedPartialSignatureMessage{}
		if err := sm.Decode(p.data); err != nil {
			p.why = "partial-signature body does not decode"
			return p
		}
		p.part = sm
	default:
		p.why = fmt.Sprintf("message type %d is neither consensus nor partial signature", p.msgType)
		return p
	}
	p.ok = true
	return p
}

func kindOf(sm *specqbft.SignedMessage) string {
	switch sm.Message.MsgType {
	case specqbft.ProposalMsgType:
		return "proposal"
	case specqbft.PrepareMsgType:
		return "prepare"
	case specqbft.CommitMsgType:
		if len(sm.Signers) > 1 {
			return "decided"
		}
		return "commit"
	case specqbft.RoundChangeMsgType:
		return "round-change"
	}
	return "unknown-type"
}

// ---- own arithmetic ---------------------------------------------------------------------------------------------------

func oracleSubnetTopic(pk []byte) string {
	v := uint64(pk[0])<<32 | uint64(pk[1])<<24 | uint64(pk[2])<<16 | uint64(pk[3])<<8 | uint64(pk[4])
	return fmt.Sprintf("ssv.v2.%d", v%128)
}

// oracleLeader: round-robin over the committee 1..n starting, in round 1, at position height mod n.
func oracleLeader(n int, height, round uint64) uint64 {
	h := new(big.Int).SetUint64(height)
	r := new(big.Int).SetUint64(round)
	s := new(big.Int).Add(h, r)
	s.Sub(s, big.NewInt(1))
	s.Mod(s, big.NewInt(int64(n)))
	return s.Uint64() + 1
}

func oracleMaxRound(role spectypes.BeaconRole) uint64 {
	switch role {
	case spectypes.BNRoleAttester, spectypes.BNRoleAggregator:
		return 12
	case spectypes.BNRoleProposer, spectypes.BNRoleSyncCommittee, spectypes.BNRoleSyncCommitteeContribution:
		return 6
	}
	return 0 // validator registration / voluntary exit: no consensus at all
}

// oracleEstimatedRound: eight 2-second rounds, then 2-minute rounds (the round timer of the protocol).
func oracleEstimatedRound(sinceSlotStart time.Duration) uint64 {
	if sinceSlotStart < 0 {
		return 1
	}
	if q := 1 + uint64(sinceSlotStart/(2*time.Second)); q <= 8 {
		return q
	}
	return 9 + uint64((sinceSlotStart-16*time.Second)/(2*time.Minute))
}

const (
	genesisPrater  = 1616508000
	secondsPerSlot = 12
)

// slotStartNanos on big integers: no wrap-around for absurd slots.
func slotStartNanos(slot uint64) *big.Int {
	s := new(big.Int).SetUint64(slot)
	s.Mul(s, big.NewInt(secondsPerSlot))
	s.Add(s, big.NewInt(genesisPrater))
	return s.Mul(s, big.NewInt(1_000_000_000))
}

// slotWindow: is receivedAt inside the window of a message for `slot` of `role`? Early bound: the slot's start (minus
// the 50 ms clock tolerance). Late bound: start of slot+ttl (34 slots attester / aggregator, 3 slots proposer and sync
// committee roles, none for validator registration / voluntary exit) plus 3 s margin, 50 ms tolerance and one slot of
// allowance for slot-granular bookkeeping of the receiver.
func slotWindow(role spectypes.BeaconRole, slot uint64, receivedAt time.Time) (inside bool, why string) {
	at := big.NewInt(receivedAt.UnixNano())
	start := slotStartNanos(slot)
	tol := big.NewInt(int64(50 * time.Millisecond))
	if new(big.Int).Add(at, tol).Cmp(start) < 0 {
		d := new(big.Int).Sub(start, at)
		return false, fmt.Sprintf("received %s s before the start of its slot", new(big.Int).Div(d, big.NewInt(1e9)).String())
	}
	var ttl uint64
	switch role {
	case spectypes.BNRoleAttester, spectypes.BNRoleAggregator:
		ttl = 34
	case spectypes.BNRoleProposer, spectypes.BNRoleSyncCommittee, spectypes.BNRoleSyncCommitteeContribution:
		ttl = 3
	default:
		return true, ""
	}
	dead := slotStartNanos(slot)
	dead.Add(dead, big.NewInt(int64(ttl+1)*secondsPerSlot*1e9))
	dead.Add(dead, big.NewInt(int64(3*time.Second+50*time.Millisecond)))
	if at.Cmp(dead) > 0 {
		d := new(big.Int).Sub(at, start)
		return false, fmt.Sprintf("received %s s after the start of its slot (role allows %d slots + 3 s)", new(big.Int).Div(d, big.NewInt(1e9)).String(), ttl)
	}
	return true, ""
}

// record is the history entry of an accepted delivery (nil if the oracle cannot parse it).
func record(post bool, wire []byte) *accepted {
	p := parseWire(wire, post)
	if !p.ok {
		return nil
	}
	rec := &accepted{pk: string(p.msgID[4:52]), role: spectypes.BeaconRole(binary.LittleEndian.Uint32(p.msgID[52:56]))}
	if p.part != nil {
		rec.kind = "partial-signature"
		rec.signers = []spectypes.OperatorID{p.part.Signer}
		rec.slot = uint64(p.part.Message.Slot)
		return rec
	}
	rec.kind = kindOf(p.cons)
	rec.signers = p.cons.Signers
	rec.slot = uint64(p.cons.Message.Height)
	rec.round = uint64(p.cons.Message.Round)
	rec.root = p.cons.Message.Root
	return rec
}

// ---- the rulebook -------------------------------------------------------------------------------------------------------

type oracle struct {
	w *vsim.World
}

// check recomputes every rule for an accepted delivery. hist = deliveries accepted earlier by the same validator
// instance. It returns the findings and the record to append to the history.
func (o *oracle) check(post bool, topic string, wire []byte, receivedAt time.Time, hist []accepted, topicObservationOnly bool) ([]finding, *accepted) {
	var fs []finding
	add := func(kind, rule, format string, a ...any) {
		fs = append(fs, finding{kind: kind, rule: rule, detail: fmt.Sprintf(format, a...)})
	}
	p := parseWire(wire, post)
	if !p.ok {
		add("accepted-undecodable", "decodable", "accepted although the oracle cannot parse it: %s", p.why)
		return fs, nil
	}
	pk := p.msgID[4:52]
	role := spectypes.BeaconRole(binary.LittleEndian.Uint32(p.msgID[52:56]))
	rec := &accepted{pk: string(pk), role: role}

	// known, active, not liquidated validator
	var val *vsim.Val
	for _, v := range o.w.Vals {
		if string(v.PK) == string(pk) && v.Share != nil {
			val = v
		}
	}
	if val == nil {
		add("accepted-unknown-validator", "known-validator", "validator %x is not in the registry", pk)
		return fs, nil
	}
	switch val.Kind {
	case vsim.NoMetadata:
		add("accepted-inactive-validator", "active-validator", "validator %x has no beacon metadata (not known to be active)", pk)
	case vsim.NotAttesting:
		add("accepted-inactive-validator", "active-validator", "validator %x has exited", pk)
	case vsim.Liquidated:
		add("accepted-liquidated-validator", "not-liquidated", "validator %x is liquidated", pk)
	}
	// that validator's topic
	if want := oracleSubnetTopic(pk); topic != want && !topicObservationOnly {
		add("accepted-wrong-topic", "topic", "received on topic %q, the validator's topic is %q", topic, want)
	}
	// envelope
	if post {
		op := o.w.Ops[p.opID]
		switch {
		case op == nil || !op.Registered:
			add("accepted-bad-envelope", "envelope", "operator %d is not registered", p.opID)
		case !vsim.StdVerify(&op.Std.PublicKey, p.payload, p.sig):
			add("accepted-bad-envelope", "envelope", "signature does not verify under the registered key of operator %d over the payload", p.opID)
		}
	}
	n := val.N
	f := (n - 1) / 3
	member := func(id uint64) bool { return id >= 1 && id <= uint64(n) }

	if p.part != nil {
		rec.kind = "partial-signature"
		rec.signers = []spectypes.OperatorID{p.part.Signer}
		rec.slot = uint64(p.part.Message.Slot)
		if p.part.Signer == 0 || !member(p.part.Signer) {
			add("accepted-bad-signers", "signers", "partial-signature signer %d is not a non-zero committee member (committee 1..%d)", p.part.Signer, n)
		}
		if in, why := slotWindow(role, rec.slot, receivedAt); !in {
			if BindPartialSignatureSlotWindow {
				add("accepted-outside-slot-window", "slot-window", "partial-signature message for slot %d: %s", rec.slot, why)
			} else {
				add("observation", "slot-window/partial-signature", "partial-signature message for slot %d: %s", rec.slot, why)
			}
		}
		return fs, rec
	}

	sm := p.cons
	rec.kind = kindOf(sm)
	rec.signers = sm.Signers
	rec.slot = uint64(sm.Message.Height)
	rec.round = uint64(sm.Message.Round)
	rec.root = sm.Message.Root

	// signers: sorted, distinct, non-zero committee members; one unless a quorum-sized commit
	okSigners := len(sm.Signers) > 0
	for i, s := range sm.Signers {
		if s == 0 || !member(s) || (i > 0 && sm.Signers[i-1] >= s) {
			okSigners = false
		}
	}
	if len(sm.Signers) != 1 && !(sm.Message.MsgType == specqbft.CommitMsgType && len(sm.Signers) >= 2*f+1 && len(sm.Signers) <= n) {
		okSigners = false
	}
	if !okSigners {
		add("accepted-bad-signers", "signers", "%s with signers %v (committee 1..%d, quorum %d)", rec.kind, sm.Signers, n, 2*f+1)
	}
	// proposal from the round leader
	if sm.Message.MsgType == specqbft.ProposalMsgType && len(sm.Signers) >= 1 {
		if l := oracleLeader(n, rec.slot, rec.round); sm.Signers[0] != l {
			add("accepted-non-leader-proposal", "leader", "proposal for height %d round %d signed by %d, the round leader is %d", rec.slot, rec.round, sm.Signers[0], l)
		}
	}
	// attached full data matches the root
	if len(sm.FullData) > 0 {
		if r, err := specqbft.HashDataRoot(sm.FullData); err != nil || r != sm.Message.Root {
			needs := rec.kind == "proposal" || rec.kind == "round-change" || rec.kind == "decided"
			if needs || BindFullDataOnEveryType {
				add("accepted-fulldata-mismatch", "full-data", "%s carries %d bytes of full data whose hash is not its root", rec.kind, len(sm.FullData))
			} else {
				add("observation", "full-data/"+rec.kind, "%s carries %d bytes of full data whose hash is not its root", rec.kind, len(sm.FullData))
			}
		}
	}
	// slot window
	inSlotWindow, why := slotWindow(role, rec.slot, receivedAt)
	if !inSlotWindow {
		rule := "slot-window"
		if rec.slot >= 1<<62 {
			rule = "slot-window/slot>=2^62" // no real slot: the receiver's slot -> time arithmetic must have wrapped around
		}
		add("accepted-outside-slot-window", rule, "%s for slot %d: %s", rec.kind, rec.slot, why)
	}
	// round window (relative to the slot's start: meaningless, and not reported again, when the slot window already failed)
	since := time.Duration(0)
	if d := new(big.Int).Sub(big.NewInt(receivedAt.UnixNano()), slotStartNanos(rec.slot)); d.Sign() > 0 && d.IsInt64() {
		since = time.Duration(d.Int64())
	} else if d.Sign() > 0 {
		since = time.Duration(1<<63 - 1)
	}
	est := oracleEstimatedRound(since)
	if maxR := oracleMaxRound(role); inSlotWindow && (rec.round < 1 || rec.round > maxR || rec.round > est+1) {
		add("accepted-outside-round-window", "round-window", "%s with round %d: role %s allows 1..%d, %v after the slot start rounds up to %d are expected", rec.kind, rec.round, role, maxR, since.Round(time.Millisecond), est+1)
	}
	// per-signer limits against the consensus messages accepted so far for this validator and role
	for _, s := range sm.Signers {
		var maxSlot, maxRound uint64
		seen := false
		same := 0
		for _, h := range hist {
			if h.pk != rec.pk || h.role != role || h.kind == "partial-signature" || !contains(h.signers, s) {
				continue
			}
			if !seen || h.slot > maxSlot {
				maxSlot, maxRound = h.slot, h.round
			} else if h.slot == maxSlot && h.round > maxRound {
				maxRound = h.round
			}
			seen = true
			if h.slot == rec.slot && h.round == rec.round && h.kind == rec.kind {
				same++
			}
		}
		if !seen {
			continue
		}
		if rec.slot < maxSlot {
			add("accepted-slot-regression", "signer-slot", "signer %d already sent an accepted message for slot %d, this %s is for slot %d", s, maxSlot, rec.kind, rec.slot)
		} else if rec.slot == maxSlot && rec.round < maxRound {
			add("accepted-round-regression", "signer-round", "signer %d already sent an accepted message for round %d of slot %d, this %s is for round %d", s, maxRound, maxSlot, rec.kind, rec.round)
		}
		if same >= 1 && rec.kind != "decided" {
			add("accepted-over-limit", "signer-count", "signer %d: %d %s message(s) already accepted for slot %d round %d (limit 1)", s, same, rec.kind, rec.slot, rec.round)
		}
	}
	return fs, rec
}

func contains(l []spectypes.OperatorID, s spectypes.OperatorID) bool {
	for _, x := range l {
		if x == s {
			return true
		}
	}
	return false
}
