// Package qsim is simulator A of DESIGN.md: N real controller.Controller objects (real instances, real BLS
// share keys, real ibft storage on in-memory badger, signature verification on) connected by a
// seed-driven adversarial scheduler that owns the in-flight multiset of (message, destination) and
// chooses among deliver / drop / duplicate / fire a node's armed timeout / let a Byzantine operator act.
// It is single-threaded and fully deterministic given the rng.
package qsim

import (
	"bytes"
	"context"
	"encoding/json"
	"fmt"
	"math/rand"
	"sort"

	specqbft "github.com/bloxapp/ssv-spec/qbft"
	spectypes "github.com/bloxapp/ssv-spec/types"
	"github.com/bloxapp/ssv-spec/types/testingutils"
	"github.com/herumi/bls-eth-go-binary/bls"
	"go.uber.org/zap"

	ibftstorage "github.com/bloxapp/ssv/ibft/storage"
	"github.com/bloxapp/ssv/protocol/v2/qbft"
	"github.com/bloxapp/ssv/protocol/v2/qbft/controller"
	"github.com/bloxapp/ssv/protocol/v2/qbft/instance"
	qbftstorage "github.com/bloxapp/ssv/protocol/v2/qbft/storage"
	ssvtypes "github.com/bloxapp/ssv/protocol/v2/types"
	"github.com/bloxapp/ssv/storage/basedb"
	"github.com/bloxapp/ssv/storage/kv"
)

var Domain = testingutils.TestingSSVDomainType

// Env is per child process.
type Env struct {
	DB     basedb.Database
	Logger *zap.Logger
	seq    int
}

func NewEnv() *Env {
	lg := zap.NewNop()
	db, err := kv.NewInMemory(lg, basedb.Options{Ctx: context.Background()})
	if err != nil {
		panic(err)
	}
	return &Env{DB: db, Logger: lg}
}

func KeySet(n int) *testingutils.TestKeySet {
	switch n {
	case 4:
		return testingutils.Testing4SharesSet()
	case 7:
		return testingutils.Testing7SharesSet()
	case 10:
		return testingutils.Testing10SharesSet()
	case 13:
		return testingutils.Testing13SharesSet()
	}
	panic("bad committee size")
}

// ValueCheck is the operators' value check: values start with 'V'.
func ValueCheck(data []byte) error {
	if len(data) < 2 || data[0] != 'V' {
		return fmt.Errorf("invalid value")
	}
	return nil
}

// Leader is the oracle's own round-robin leader formula (written from the documented rule, not by calling the code).
func Leader(n int, height specqbft.Height, round specqbft.Round) spectypes.OperatorID {
	first := 0
	if height != 0 {
		first = int(uint64(height) % uint64(n))
	}
	return spectypes.OperatorID((first+int(round)-1)%n + 1)
}

// Sign signs a qbft message with operator id's share key.
func Sign(ks *testingutils.TestKeySet, id spectypes.OperatorID, msg *specqbft.Message) *specqbft.SignedMessage {
	r, err := spectypes.ComputeSigningRoot(msg, spectypes.ComputeSignatureDomain(Domain, spectypes.QBFTSignatureType))
	if err != nil {
		panic(err)
	}
	sig := ks.Shares[id].SignByte(r[:])
	return &specqbft.SignedMessage{Message: *msg, Signers: []spectypes.OperatorID{id}, Signature: sig.Serialize()}
}

func Root(v []byte) [32]byte {
	r, _ := specqbft.HashDataRoot(v)
	return r
}

func ShareFor(ks *testingutils.TestKeySet, id spectypes.OperatorID) *spectypes.Share {
	return &spectypes.Share{
		OperatorID:      id,
		ValidatorPubKey: ks.ValidatorPK.Serialize(),
		SharePubKey:     ks.Shares[id].GetPublicKey().Serialize(),
		DomainType:      Domain,
		Quorum:          ks.Threshold,
		PartialQuorum:   ks.PartialThreshold,
		Committee:       ks.Committee(),
	}
}

// ---- node -----------------------------------------------------------------------------------

type InputKind int

const (
	InStart InputKind = iota
	InMsg
	InTimeout
)

// Input is one input handed to a node (the per-node trace is the workload of the differential monitor C06).
type Input struct {
	Kind  InputKind
	Msg   *specqbft.SignedMessage
	Round specqbft.Round // timeout round
	Err   bool           // controller returned an error
}

type SaveEvent struct {
	Kind   string // SaveInstance | SaveHighestInstance | SaveHighestAndHistoricalInstance
	Stored *qbftstorage.StoredInstance
}

type Node struct {
	ID       spectypes.OperatorID
	Share    *spectypes.Share
	Ctrl     *controller.Controller
	Cfg      *qbft.Config
	Store    *recStore
	Byz      bool
	Silent   bool
	Start    []byte
	Refuses  []byte // a value this operator's own value check rejects although it is well formed (Config.Picky)
	ArmedH   specqbft.Height
	ArmedR   specqbft.Round // 0 = not armed
	Arms     int
	Trace    []Input
	Outbox   []*specqbft.SignedMessage // broadcasts of the current step
	AllOut   []*specqbft.SignedMessage
	Returned []*specqbft.SignedMessage // decided messages returned by ProcessMsg
	cl       *Cluster
}

type capNet struct{ n *Node }

func (c *capNet) Broadcast(m *spectypes.SSVMessage) error {
	sm := &specqbft.SignedMessage{}
	if err := sm.Decode(m.Data); err != nil {
		panic("node broadcast undecodable message: " + err.Error())
	}
	c.n.Outbox = append(c.n.Outbox, sm)
	c.n.AllOut = append(c.n.AllOut, sm)
	return nil
}

type capTimer struct{ n *Node }

func (t *capTimer) TimeoutForRound(h specqbft.Height, r specqbft.Round) {
	t.n.ArmedH, t.n.ArmedR = h, r
	t.n.Arms++
}

type recStore struct {
	qbftstorage.QBFTStore
	n *Node
}

func (s *recStore) SaveInstance(i *qbftstorage.StoredInstance) error {
	s.n.cl.saved(s.n, "SaveInstance", i)
	return s.QBFTStore.SaveInstance(i)
}
func (s *recStore) SaveHighestInstance(i *qbftstorage.StoredInstance) error {
	s.n.cl.saved(s.n, "SaveHighestInstance", i)
	return s.QBFTStore.SaveHighestInstance(i)
}
func (s *recStore) SaveHighestAndHistoricalInstance(i *qbftstorage.StoredInstance) error {
	s.n.cl.saved(s.n, "SaveHighestAndHistoricalInstance", i)
	return s.QBFTStore.SaveHighestAndHistoricalInstance(i)
}

// ---- cluster ----------------------------------------------------------------------------------

type Flight struct {
	Msg  *specqbft.SignedMessage
	To   spectypes.OperatorID
	From spectypes.OperatorID
	Byz  bool // crafted by a Byzantine operator
}

type Config struct {
	N          int
	Height     specqbft.Height
	NumByz     int  // 0..f
	SilentByz  bool // Byzantine operators are merely silent
	ValueMode  int  // 0 all equal, 1 all different, 2 two camps
	Policy     int  // scheduling policy, see Step
	MaxSteps   int
	MaxRound   int // stop firing timeouts beyond this round
	FullNode   bool
	Role       spectypes.BeaconRole
	NoSelfLoop bool
	// RunnerCompaction: after every delivered round-change or decided-shaped message the instance of that height is
	// compacted exactly like runner.compactInstanceIfNeeded does in the real node (the controller alone never compacts).
	RunnerCompaction bool
	ByzIDs           []int // optional explicit choice of the Byzantine operators (indices 0..N-1); nil = drawn by the rng
	// Picky > 0: operator number Picky (if correct) refuses one of the values that the others accept (its own value check
	// differs, as with per-operator slashing-protection stores); PickyValue indexes Values
	Picky      int
	PickyValue int
}

type Cluster struct {
	Refusals []string // proposals of correct round leaders that a correct, undecided operator without an accepted proposal refused
	Env      *Env
	Rng      *rand.Rand
	Cfg      Config
	KS       *testingutils.TestKeySet
	F        int
	ID       []byte
	Nodes    []*Node // index = operator id - 1
	Pool     []*Flight
	Seen     []*specqbft.SignedMessage // everything ever broadcast (what a Byzantine operator knows)
	Values   [][]byte
	Steps    int
	Acts     []string // action log (compact) for replay/witness
	// counters
	Delivered, Dropped, Duplicated, Timeouts, ByzMsgs, ByzAccepted, Compactions int
	// hooks (monitors)
	OnSave     func(n *Node, ev SaveEvent)
	OnReturned func(n *Node, decided *specqbft.SignedMessage, via *specqbft.SignedMessage)
	// policy state
	slow     map[spectypes.OperatorID]bool
	phaseEnd int
	tag      string
}

func (c *Cluster) saved(n *Node, kind string, i *qbftstorage.StoredInstance) {
	if c.OnSave != nil {
		c.OnSave(n, SaveEvent{Kind: kind, Stored: i})
	}
}

func NewCluster(env *Env, rng *rand.Rand, cfg Config) *Cluster {
	env.seq++
	ks := KeySet(cfg.N)
	if cfg.Role == 0 && false {
		cfg.Role = spectypes.BNRoleAttester
	}
	id := spectypes.NewMsgID(Domain, ks.ValidatorPK.Serialize(), cfg.Role)
	c := &Cluster{Env: env, Rng: rng, Cfg: cfg, KS: ks, F: (cfg.N - 1) / 3, ID: id[:], slow: map[spectypes.OperatorID]bool{},
		tag: fmt.Sprintf("c%d", env.seq)}
	// values in play
	for i := 0; i < 4; i++ {
		c.Values = append(c.Values, []byte(fmt.Sprintf("V%d-value", i+1))) // independent of the env counter: a prefix re-run from its seed is identical
	}
	byz := map[int]bool{}
	for _, i := range cfg.ByzIDs {
		byz[i] = true
	}
	for cfg.ByzIDs == nil && len(byz) < cfg.NumByz {
		byz[rng.Intn(cfg.N)] = true
	}
	for i := 0; i < cfg.N; i++ {
		oid := spectypes.OperatorID(i + 1)
		n := &Node{ID: oid, Share: ShareFor(ks, oid), cl: c, Byz: byz[i], Silent: byz[i] && cfg.SilentByz}
		switch cfg.ValueMode {
		case 0:
			n.Start = c.Values[0]
		case 1:
			n.Start = c.Values[i%len(c.Values)]
		default:
			n.Start = c.Values[i%2]
		}
		if cfg.Picky == i+1 && !n.Byz {
			n.Refuses = c.Values[cfg.PickyValue%len(c.Values)]
			if bytes.Equal(n.Start, n.Refuses) {
				n.Start = c.Values[(cfg.PickyValue+1)%len(c.Values)]
			}
		}
		n.Store = &recStore{QBFTStore: ibftstorage.New(env.DB, fmt.Sprintf("%s-n%d", c.tag, i)), n: n}
		n.Cfg = &qbft.Config{
			Signer:                testingutils.NewTestingKeyManager(),
			SigningPK:             ks.Shares[oid].GetPublicKey().Serialize(),
			Domain:                Domain,
			ValueCheckF:           n.ValueCheck,
			ProposerF:             specqbft.RoundRobinProposer,
			Storage:               n.Store,
			Network:               &capNet{n},
			Timer:                 &capTimer{n},
			SignatureVerification: true,
		}
		n.Ctrl = controller.NewController(c.ID, n.Share, n.Cfg, cfg.FullNode)
		c.Nodes = append(c.Nodes, n)
	}
	return c
}

// ValueCheck is this operator's own value check.
func (n *Node) ValueCheck(data []byte) error {
	if n.Refuses != nil && bytes.Equal(data, n.Refuses) {
		return fmt.Errorf("value refused by this operator's own check")
	}
	return ValueCheck(data)
}

func (c *Cluster) Honest() []*Node {
	var r []*Node
	for _, n := range c.Nodes {
		if !n.Byz {
			r = append(r, n)
		}
	}
	return r
}

func (c *Cluster) ByzNodes() []*Node {
	var r []*Node
	for _, n := range c.Nodes {
		if n.Byz {
			r = append(r, n)
		}
	}
	return r
}

func (c *Cluster) act(format string, a ...any) {
	if len(c.Acts) < 4000 {
		c.Acts = append(c.Acts, fmt.Sprintf(format, a...))
	}
}

// StartAll starts the instance for cfg.Height on every honest node.
func (c *Cluster) StartAll() {
	for _, n := range c.Honest() {
		c.StartNode(n)
	}
}

func (c *Cluster) StartNode(n *Node) {
	n.Outbox = nil
	err := n.Ctrl.StartNewInstance(c.Env.Logger, c.Cfg.Height, n.Start)
	n.Trace = append(n.Trace, Input{Kind: InStart, Err: err != nil})
	c.act("start n%d h%d v=%s err=%v", n.ID, c.Cfg.Height, n.Start, err != nil)
	c.flush(n)
}

// flush moves a node's fresh broadcasts into the pool (to every honest node incl. itself) and into Seen.
func (c *Cluster) flush(n *Node) {
	for _, m := range n.Outbox {
		c.Seen = append(c.Seen, m)
		for _, d := range c.Nodes {
			if d.Byz {
				continue
			}
			if d == n && c.Cfg.NoSelfLoop {
				continue
			}
			c.Pool = append(c.Pool, &Flight{Msg: m, To: d.ID, From: n.ID})
		}
	}
	n.Outbox = nil
}

// Deliver hands a message to a node's controller (the real entry point of consensus traffic).
func (c *Cluster) Deliver(n *Node, m *specqbft.SignedMessage, byz bool) error {
	n.Outbox = nil
	// every node gets its own copy, like bytes off the wire
	cp := &specqbft.SignedMessage{}
	enc, err := m.Encode()
	if err != nil {
		return err
	}
	if err := cp.Decode(enc); err != nil {
		return err
	}
	// a correct round leader's proposal is always justified: an undecided correct operator in that round or below, without an
	// accepted proposal for it, has no reason to turn it down
	watch := false
	if !byz && !n.Byz && cp.Message.MsgType == specqbft.ProposalMsgType && len(cp.Signers) == 1 && cp.Message.Height == c.Cfg.Height &&
		int(cp.Signers[0]) >= 1 && int(cp.Signers[0]) <= len(c.Nodes) && !c.Nodes[cp.Signers[0]-1].Byz && cp.Signers[0] == Leader(c.Cfg.N, c.Cfg.Height, cp.Message.Round) {
		if st := n.Inst(); st != nil && !st.Decided && st.Round <= cp.Message.Round && !(st.ProposalAcceptedForCurrentRound != nil && st.Round == cp.Message.Round) {
			watch = n.Refuses == nil || !bytes.Equal(cp.FullData, n.Refuses)
		}
	}
	dec, err := n.Ctrl.ProcessMsg(c.Env.Logger, cp)
	if watch && err != nil {
		c.Refusals = append(c.Refusals, fmt.Sprintf("n%d refused %s: %v", n.ID, Desc(cp), err))
	}
	if c.Cfg.RunnerCompaction {
		if inst := n.Ctrl.StoredInstances.FindInstance(cp.Message.Height); inst != nil {
			if cp.Message.MsgType == specqbft.RoundChangeMsgType || (cp.Message.MsgType == specqbft.CommitMsgType && n.Share.HasQuorum(len(cp.Signers))) {
				instance.Compact(inst.State, cp)
				c.Compactions++
			}
		}
	}
	n.Trace = append(n.Trace, Input{Kind: InMsg, Msg: m, Err: err != nil})
	c.Delivered++
	if byz && err == nil {
		c.ByzAccepted++
	}
	if dec != nil {
		n.Returned = append(n.Returned, dec)
		if c.OnReturned != nil {
			c.OnReturned(n, dec, m)
		}
	}
	c.flush(n)
	return err
}

// FireTimeout delivers the timeout event for the node's armed (height, round), like the validator's
// timer callback -> queue -> Controller.OnTimeout path does.
func (c *Cluster) FireTimeout(n *Node) error {
	return c.FireTimeoutFor(n, n.ArmedH, n.ArmedR)
}

func (c *Cluster) FireTimeoutFor(n *Node, h specqbft.Height, r specqbft.Round) error {
	n.Outbox = nil
	data, _ := json.Marshal(&ssvtypes.TimeoutData{Height: h, Round: r})
	err := n.Ctrl.OnTimeout(c.Env.Logger, ssvtypes.EventMsg{Type: ssvtypes.Timeout, Data: data})
	n.Trace = append(n.Trace, Input{Kind: InTimeout, Round: r, Err: err != nil})
	c.Timeouts++
	c.flush(n)
	return err
}

func (n *Node) Inst() *specqbft.State {
	i := n.Ctrl.StoredInstances.FindInstance(n.cl.Cfg.Height)
	if i == nil {
		return nil
	}
	return i.State
}

func (n *Node) Decided() (bool, []byte) {
	if s := n.Inst(); s != nil {
		return s.Decided, s.DecidedValue
	}
	return false, nil
}

// AbstractState is the hashed coverage state: per honest node (round, prepared round, prepared value,
// accepted-proposal value, decided value).
func (c *Cluster) AbstractState() string {
	s := ""
	for _, n := range c.Honest() {
		st := n.Inst()
		if st == nil {
			s += "-|"
			continue
		}
		pv, av, dv := "", "", ""
		if st.LastPreparedValue != nil {
			pv = string(st.LastPreparedValue[:2])
		}
		if st.ProposalAcceptedForCurrentRound != nil && len(st.ProposalAcceptedForCurrentRound.FullData) >= 2 {
			av = string(st.ProposalAcceptedForCurrentRound.FullData[:2])
		}
		if st.Decided && len(st.DecidedValue) >= 2 {
			dv = string(st.DecidedValue[:2])
		}
		s += fmt.Sprintf("%d,%d,%s,%s,%s|", st.Round, st.LastPreparedRound, pv, av, dv)
	}
	return s
}

func (c *Cluster) AllHonestDecided() bool {
	for _, n := range c.Honest() {
		if d, _ := n.Decided(); !d {
			return false
		}
	}
	return true
}

func (c *Cluster) MaxHonestRound() specqbft.Round {
	var r specqbft.Round
	for _, n := range c.Honest() {
		if st := n.Inst(); st != nil && st.Round > r {
			r = st.Round
		}
	}
	return r
}

// ---- the adversarial scheduler --------------------------------------------------------------------

// Step performs one scheduler action. Returns false when nothing can happen any more.
func (c *Cluster) Step() bool {
	if c.Steps >= c.Cfg.MaxSteps {
		return false
	}
	c.Steps++
	rng := c.Rng
	// policy phases: slow set re-drawn now and then
	if c.Steps >= c.phaseEnd {
		c.phaseEnd = c.Steps + 10 + rng.Intn(60)
		c.slow = map[spectypes.OperatorID]bool{}
		switch c.Cfg.Policy {
		case 1: // partition: a random subset of honest nodes is starved
			for _, n := range c.Honest() {
				if rng.Intn(2) == 0 {
					c.slow[n.ID] = true
				}
			}
		case 3: // late joiner: one node starved during the first phase only
			if c.Steps < 5 {
				h := c.Honest()
				c.slow[h[rng.Intn(len(h))].ID] = true
				c.phaseEnd = c.Steps + 30 + rng.Intn(100)
			}
		}
	}
	wDeliver, wDrop, wDup, wTimeout, wByz := 70, 4, 4, 6, 16
	switch c.Cfg.Policy {
	case 2: // near-synchronous
		wDrop, wDup, wTimeout = 1, 1, 2
	case 4: // lossy
		wDrop, wTimeout = 15, 12
	}
	if len(c.ByzNodes()) == 0 || c.Cfg.SilentByz {
		wByz = 0
	}
	if len(c.Pool) == 0 {
		wDeliver, wDrop, wDup = 0, 0, 0
		wTimeout += 20
	}
	tot := wDeliver + wDrop + wDup + wTimeout + wByz
	if tot == 0 {
		return false
	}
	k := rng.Intn(tot)
	switch {
	case k < wDeliver:
		i := c.pickFlight()
		f := c.Pool[i]
		c.Pool = append(c.Pool[:i], c.Pool[i+1:]...)
		err := c.Deliver(c.Nodes[f.To-1], f.Msg, f.Byz)
		c.act("deliver %s -> n%d err=%v", Desc(f.Msg), f.To, err != nil)
	case k < wDeliver+wDrop:
		i := rng.Intn(len(c.Pool))
		c.act("drop %s -> n%d", Desc(c.Pool[i].Msg), c.Pool[i].To)
		c.Pool = append(c.Pool[:i], c.Pool[i+1:]...)
		c.Dropped++
	case k < wDeliver+wDrop+wDup:
		f := c.Pool[rng.Intn(len(c.Pool))]
		c.Pool = append(c.Pool, &Flight{Msg: f.Msg, To: f.To, From: f.From, Byz: f.Byz})
		c.Duplicated++
		c.act("dup %s -> n%d", Desc(f.Msg), f.To)
	case k < wDeliver+wDrop+wDup+wTimeout:
		var cand []*Node
		for _, n := range c.Honest() {
			st := n.Inst()
			if st != nil && !st.Decided && n.ArmedR != 0 && int(st.Round) <= c.Cfg.MaxRound {
				cand = append(cand, n)
			}
		}
		if len(cand) == 0 {
			if len(c.Pool) == 0 && wByz == 0 {
				return false
			}
			return true
		}
		n := cand[rng.Intn(len(cand))]
		// prefer starved nodes
		for _, x := range cand {
			if c.slow[x.ID] && rng.Intn(2) == 0 {
				n = x
			}
		}
		r := n.ArmedR
		err := c.FireTimeout(n)
		c.act("timeout n%d r%d err=%v", n.ID, r, err != nil)
	default:
		c.ByzAct()
	}
	return true
}

func (c *Cluster) pickFlight() int {
	rng := c.Rng
	// messages to starved nodes are picked with low probability
	for try := 0; try < 4; try++ {
		i := rng.Intn(len(c.Pool))
		if c.Cfg.Policy == 2 {
			i = 0
			if rng.Intn(5) == 0 {
				i = rng.Intn(len(c.Pool))
			}
		}
		if !c.slow[c.Pool[i].To] || rng.Intn(8) == 0 {
			return i
		}
	}
	return rng.Intn(len(c.Pool))
}

// Desc renders a message compactly.
func Desc(m *specqbft.SignedMessage) string {
	t := []string{"PROPOSAL", "PREPARE", "COMMIT", "RC"}
	tn := fmt.Sprint(m.Message.MsgType)
	if int(m.Message.MsgType) < len(t) {
		tn = t[m.Message.MsgType]
	}
	v := ""
	if len(m.FullData) >= 2 {
		v = " v=" + string(m.FullData[:2])
	}
	pr := ""
	if m.Message.MsgType == specqbft.RoundChangeMsgType && m.Message.DataRound != 0 {
		pr = fmt.Sprintf(" pr=%d", m.Message.DataRound)
	}
	return fmt.Sprintf("%s{h%d r%d s%v root=%x%s%s}", tn, m.Message.Height, m.Message.Round, m.Signers, m.Message.Root[:2], v, pr)
}

// ---- Byzantine operators ----------------------------------------------------------------------------

func (c *Cluster) byzSend(from *Node, m *specqbft.SignedMessage, what string) {
	c.Seen = append(c.Seen, m)
	// selective delivery: each honest node with probability 1/2..1, at least one
	hs := c.Honest()
	p := 1 + c.Rng.Intn(4)
	sent := 0
	for _, d := range hs {
		if c.Rng.Intn(4) < p {
			c.Pool = append(c.Pool, &Flight{Msg: m, To: d.ID, From: from.ID, Byz: true})
			sent++
		}
	}
	if sent == 0 {
		d := hs[c.Rng.Intn(len(hs))]
		c.Pool = append(c.Pool, &Flight{Msg: m, To: d.ID, From: from.ID, Byz: true})
	}
	c.ByzMsgs++
	c.act("byz n%d %s: %s", from.ID, what, Desc(m))
}

func (c *Cluster) seenOf(t specqbft.MessageType, round specqbft.Round) []*specqbft.SignedMessage {
	var r []*specqbft.SignedMessage
	for _, m := range c.Seen {
		if m.Message.MsgType == t && m.Message.Height == c.Cfg.Height && len(m.Signers) == 1 && (round == 0 || m.Message.Round == round) {
			r = append(r, m)
		}
	}
	return r
}

// uniqueBySigner keeps the first message per signer, optionally filtered.
func uniqueBySigner(ms []*specqbft.SignedMessage, keep func(*specqbft.SignedMessage) bool) []*specqbft.SignedMessage {
	seen := map[spectypes.OperatorID]bool{}
	var r []*specqbft.SignedMessage
	for _, m := range ms {
		if keep != nil && !keep(m) {
			continue
		}
		if seen[m.Signers[0]] {
			continue
		}
		seen[m.Signers[0]] = true
		r = append(r, m)
	}
	return r
}

func (c *Cluster) anyValue() []byte {
	// mostly values in play, sometimes an invalid one
	if c.Rng.Intn(12) == 0 {
		return []byte("X-invalid")
	}
	return c.Values[c.Rng.Intn(len(c.Values))]
}

func (c *Cluster) roundInPlay() specqbft.Round {
	mr := c.MaxHonestRound()
	if mr == 0 {
		mr = 1
	}
	switch k := c.Rng.Intn(10); {
	case k < 6:
		return mr
	case k < 8:
		return mr + 1
	case k < 9 && mr > 1:
		return mr - 1
	}
	return specqbft.Round(1 + c.Rng.Intn(int(mr)+2))
}

// preparedRC builds a prepared round-change for round r signed by b, justified by seen prepares for (pr, root) if a
// quorum of them exists (honestly prepared), else with whatever there is (forged / sub-quorum).
func (c *Cluster) mkRoundChange(b *Node, r specqbft.Round, wantPrepared bool) *specqbft.SignedMessage {
	msg := &specqbft.Message{MsgType: specqbft.RoundChangeMsgType, Height: c.Cfg.Height, Round: r, Identifier: c.ID}
	var full []byte
	if wantPrepared {
		// find a (round, root) with most prepares seen
		type key struct {
			r    specqbft.Round
			root [32]byte
		}
		cnt := map[key][]*specqbft.SignedMessage{}
		for _, p := range c.seenOf(specqbft.PrepareMsgType, 0) {
			if p.Message.Round < r {
				k := key{p.Message.Round, p.Message.Root}
				cnt[k] = append(cnt[k], p)
			}
		}
		var keys []key
		for k := range cnt {
			keys = append(keys, k)
		}
		sort.Slice(keys, func(i, j int) bool {
			if keys[i].r != keys[j].r {
				return keys[i].r < keys[j].r
			}
			return string(keys[i].root[:]) < string(keys[j].root[:])
		})
		if len(keys) > 0 {
			k := keys[c.Rng.Intn(len(keys))]
			ps := uniqueBySigner(cnt[k], nil)
			// add own prepare for that root
			own := Sign(c.KS, b.ID, &specqbft.Message{MsgType: specqbft.PrepareMsgType, Height: c.Cfg.Height, Round: k.r, Identifier: c.ID, Root: k.root})
			has := false
			for _, p := range ps {
				if p.Signers[0] == b.ID {
					has = true
				}
			}
			if !has {
				ps = append(ps, own)
			}
			if len(ps) > 13 {
				ps = ps[:13]
			}
			js, _ := specqbft.MarshalJustifications(ps)
			msg.RoundChangeJustification = js
			msg.DataRound = k.r
			msg.Root = k.root
			for _, v := range append(c.Values, []byte("X-invalid")) {
				if Root(v) == k.root {
					full = v
				}
			}
		}
	}
	sm := Sign(c.KS, b.ID, msg)
	sm.FullData = full
	return sm
}

// ByzAct lets one Byzantine operator emit one message drawn from the protocol grammar.
func (c *Cluster) ByzAct() {
	bs := c.ByzNodes()
	if len(bs) == 0 {
		return
	}
	rng := c.Rng
	b := bs[rng.Intn(len(bs))]
	h := c.Cfg.Height
	switch k := rng.Intn(100); {
	case k < 22: // proposal (equivocating: each call picks a value; selective delivery does the rest)
		r := c.roundInPlay()
		// prefer rounds this operator leads
		for try := 0; try < 3 && Leader(c.Cfg.N, h, r) != b.ID; try++ {
			r = c.roundInPlay()
		}
		v := c.anyValue()
		var rcs, prs []*specqbft.SignedMessage
		if r > 1 {
			rcs = uniqueBySigner(c.seenOf(specqbft.RoundChangeMsgType, r), nil)
			own := c.mkRoundChange(b, r, rng.Intn(3) == 0)
			hasOwn := false
			for _, m := range rcs {
				if m.Signers[0] == b.ID {
					hasOwn = true
				}
			}
			if !hasOwn {
				rcs = append(rcs, own)
			}
			mode := rng.Intn(4)
			if mode == 0 {
				// only unprepared round changes (may be sub-quorum)
				rcs = uniqueBySigner(rcs, func(m *specqbft.SignedMessage) bool { return !m.Message.RoundChangePrepared() })
			}
			// honest choice of value: highest prepared among the round changes
			var hp *specqbft.SignedMessage
			for _, m := range rcs {
				if m.Message.RoundChangePrepared() && (hp == nil || hp.Message.DataRound < m.Message.DataRound) {
					hp = m
				}
			}
			if hp != nil {
				prs, _ = hp.Message.GetRoundChangeJustifications()
				if mode != 1 && hp.FullData != nil { // mode 1: propose another value anyway
					v = hp.FullData
				}
			}
			if rng.Intn(6) == 0 {
				// pad the justification with what the missing correct operators broadcast for this round NUMBER at a neighbouring
				// height of the same validator and role (recorded there by the adversary): unprepared round-changes
				hOther := h + 1
				if h > 0 {
					hOther = h - 1
				}
				have := map[spectypes.OperatorID]bool{}
				for _, m := range rcs {
					have[m.Signers[0]] = true
				}
				for _, n := range c.Honest() {
					if !have[n.ID] {
						rcs = append(rcs, c.MkUnpreparedRCAt(n, hOther, r))
					}
				}
			}
		}
		if len(rcs) > 13 {
			rcs = rcs[:13]
		}
		if len(prs) > 13 {
			prs = prs[:13]
		}
		rcj, _ := specqbft.MarshalJustifications(rcs)
		pj, _ := specqbft.MarshalJustifications(prs)
		sm := Sign(c.KS, b.ID, &specqbft.Message{MsgType: specqbft.ProposalMsgType, Height: h, Round: r, Identifier: c.ID,
			Root: Root(v), RoundChangeJustification: rcj, PrepareJustification: pj})
		sm.FullData = v
		c.byzSend(b, sm, "proposal")
	case k < 45: // prepare for a proposal in play (or any value)
		r := c.roundInPlay()
		root := Root(c.anyValue())
		if ps := c.seenOf(specqbft.ProposalMsgType, r); len(ps) > 0 && rng.Intn(4) != 0 {
			root = ps[rng.Intn(len(ps))].Message.Root
		}
		c.byzSend(b, Sign(c.KS, b.ID, &specqbft.Message{MsgType: specqbft.PrepareMsgType, Height: h, Round: r, Identifier: c.ID, Root: root}), "prepare")
	case k < 68: // commit
		r := c.roundInPlay()
		root := Root(c.anyValue())
		if ps := c.seenOf(specqbft.ProposalMsgType, r); len(ps) > 0 && rng.Intn(4) != 0 {
			root = ps[rng.Intn(len(ps))].Message.Root
		}
		c.byzSend(b, Sign(c.KS, b.ID, &specqbft.Message{MsgType: specqbft.CommitMsgType, Height: h, Round: r, Identifier: c.ID, Root: root}), "commit")
	case k < 86: // round change
		r := c.roundInPlay() + specqbft.Round(rng.Intn(2))
		c.byzSend(b, c.mkRoundChange(b, r, rng.Intn(2) == 0), "round-change")
	case k < 94: // decided message: aggregate of seen commits (+ own) for some (round, root)
		cs := c.seenOf(specqbft.CommitMsgType, 0)
		if len(cs) == 0 {
			return
		}
		pick := cs[rng.Intn(len(cs))]
		group := uniqueBySigner(cs, func(m *specqbft.SignedMessage) bool {
			return m.Message.Round == pick.Message.Round && m.Message.Root == pick.Message.Root
		})
		own := Sign(c.KS, b.ID, &specqbft.Message{MsgType: specqbft.CommitMsgType, Height: h, Round: pick.Message.Round, Identifier: c.ID, Root: pick.Message.Root})
		has := false
		for _, m := range group {
			if m.Signers[0] == b.ID {
				has = true
			}
		}
		if !has {
			group = append(group, own)
		}
		agg := Aggregate(group)
		for _, v := range c.Values {
			if Root(v) == pick.Message.Root {
				agg.FullData = v
			}
		}
		if rng.Intn(4) == 0 && len(agg.Signers) < int(c.KS.Threshold) {
			// pad the signer list up to quorum without the signatures (forgery)
			for id := spectypes.OperatorID(1); int(id) <= c.Cfg.N && len(agg.Signers) < int(c.KS.Threshold); id++ {
				dup := false
				for _, s := range agg.Signers {
					if s == id {
						dup = true
					}
				}
				if !dup {
					agg.Signers = append(agg.Signers, id)
				}
			}
			sort.Slice(agg.Signers, func(i, j int) bool { return agg.Signers[i] < agg.Signers[j] })
		}
		c.byzSend(b, agg, "decided")
	default: // replay an old message
		if len(c.Seen) == 0 {
			return
		}
		m := c.Seen[rng.Intn(len(c.Seen))]
		c.byzSend(b, m, "replay")
	}
}

// Aggregate aggregates single-signer messages with the same signing root (signers sorted).
func Aggregate(ms []*specqbft.SignedMessage) *specqbft.SignedMessage {
	sort.Slice(ms, func(i, j int) bool { return ms[i].Signers[0] < ms[j].Signers[0] })
	var agg bls.Sign
	ret := &specqbft.SignedMessage{Message: ms[0].Message}
	for i, m := range ms {
		var s bls.Sign
		if err := s.Deserialize(m.Signature); err != nil {
			panic(err)
		}
		if i == 0 {
			agg = s
		} else {
			agg.Add(&s)
		}
		ret.Signers = append(ret.Signers, m.Signers...)
	}
	ret.Signature = agg.Serialize()
	return ret
}

// ---- scripting primitives for directed strategies ------------------------------------------------------

// DeliverWhere delivers, in pool order, every in-flight message matching pred, including matching messages produced
// while doing so, until none is left. Returns the number delivered.
func (c *Cluster) DeliverWhere(pred func(f *Flight) bool, after func()) int {
	n := 0
	for guard := 0; guard < 100000; guard++ {
		idx := -1
		for i, f := range c.Pool {
			if pred(f) {
				idx = i
				break
			}
		}
		if idx < 0 {
			return n
		}
		f := c.Pool[idx]
		c.Pool = append(c.Pool[:idx], c.Pool[idx+1:]...)
		err := c.Deliver(c.Nodes[f.To-1], f.Msg, f.Byz)
		c.act("deliver %s -> n%d err=%v", Desc(f.Msg), f.To, err != nil)
		n++
		if after != nil {
			after()
		}
	}
	return n
}

// DropWhere removes every in-flight message matching pred.
func (c *Cluster) DropWhere(pred func(f *Flight) bool) int {
	var keep []*Flight
	n := 0
	for _, f := range c.Pool {
		if pred(f) {
			n++
			c.Dropped++
			continue
		}
		keep = append(keep, f)
	}
	c.Pool = keep
	if n > 0 {
		c.act("drop %d matching messages", n)
	}
	return n
}

// ByzSendTo puts a Byzantine-crafted message in flight to the given honest operators.
func (c *Cluster) ByzSendTo(from *Node, m *specqbft.SignedMessage, what string, to []*Node) {
	c.Seen = append(c.Seen, m)
	for _, d := range to {
		if !d.Byz {
			c.Pool = append(c.Pool, &Flight{Msg: m, To: d.ID, From: from.ID, Byz: true})
		}
	}
	c.ByzMsgs++
	c.act("byz n%d %s: %s -> %d operators", from.ID, what, Desc(m), len(to))
}

// MkProposal crafts a correctly signed proposal by b.
func (c *Cluster) MkProposal(b *Node, r specqbft.Round, v []byte, rcs, prepares []*specqbft.SignedMessage) *specqbft.SignedMessage {
	// the wire format holds at most 13 justifications per list (a longer list cannot even be hashed for signing)
	if len(rcs) > 13 {
		rcs = rcs[:13]
	}
	if len(prepares) > 13 {
		prepares = prepares[:13]
	}
	rcj, _ := specqbft.MarshalJustifications(rcs)
	pj, _ := specqbft.MarshalJustifications(prepares)
	sm := Sign(c.KS, b.ID, &specqbft.Message{MsgType: specqbft.ProposalMsgType, Height: c.Cfg.Height, Round: r, Identifier: c.ID,
		Root: Root(v), RoundChangeJustification: rcj, PrepareJustification: pj})
	sm.FullData = v
	return sm
}

func (c *Cluster) MkSimple(b *Node, t specqbft.MessageType, r specqbft.Round, root [32]byte) *specqbft.SignedMessage {
	return Sign(c.KS, b.ID, &specqbft.Message{MsgType: t, Height: c.Cfg.Height, Round: r, Identifier: c.ID, Root: root})
}

// MkSimpleAt / MkUnpreparedRCAt: a message operator s (correct or not) could have broadcast at ANOTHER height hp of the same
// validator and role (an unprepared round-change after failed rounds there, a prepare / commit for a value proposed there). The
// adversary recorded it at that height and may replay it, typically embedded in a justification.
func (c *Cluster) MkSimpleAt(s *Node, hp specqbft.Height, t specqbft.MessageType, r specqbft.Round, root [32]byte) *specqbft.SignedMessage {
	return Sign(c.KS, s.ID, &specqbft.Message{MsgType: t, Height: hp, Round: r, Identifier: c.ID, Root: root})
}

func (c *Cluster) MkUnpreparedRCAt(s *Node, hp specqbft.Height, r specqbft.Round) *specqbft.SignedMessage {
	return Sign(c.KS, s.ID, &specqbft.Message{MsgType: specqbft.RoundChangeMsgType, Height: hp, Round: r, Identifier: c.ID})
}

// MkRoundChange exposes the Byzantine round-change builder (prepared on what was seen, or unprepared).
func (c *Cluster) MkRoundChange(b *Node, r specqbft.Round, prepared bool) *specqbft.SignedMessage {
	return c.mkRoundChange(b, r, prepared)
}

// MkForgedPreparedRC: b claims to be prepared on v in round pr, justified only by the prepares of the given signers
// (typically just the Byzantine operators: a sub-quorum, i.e. a forged justification).
func (c *Cluster) MkForgedPreparedRC(b *Node, r, pr specqbft.Round, v []byte, signers []*Node) *specqbft.SignedMessage {
	var ps []*specqbft.SignedMessage
	for _, s := range signers {
		ps = append(ps, c.MkSimple(s, specqbft.PrepareMsgType, pr, Root(v)))
	}
	js, _ := specqbft.MarshalJustifications(ps)
	sm := Sign(c.KS, b.ID, &specqbft.Message{MsgType: specqbft.RoundChangeMsgType, Height: c.Cfg.Height, Round: r, Identifier: c.ID,
		Root: Root(v), DataRound: pr, RoundChangeJustification: js})
	sm.FullData = v
	return sm
}

// MkPreparedRCWith: b's round-change for round r claiming to be prepared on v in round pr, carrying the given prepares.
func (c *Cluster) MkPreparedRCWith(b *Node, r, pr specqbft.Round, v []byte, ps []*specqbft.SignedMessage) *specqbft.SignedMessage {
	if len(ps) > 13 {
		ps = ps[:13]
	}
	js, _ := specqbft.MarshalJustifications(ps)
	sm := Sign(c.KS, b.ID, &specqbft.Message{MsgType: specqbft.RoundChangeMsgType, Height: c.Cfg.Height, Round: r, Identifier: c.ID,
		Root: Root(v), DataRound: pr, RoundChangeJustification: js})
	sm.FullData = v
	return sm
}

// SeenOf returns the single-signer messages of a type (and round, 0 = any) that were ever broadcast.
func (c *Cluster) SeenOf(t specqbft.MessageType, round specqbft.Round) []*specqbft.SignedMessage {
	return c.seenOf(t, round)
}

// UniqueBySigner keeps the first message per signer.
func UniqueBySigner(ms []*specqbft.SignedMessage, keep func(*specqbft.SignedMessage) bool) []*specqbft.SignedMessage {
	return uniqueBySigner(ms, keep)
}

func (c *Cluster) Act(format string, a ...any) { c.act(format, a...) }
