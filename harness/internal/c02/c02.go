// Package c02: every reported decision is backed by a verifiable quorum certificate (property C02).
package c02

import (
	"bytes"
	"fmt"
	"sort"

	specqbft "github.com/bloxapp/ssv-spec/qbft"
	spectypes "github.com/bloxapp/ssv-spec/types"
	"github.com/herumi/bls-eth-go-binary/bls"

	"verifharness/internal/evid"
	"verifharness/internal/oracle"
	"verifharness/internal/qrun"
	"verifharness/internal/qsim"
)

func Spec() *evid.Spec {
	return &evid.Spec{
		ID:    "C02",
		Level: "exploration",
		Rule: "lane executions: the adversarial cluster executions of C01 with the certificate oracle on every decided message returned by Controller.ProcessMsg, every instance handed to the store and every flip of State.Decided " +
			"(local decisions additionally: value check, accepted proposal signed by the oracle's round-robin leader). lane forgery: a genuine certificate (2f+1..N signers) x one mutation of a 38-entry catalogue x controller state " +
			"{fresh, mid-instance, already decided} x committee 4/7; a forgery case counts only if the independent oracle calls the mutated certificate invalid. Non-trivial = execution with >=1 checked decision, or a counted forgery; " +
			"distinct = trajectory hash / (mutation, state, N, signer count)",
		Assumptions: []string{
			"independent oracle: own quorum arithmetic, herumi FastAggregateVerify over the listed committee members' keys, sha256(FullData)==Root; SSZ hash-tree-root of the message is trusted",
		},
		MinNontrivial: 100,
		Lanes: []evid.Lane{
			{Name: "executions", Children: evid.Const(16, 16), Cases: evid.Const(30, 1500), TimeoutS: evid.Const(600, 5400),
				Setup: func(ch *evid.Child) { ch.Data = qsim.NewEnv() }, Run: runExec},
			{Name: "single", Children: evid.Const(8, 16), Cases: evid.Const(30, 900), TimeoutS: evid.Const(600, 5400),
				Setup: func(ch *evid.Child) { ch.Data = qsim.NewEnv() }, Run: runSingle},
			{Name: "forgery", Children: evid.Const(8, 16), Cases: evid.Const(20, 600), TimeoutS: evid.Const(600, 5400),
				Setup: func(ch *evid.Child) { ch.Data = qsim.NewEnv() }, Run: runForgery},
		},
	}
}

func runExec(c *evid.Case) {
	env := c.Data.(*qsim.Env)
	cfg := qrun.GenConfig(c.Rng, c.Tier)
	if c.Rng.Intn(3) == 0 {
		// one operator's own value check refuses a value the others accept (per-operator slashing-protection stores): whatever the
		// others prepare, it must never reach a local decision on that value
		cfg.Picky, cfg.PickyValue = 1+c.Rng.Intn(cfg.N), c.Rng.Intn(4)
		c.Count("exec_with_an_operator_refusing_one_value", 1)
	}
	res := qrun.Run(c, env, cfg, nil)
	for _, f := range res.Certs {
		c.Violation(f.Kind, f.Sig, f.Detail, qrun.Witness(res))
	}
	c.Count("exec_certificates_checked", int64(res.CertsSeen))
	c.Count("exec_decisions_local", int64(res.LocalDec))
	c.Count("exec_decisions_via_decided_msg", int64(res.RemoteDec))
	c.Count("exec_byzantine_msgs_accepted", int64(res.Cl.ByzAccepted))
	if res.CertsSeen > 0 {
		c.Nontrivial(res.Traj)
	}
	if c.Index == 0 && c.Idx == 0 {
		c.Sample(map[string]any{"config": cfg, "certificates_checked": res.CertsSeen, "final": res.Cl.AbstractState()})
	}
}

type mutation struct {
	name string
	f    func(cl *qsim.Cluster, m *specqbft.SignedMessage, commits []*specqbft.SignedMessage) *specqbft.SignedMessage
}

func clone(m *specqbft.SignedMessage) *specqbft.SignedMessage {
	b, _ := m.Encode()
	r := &specqbft.SignedMessage{}
	_ = r.Decode(b)
	return r
}

// badSignerFamily: a non-member / zero / duplicated id at the first, middle or last position of the signer list, with
// the signature either left as it was or re-aggregated over exactly the genuine members that remain listed (what a
// verifier that skips ids it cannot resolve would check).
func badSignerFamily() []mutation {
	var out []mutation
	for _, pos := range []string{"first", "middle", "last"} {
		for _, kind := range []string{"foreign", "zero", "duplicate"} {
			for _, resign := range []bool{false, true} {
				pos, kind, resign := pos, kind, resign
				name := fmt.Sprintf("bad-signer-%s-%s", kind, pos)
				if resign {
					name += "-sig-over-remaining-members"
				}
				out = append(out, mutation{name, func(cl *qsim.Cluster, m *specqbft.SignedMessage, _ []*specqbft.SignedMessage) *specqbft.SignedMessage {
					i := map[string]int{"first": 0, "middle": len(m.Signers) / 2, "last": len(m.Signers) - 1}[pos]
					switch kind {
					case "foreign":
						m.Signers[i] = spectypes.OperatorID(cl.Cfg.N + 1 + i)
					case "zero":
						m.Signers[i] = 0
					default:
						m.Signers[i] = m.Signers[(i+1)%len(m.Signers)]
					}
					if resign {
						var parts []*specqbft.SignedMessage
						seen := map[spectypes.OperatorID]bool{}
						for _, s := range m.Signers {
							if _, ok := cl.KS.Shares[s]; ok && int(s) <= cl.Cfg.N && !seen[s] {
								seen[s] = true
								parts = append(parts, qsim.Sign(cl.KS, s, &m.Message))
							}
						}
						if len(parts) > 0 {
							m.Signature = qsim.Aggregate(parts).Signature
						}
					}
					return m
				}})
			}
		}
	}
	// several foreign ids up front, one genuine member (and its lone signature) last
	out = append(out, mutation{"foreign-ids-then-one-member-single-signature", func(cl *qsim.Cluster, m *specqbft.SignedMessage, _ []*specqbft.SignedMessage) *specqbft.SignedMessage {
		last := m.Signers[len(m.Signers)-1]
		for i := 0; i < len(m.Signers)-1; i++ {
			m.Signers[i] = spectypes.OperatorID(cl.Cfg.N + 1 + i)
		}
		m.Signature = qsim.Sign(cl.KS, last, &m.Message).Signature
		return m
	}})
	return out
}

func catalogue() []mutation {
	return append(badSignerFamily(), baseCatalogue()...)
}

func baseCatalogue() []mutation {
	return []mutation{
		{"duplicate-signer", func(cl *qsim.Cluster, m *specqbft.SignedMessage, _ []*specqbft.SignedMessage) *specqbft.SignedMessage {
			m.Signers[len(m.Signers)-1] = m.Signers[0]
			return m
		}},
		{"zero-signer", func(cl *qsim.Cluster, m *specqbft.SignedMessage, _ []*specqbft.SignedMessage) *specqbft.SignedMessage {
			m.Signers[0] = 0
			return m
		}},
		{"foreign-signer", func(cl *qsim.Cluster, m *specqbft.SignedMessage, _ []*specqbft.SignedMessage) *specqbft.SignedMessage {
			m.Signers[len(m.Signers)-1] = spectypes.OperatorID(cl.Cfg.N + 1 + cl.Rng.Intn(3))
			return m
		}},
		{"sub-quorum-keep-signature", func(cl *qsim.Cluster, m *specqbft.SignedMessage, _ []*specqbft.SignedMessage) *specqbft.SignedMessage {
			m.Signers = m.Signers[:2*cl.F]
			return m
		}},
		{"sub-quorum-genuine", func(cl *qsim.Cluster, m *specqbft.SignedMessage, cs []*specqbft.SignedMessage) *specqbft.SignedMessage {
			a := qsim.Aggregate(append([]*specqbft.SignedMessage{}, cs[:2*cl.F]...))
			a.FullData = m.FullData
			return a
		}},
		{"signature-of-strict-subset", func(cl *qsim.Cluster, m *specqbft.SignedMessage, cs []*specqbft.SignedMessage) *specqbft.SignedMessage {
			a := qsim.Aggregate(append([]*specqbft.SignedMessage{}, cs[:len(m.Signers)-1]...))
			m.Signature = a.Signature
			return m
		}},
		{"signature-over-other-message", func(cl *qsim.Cluster, m *specqbft.SignedMessage, cs []*specqbft.SignedMessage) *specqbft.SignedMessage {
			var parts []*specqbft.SignedMessage
			other := m.Message
			other.Round++
			for _, s := range m.Signers {
				parts = append(parts, qsim.Sign(cl.KS, s, &other))
			}
			m.Signature = qsim.Aggregate(parts).Signature
			return m
		}},
		{"random-g2-point", func(cl *qsim.Cluster, m *specqbft.SignedMessage, _ []*specqbft.SignedMessage) *specqbft.SignedMessage {
			var sk bls.SecretKey
			sk.SetByCSPRNG()
			m.Signature = sk.SignByte([]byte("x")).Serialize()
			return m
		}},
		{"zero-signature", func(cl *qsim.Cluster, m *specqbft.SignedMessage, _ []*specqbft.SignedMessage) *specqbft.SignedMessage {
			m.Signature = make([]byte, 96)
			return m
		}},
		{"fulldata-altered", func(cl *qsim.Cluster, m *specqbft.SignedMessage, _ []*specqbft.SignedMessage) *specqbft.SignedMessage {
			m.FullData = append([]byte{}, cl.Values[1]...)
			if bytes.Equal(m.FullData, cl.Values[0]) {
				m.FullData = []byte("V-other")
			}
			return m
		}},
		{"root-altered-to-other-value", func(cl *qsim.Cluster, m *specqbft.SignedMessage, _ []*specqbft.SignedMessage) *specqbft.SignedMessage {
			m.FullData = []byte("V-forged-value")
			m.Message.Root = qsim.Root(m.FullData)
			return m
		}},
		{"height-plus-one", func(cl *qsim.Cluster, m *specqbft.SignedMessage, _ []*specqbft.SignedMessage) *specqbft.SignedMessage {
			m.Message.Height++
			return m
		}},
		{"height-minus-one", func(cl *qsim.Cluster, m *specqbft.SignedMessage, _ []*specqbft.SignedMessage) *specqbft.SignedMessage {
			m.Message.Height--
			return m
		}},
		{"round-altered", func(cl *qsim.Cluster, m *specqbft.SignedMessage, _ []*specqbft.SignedMessage) *specqbft.SignedMessage {
			m.Message.Round += 3
			return m
		}},
		{"identifier-other-role", func(cl *qsim.Cluster, m *specqbft.SignedMessage, _ []*specqbft.SignedMessage) *specqbft.SignedMessage {
			id := spectypes.NewMsgID(qsim.Domain, cl.KS.ValidatorPK.Serialize(), spectypes.BNRoleProposer)
			m.Message.Identifier = id[:]
			return m
		}},
		{"identifier-other-validator-resigned", func(cl *qsim.Cluster, m *specqbft.SignedMessage, _ []*specqbft.SignedMessage) *specqbft.SignedMessage {
			// a fully valid certificate - but for another validator's identifier
			pk := append([]byte{}, cl.KS.ValidatorPK.Serialize()...)
			pk[5] ^= 0xff
			id := spectypes.NewMsgID(qsim.Domain, pk, spectypes.BNRoleAttester)
			msg := m.Message
			msg.Identifier = id[:]
			var parts []*specqbft.SignedMessage
			for _, s := range m.Signers {
				parts = append(parts, qsim.Sign(cl.KS, s, &msg))
			}
			a := qsim.Aggregate(parts)
			a.FullData = m.FullData
			return a
		}},
		{"type-prepare-resigned", func(cl *qsim.Cluster, m *specqbft.SignedMessage, _ []*specqbft.SignedMessage) *specqbft.SignedMessage {
			msg := m.Message
			msg.MsgType = specqbft.PrepareMsgType
			var parts []*specqbft.SignedMessage
			for _, s := range m.Signers {
				parts = append(parts, qsim.Sign(cl.KS, s, &msg))
			}
			a := qsim.Aggregate(parts)
			a.FullData = m.FullData
			return a
		}},
		{"signers-longer-than-committee", func(cl *qsim.Cluster, m *specqbft.SignedMessage, _ []*specqbft.SignedMessage) *specqbft.SignedMessage {
			for len(m.Signers) <= cl.Cfg.N {
				m.Signers = append(m.Signers, m.Signers[len(m.Signers)-1]+1)
			}
			return m
		}},
		{"byzantine-only-quorum", func(cl *qsim.Cluster, m *specqbft.SignedMessage, _ []*specqbft.SignedMessage) *specqbft.SignedMessage {
			// f genuine signatures, signer list padded to quorum with ids whose signatures are absent
			var parts []*specqbft.SignedMessage
			for _, s := range m.Signers[:cl.F] {
				parts = append(parts, qsim.Sign(cl.KS, s, &m.Message))
			}
			m.Signature = qsim.Aggregate(parts).Signature
			return m
		}},
	}
}

func runForgery(c *evid.Case) {
	env := c.Data.(*qsim.Env)
	rng := c.Rng
	n := []int{4, 7}[rng.Intn(2)]
	if c.Tier == "thorough" && rng.Intn(6) == 0 {
		n = []int{10, 13}[rng.Intn(2)]
	}
	height := specqbft.Height(1 + rng.Intn(50))
	cfg := qsim.Config{N: n, Height: height, Policy: 2, MaxSteps: 1, MaxRound: 3, FullNode: rng.Intn(2) == 0}
	cl := qsim.NewCluster(env, rng, cfg)
	f := cl.F
	// a genuine certificate with 2f+1..N signers for value V1, round 1
	k := 2*f + 1 + rng.Intn(n-2*f)
	value := cl.Values[0]
	msg := &specqbft.Message{MsgType: specqbft.CommitMsgType, Height: height, Round: 1, Identifier: cl.ID, Root: qsim.Root(value)}
	ids := rng.Perm(n)[:k]
	sort.Ints(ids)
	var commits []*specqbft.SignedMessage
	for _, i := range ids {
		commits = append(commits, qsim.Sign(cl.KS, spectypes.OperatorID(i+1), msg))
	}
	genuine := qsim.Aggregate(append([]*specqbft.SignedMessage{}, commits...))
	genuine.FullData = value
	if err := oracle.Certificate(cl.KS, n, qsim.Domain, cl.ID, height, genuine); err != nil {
		c.Inconclusive("harness: genuine certificate rejected by the oracle: " + err.Error())
		return
	}
	cat := catalogue()
	for mi, mu := range cat {
		forged := mu.f(cl, clone(genuine), commits)
		// what height would the receiving controller attribute it to? the oracle judges it for its own claimed height & the controller's identifier
		oerr := oracle.Certificate(cl.KS, n, qsim.Domain, cl.ID, forged.Message.Height, forged)
		if oerr == nil {
			c.Count("forgery_mutation_left_certificate_valid", 1)
			continue
		}
		for state := 0; state < 3; state++ {
			// fresh node per (mutation, state)
			c2 := qsim.NewCluster(env, rng, cfg)
			nd := c2.Nodes[0]
			saves := 0
			c2.OnSave = func(_ *qsim.Node, ev qsim.SaveEvent) {
				if ev.Stored != nil && ev.Stored.DecidedMessage != nil &&
					oracle.Certificate(c2.KS, n, qsim.Domain, c2.ID, ev.Stored.DecidedMessage.Message.Height, ev.Stored.DecidedMessage) != nil {
					saves++
				}
			}
			stName := []string{"fresh", "mid-instance", "already-decided"}[state]
			forged2 := forged
			if !bytes.Equal(cl.ID, c2.ID) { // identifiers are equal (same key set and role); keep the guard explicit
				c.Inconclusive("harness: identifier differs between clusters")
				return
			}
			switch state {
			case 1:
				c2.StartNode(nd)
				// deliver the round-1 proposal if another node leads, so the instance is mid-flight
				ld := qsim.Leader(n, height, 1)
				if ld != nd.ID {
					p := qsim.Sign(c2.KS, ld, &specqbft.Message{MsgType: specqbft.ProposalMsgType, Height: height, Round: 1, Identifier: c2.ID, Root: qsim.Root(value)})
					p.FullData = value
					_ = c2.Deliver(nd, p, false)
				}
			case 2:
				c2.StartNode(nd)
				if err := c2.Deliver(nd, clone(genuine), false); err != nil {
					c.Inconclusive("harness: genuine certificate not accepted: " + err.Error())
					return
				}
				saves = 0
			}
			instBefore := snapshot(nd, forged2.Message.Height)
			ctrlHeightBefore := nd.Ctrl.Height
			retBefore := len(nd.Returned)
			err := c2.Deliver(nd, forged2, true)
			instAfter := snapshot(nd, forged2.Message.Height)
			c.Count("forgery_cases", 1)
			c.AddEvaluations(1)
			c.Nontrivial(evid.Hash("forgery", mu.name, stName, n, k))
			c.Distinct("forgery_mutation_x_state", evid.Hash(mu.name, stName, n))
			bad := ""
			switch {
			case len(nd.Returned) > retBefore:
				bad = "ProcessMsg returned a decided message"
			case !instBefore.decided && instAfter.decided:
				bad = "State.Decided flipped"
			case saves > 0:
				bad = "an instance with the invalid certificate was handed to the store"
			case instAfter.commitMsgs > instBefore.commitMsgs && state == 2:
				bad = "invalid certificate added to the decided instance's commit container"
			case nd.Ctrl.Height != ctrlHeightBefore:
				bad = "controller height moved"
			}
			if bad != "" {
				c.Violation("forged-certificate-accepted", mu.name+"/"+stName,
					fmt.Sprintf("N=%d k=%d mutation %s (oracle: %v) on a %s controller: %s (ProcessMsg err=%v)", n, k, mu.name, oerr, stName, bad, err),
					map[string]any{"mutation": mu.name, "state": stName, "N": n, "forged": qsim.Desc(forged2), "genuine": qsim.Desc(genuine)})
			} else if err == nil {
				// accepted silently without any effect we can see: note it (not a violation of the statement)
				c.Count("forgery_no_error_but_no_effect", 1)
			} else {
				c.Count("forgery_rejected", 1)
			}
			if c.Index == 0 && c.Idx == 0 && mi < 2 && state == 0 {
				c.Sample(map[string]any{"mutation": mu.name, "state": stName, "forged": qsim.Desc(forged2), "oracle": oerr.Error(), "processmsg_err": fmt.Sprint(err)})
			}
		}
	}
}

type snap struct {
	decided    bool
	commitMsgs int
}

func snapshot(nd *qsim.Node, h specqbft.Height) snap {
	i := nd.Ctrl.StoredInstances.FindInstance(h)
	if i == nil {
		return snap{}
	}
	s := snap{decided: i.State.Decided}
	for _, ms := range i.State.CommitContainer.Msgs {
		s.commitMsgs += len(ms)
	}
	return s
}

// runSingle: one real controller against an adversary that holds every other operator's key.
func runSingle(c *evid.Case) {
	env := c.Data.(*qsim.Env)
	rng := c.Rng
	n := []int{4, 7}[rng.Intn(2)]
	h := specqbft.Height(rng.Intn(3 * n))
	me := rng.Intn(n)
	var others []int
	for i := 0; i < n; i++ {
		if i != me {
			others = append(others, i)
		}
	}
	cfg := qsim.Config{N: n, Height: h, NumByz: n - 1, ByzIDs: others, ValueMode: 1, Policy: 0, MaxSteps: 60 + rng.Intn(120), MaxRound: 6, FullNode: rng.Intn(2) == 0}
	cl := qsim.NewCluster(env, rng, cfg)
	mon := qrun.Attach(cl)
	res := mon.Res
	node := cl.Honest()[0]
	byz := cl.ByzNodes()
	cl.StartAll()
	mon.Check()
	isT := func(t specqbft.MessageType) func(f *qsim.Flight) bool {
		return func(f *qsim.Flight) bool { return f.Msg.Message.MsgType == t && len(f.Msg.Signers) == 1 }
	}
	// bring the operator to round r0, then aim at round R >= r0
	r0 := specqbft.Round(1 + rng.Intn(3))
	for node.Inst() != nil && node.Inst().Round < r0 && !node.Inst().Decided {
		_ = cl.FireTimeoutFor(node, h, node.Inst().Round)
		mon.Check()
	}
	cl.DropWhere(func(*qsim.Flight) bool { return true })
	R := r0 + specqbft.Round(rng.Intn(3))
	legit := cl.Nodes[qsim.Leader(n, h, R)-1]
	signer := legit
	wrong := rng.Intn(2) == 0
	if wrong || legit == node {
		// another operator: prefer the leader of the operator's CURRENT round
		cand := cl.Nodes[qsim.Leader(n, h, r0)-1]
		if cand == node || cand == legit {
			cand = byz[rng.Intn(len(byz))]
		}
		signer = cand
	}
	v := cl.Values[rng.Intn(len(cl.Values))]
	var rcs []*specqbft.SignedMessage
	if R > 1 {
		for _, z := range byz[:int(cl.KS.Threshold)] {
			rcs = append(rcs, cl.MkRoundChange(z, R, false))
		}
	}
	if signer != node {
		cl.ByzSendTo(signer, cl.MkProposal(signer, R, v, rcs, nil), "proposal", []*qsim.Node{node})
		cl.DeliverWhere(isT(specqbft.ProposalMsgType), mon.Check)
		q := int(cl.KS.Threshold)
		for _, z := range byz[:q] {
			cl.ByzSendTo(z, cl.MkSimple(z, specqbft.PrepareMsgType, R, qsim.Root(v)), "prepare", []*qsim.Node{node})
		}
		cl.DeliverWhere(isT(specqbft.PrepareMsgType), mon.Check)
		for _, z := range byz[:q] {
			cl.ByzSendTo(z, cl.MkSimple(z, specqbft.CommitMsgType, R, qsim.Root(v)), "commit", []*qsim.Node{node})
		}
		cl.DeliverWhere(isT(specqbft.CommitMsgType), mon.Check)
	}
	for len(res.Certs) == 0 && cl.Step() {
		mon.Check()
	}
	for _, f := range res.Certs {
		if f.Kind == "stored-state-disagrees-with-certificate" {
			// with more than f keys in the adversary's hand two valid certificates for different values can exist at one height;
			// "the stored state agrees with the stored certificate" presupposes agreement and is not demanded in this lane
			c.Count("single_conflicting_certificates_seen (adversary holds > f keys)", 1)
			continue
		}
		c.Violation(f.Kind, "single/"+f.Sig, f.Detail, qrun.Witness(res))
	}
	c.Count("single_executions", 1)
	c.Count("single_decisions_local", int64(res.LocalDec))
	c.Count("single_decisions_via_decided_msg", int64(res.RemoteDec))
	if signer != legit {
		c.Count("single_proposals_by_non_leader_sent", 1)
	}
	if res.CertsSeen > 0 {
		c.Nontrivial(evid.Hash("single", n, h%specqbft.Height(n), r0, R, signer != legit, res.LocalDec, res.RemoteDec))
	}
	if c.Index == 0 && c.Idx == 0 {
		acts := cl.Acts
		if len(acts) > 40 {
			acts = acts[:40]
		}
		c.Sample(map[string]any{"lane": "single", "config": cfg, "actions": acts})
	}
}
