// Package faultdb is a fault- and crash-injecting decorator for basedb.Database / basedb.Txn.
//
// Every operation that goes through the decorator while the Injector is enabled gets the next
// operation index (0, 1, 2, ...) and is appended to the trace. An Injector can be armed with ONE
// fault at a chosen index:
//
//	CrashBefore  panic(*Crash) before the operation takes effect
//	CrashAfter   the operation is executed, then panic(*Crash)
//	Error        the operation is NOT executed and returns ErrInjected
//
// The same Injector can number operations that are not database operations (key-manager calls...)
// through Injector.Do, so that one index space covers every interruption point of a run.
//
// Crash model (in-process stand-in for a process death on badger): what was written with a
// database-level Set/SetMany/Delete/DeletePrefix or a committed transaction survives; transactions
// that were not committed are dropped (the harness calls Injector.DropOpenTxns after recovering the
// panic); after the crash fired the decorator is "dead": write operations issued by deferred
// functions during unwinding are refused (ErrDead) and never reach the database. The harness must
// then throw away every in-memory object and build new ones on Inner().
//
// Usage:
//
//	inj := faultdb.NewInjector()
//	db := faultdb.Wrap(realDB, inj)
//	inj.Enable(true); ... run ...; inj.Enable(false)   // uninterrupted run: K := inj.Count()
//	inj.Arm(k, faultdb.CrashAfter)                      // next run
//	crash := faultdb.Recover(func() { ... run ... })    // *Crash or nil
//	inj.DropOpenTxns()
package faultdb

import (
	"errors"
	"fmt"
	"sync"

	"github.com/bloxapp/ssv/storage/basedb"
)

type Mode int

const (
	None Mode = iota
	CrashBefore
	CrashAfter
	Error
)

func (m Mode) String() string {
	return [...]string{"none", "crash-before", "crash-after", "error"}[m]
}

// ErrInjected is returned by the operation chosen with Arm(k, Error).
var ErrInjected = errors.New("faultdb: injected storage error")

// ErrDead is returned by write operations issued after a crash fired (deferred code during unwinding).
var ErrDead = errors.New("faultdb: process is dead (operation after injected crash)")

// Op is one numbered operation.
type Op struct {
	Index  int    `json:"i"`
	Kind   string `json:"kind"`   // "db.Set", "txn.Commit", "km.AddShare", ...
	Detail string `json:"detail"` // key (printable) or caller-provided text
	Depth  int    `json:"depth"`  // nesting depth (operations inside an Injector.Do section have depth > 0)
}

// Crash is the panic value of an injected crash.
type Crash struct {
	Op   Op
	Mode Mode
}

func (c *Crash) String() string {
	return fmt.Sprintf("injected %s at op %d %s %s", c.Mode, c.Op.Index, c.Op.Kind, c.Op.Detail)
}

// Injector numbers operations and fires the armed fault.
type Injector struct {
	mu      sync.Mutex
	enabled bool
	n       int
	depth   int
	at      int
	mode    Mode
	fired   *Op
	dead    bool
	trace   []Op
	keep    bool
	open    map[*Txn]struct{}
	after   int // operations seen after the fault fired

	// OnCrash, when set, is called at the crash point instead of panicking (a real-process harness sets
	// it to kill the process: SIGKILL to itself). If it returns, the panic follows.
	OnCrash func(*Crash)
}

func NewInjector() *Injector {
	return &Injector{at: -1, keep: true, open: map[*Txn]struct{}{}}
}

// Enable switches numbering (and injection) on or off. Operations issued while disabled are passed
// through unnumbered (start-up code, the harness's own reads).
func (in *Injector) Enable(on bool) { in.mu.Lock(); in.enabled = on; in.mu.Unlock() }

// Arm chooses the single fault of the run. Arm(-1, None) disarms.
func (in *Injector) Arm(at int, m Mode) { in.mu.Lock(); in.at, in.mode = at, m; in.mu.Unlock() }

// Count is the number of operations numbered so far.
func (in *Injector) Count() int { in.mu.Lock(); defer in.mu.Unlock(); return in.n }

// Trace returns the numbered operations.
func (in *Injector) Trace() []Op {
	in.mu.Lock()
	defer in.mu.Unlock()
	return append([]Op(nil), in.trace...)
}

// Fired returns the operation at which the armed fault fired (nil if it did not).
func (in *Injector) Fired() *Op { in.mu.Lock(); defer in.mu.Unlock(); return in.fired }

// Dead reports whether a crash fired.
func (in *Injector) Dead() bool { in.mu.Lock(); defer in.mu.Unlock(); return in.dead }

// Revive clears the dead state and disarms (the "new process" after a crash keeps numbering but has no fault).
func (in *Injector) Revive() {
	in.mu.Lock()
	in.dead = false
	in.at, in.mode = -1, None
	in.depth = 0
	in.mu.Unlock()
}

// DropOpenTxns discards every transaction that was begun through the decorator and neither
// committed nor discarded (what a process death does to them).
func (in *Injector) DropOpenTxns() int {
	in.mu.Lock()
	l := make([]*Txn, 0, len(in.open))
	for t := range in.open {
		l = append(l, t)
	}
	in.open = map[*Txn]struct{}{}
	in.mu.Unlock()
	for _, t := range l {
		t.discardInner()
	}
	return len(l)
}

// Do runs op as numbered operation `kind`. write tells whether the operation must be refused in the
// dead state. It is exported so that other decorators (key manager...) share the index space.
func (in *Injector) Do(kind, detail string, write bool, op func() error) error {
	in.mu.Lock()
	if in.dead {
		in.after++
		in.mu.Unlock()
		if write {
			return ErrDead
		}
		return op()
	}
	if !in.enabled {
		in.mu.Unlock()
		return op()
	}
	o := Op{Index: in.n, Kind: kind, Detail: detail, Depth: in.depth}
	in.n++
	if in.keep {
		in.trace = append(in.trace, o)
	}
	hit := in.mode != None && o.Index == in.at
	mode := in.mode
	if hit {
		in.fired = &o
		if mode == CrashBefore {
			in.dead = true
		}
	}
	in.depth++
	in.mu.Unlock()

	if hit {
		switch mode {
		case CrashBefore:
			in.crash(&Crash{Op: o, Mode: mode})
		case Error:
			in.mu.Lock()
			in.depth--
			in.mu.Unlock()
			return ErrInjected
		}
	}
	err := op()
	in.mu.Lock()
	in.depth--
	if hit && mode == CrashAfter {
		in.dead = true
		in.mu.Unlock()
		in.crash(&Crash{Op: o, Mode: mode})
	}
	in.mu.Unlock()
	return err
}

func (in *Injector) crash(c *Crash) {
	if in.OnCrash != nil {
		in.OnCrash(c)
	}
	panic(c)
}

// Recover runs f and returns the injected crash that unwound it (nil if f returned). Foreign panics propagate.
func Recover(f func()) (crash *Crash) {
	defer func() {
		if r := recover(); r != nil {
			if c, ok := r.(*Crash); ok {
				crash = c
				return
			}
			panic(r)
		}
	}()
	f()
	return nil
}

func pk(prefix, key []byte) string {
	b := append(append([]byte{}, prefix...), key...)
	if len(b) > 48 {
		b = b[:48]
	}
	out := make([]byte, 0, len(b))
	for _, c := range b {
		if c >= 32 && c < 127 {
			out = append(out, c)
		} else {
			out = append(out, '.')
		}
	}
	return string(out)
}

func first(keys [][]byte) []byte {
	if len(keys) == 0 {
		return nil
	}
	return keys[0]
}

// DB decorates a basedb.Database.
type DB struct {
	inner basedb.Database
	in    *Injector
}

// Wrap decorates inner. The result implements basedb.Database; transactions begun through it are decorated too.
func Wrap(inner basedb.Database, in *Injector) *DB { return &DB{inner: inner, in: in} }

// Inner returns the decorated database (the "disk" that survives a crash).
func (d *DB) Inner() basedb.Database { return d.inner }

func (d *DB) Get(prefix, key []byte) (obj basedb.Obj, found bool, err error) {
	found = true // like kv: found=true together with an error
	err = d.in.Do("db.Get", pk(prefix, key), false, func() (e error) { obj, found, e = d.inner.Get(prefix, key); return })
	return
}
func (d *DB) GetMany(prefix []byte, keys [][]byte, it func(basedb.Obj) error) error {
	return d.in.Do("db.GetMany", fmt.Sprintf("%s x%d", pk(prefix, first(keys)), len(keys)), false, func() error { return d.inner.GetMany(prefix, keys, it) })
}
func (d *DB) GetAll(prefix []byte, h func(int, basedb.Obj) error) error {
	return d.in.Do("db.GetAll", pk(prefix, nil), false, func() error { return d.inner.GetAll(prefix, h) })
}
func (d *DB) Set(prefix, key, value []byte) error {
	return d.in.Do("db.Set", pk(prefix, key), true, func() error { return d.inner.Set(prefix, key, value) })
}
func (d *DB) SetMany(prefix []byte, n int, next func(int) (basedb.Obj, error)) error {
	return d.in.Do("db.SetMany", fmt.Sprintf("%s x%d", pk(prefix, nil), n), true, func() error { return d.inner.SetMany(prefix, n, next) })
}
func (d *DB) Delete(prefix, key []byte) error {
	return d.in.Do("db.Delete", pk(prefix, key), true, func() error { return d.inner.Delete(prefix, key) })
}
func (d *DB) CountPrefix(prefix []byte) (n int64, err error) {
	err = d.in.Do("db.CountPrefix", pk(prefix, nil), false, func() (e error) { n, e = d.inner.CountPrefix(prefix); return })
	return
}
func (d *DB) DeletePrefix(prefix []byte) (n int, err error) {
	err = d.in.Do("db.DeletePrefix", pk(prefix, nil), true, func() (e error) { n, e = d.inner.DeletePrefix(prefix); return })
	return
}
func (d *DB) DropPrefix(prefix []byte) error {
	return d.in.Do("db.DropPrefix", pk(prefix, nil), true, func() error { return d.inner.DropPrefix(prefix) })
}

// Update runs fn in one inner read-write transaction (atomic); the operations of fn are numbered as txn.* operations.
func (d *DB) Update(fn func(basedb.Txn) error) error {
	return d.in.Do("db.Update", "", true, func() error {
		return d.inner.Update(func(t basedb.Txn) error { return fn(&Txn{inner: t, in: d.in, managed: true}) })
	})
}
func (d *DB) Close() error { return d.inner.Close() }

// Begin starts a decorated read-write transaction (numbered as "db.Begin").
func (d *DB) Begin() basedb.Txn {
	var t *Txn
	_ = d.in.Do("db.Begin", "", false, func() error {
		t = &Txn{inner: d.inner.Begin(), in: d.in}
		d.in.mu.Lock()
		d.in.open[t] = struct{}{}
		d.in.mu.Unlock()
		return nil
	})
	if t == nil { // Error mode hit Begin, which cannot fail: hand out a transaction whose every operation fails
		t = &Txn{in: d.in, broken: true}
	}
	return t
}

// BeginRead starts a decorated read-only transaction.
func (d *DB) BeginRead() basedb.ReadTxn {
	var t *Txn
	_ = d.in.Do("db.BeginRead", "", false, func() error {
		rt := d.inner.BeginRead()
		t = &Txn{innerR: rt, in: d.in}
		d.in.mu.Lock()
		d.in.open[t] = struct{}{}
		d.in.mu.Unlock()
		return nil
	})
	if t == nil {
		t = &Txn{in: d.in, broken: true}
	}
	return t
}

// Using returns rw (a decorated transaction handed out by Begin) or the decorated database for nil,
// exactly like kv.BadgerDB.Using; the sub-stores call it with the block transaction.
func (d *DB) Using(rw basedb.ReadWriter) basedb.ReadWriter {
	if rw == nil {
		return d
	}
	return rw
}

func (d *DB) UsingReader(r basedb.Reader) basedb.Reader {
	if r == nil {
		return d
	}
	return r
}

// Txn decorates a basedb.Txn (or ReadTxn).
type Txn struct {
	inner   basedb.Txn
	innerR  basedb.ReadTxn
	in      *Injector
	managed bool // inside DB.Update: commit/discard belong to the inner database
	broken  bool
	done    bool
}

var errBroken = fmt.Errorf("%w (transaction could not be started)", ErrInjected)

func (t *Txn) reader() basedb.Reader {
	if t.inner != nil {
		return t.inner
	}
	return t.innerR
}

func (t *Txn) Get(prefix, key []byte) (obj basedb.Obj, found bool, err error) {
	if t.broken {
		return basedb.Obj{}, true, errBroken
	}
	found = true
	err = t.in.Do("txn.Get", pk(prefix, key), false, func() (e error) { obj, found, e = t.reader().Get(prefix, key); return })
	return
}
func (t *Txn) GetMany(prefix []byte, keys [][]byte, it func(basedb.Obj) error) error {
	if t.broken {
		return errBroken
	}
	return t.in.Do("txn.GetMany", fmt.Sprintf("%s x%d", pk(prefix, first(keys)), len(keys)), false, func() error { return t.reader().GetMany(prefix, keys, it) })
}
func (t *Txn) GetAll(prefix []byte, h func(int, basedb.Obj) error) error {
	if t.broken {
		return errBroken
	}
	return t.in.Do("txn.GetAll", pk(prefix, nil), false, func() error { return t.reader().GetAll(prefix, h) })
}
func (t *Txn) Set(prefix, key, value []byte) error {
	if t.broken || t.inner == nil {
		return errBroken
	}
	return t.in.Do("txn.Set", pk(prefix, key), true, func() error { return t.inner.Set(prefix, key, value) })
}
func (t *Txn) SetMany(prefix []byte, n int, next func(int) (basedb.Obj, error)) error {
	if t.broken || t.inner == nil {
		return errBroken
	}
	return t.in.Do("txn.SetMany", fmt.Sprintf("%s x%d", pk(prefix, nil), n), true, func() error { return t.inner.SetMany(prefix, n, next) })
}
func (t *Txn) Delete(prefix, key []byte) error {
	if t.broken || t.inner == nil {
		return errBroken
	}
	return t.in.Do("txn.Delete", pk(prefix, key), true, func() error { return t.inner.Delete(prefix, key) })
}
func (t *Txn) Commit() error {
	if t.broken || t.inner == nil {
		return errBroken
	}
	if t.managed {
		return nil
	}
	return t.in.Do("txn.Commit", "", true, func() error {
		err := t.inner.Commit()
		t.forget()
		return err
	})
}

// Discard is forwarded even in the dead state (it only releases the transaction).
func (t *Txn) Discard() {
	if t.broken || t.managed {
		return
	}
	_ = t.in.Do("txn.Discard", "", false, func() error { t.discardInner(); return nil })
}

func (t *Txn) forget() {
	t.in.mu.Lock()
	delete(t.in.open, t)
	t.done = true
	t.in.mu.Unlock()
}

func (t *Txn) discardInner() {
	t.in.mu.Lock()
	delete(t.in.open, t)
	t.in.mu.Unlock()
	if t.inner != nil {
		t.inner.Discard()
	} else if t.innerR != nil {
		t.innerR.Discard()
	}
}
