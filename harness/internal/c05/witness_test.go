package c05

import (
	"math/rand"
	"testing"

	spectypes "github.com/bloxapp/ssv-spec/types"

	"verifharness/internal/dsim"
)

// TestWitnessMultiRoot replays the minimal histories of the multi-root findings on the unchanged tree (documents, does not fail).
func TestWitnessMultiRoot(t *testing.T) {
	st := &state{env: dsim.NewEnv(), verified: map[[32]byte]bool{}}
	mk := func(ph phase, k kind, which, perm int) scen {
		return scen{n: 4, ph: ph, u: 1, bad: []spectypes.OperatorID{3}, kinds: []kind{k}, which: which, perm: perm}
	}
	var post, pre phase
	for _, p := range phases {
		if p.name == "contribution/post" {
			post = p
		}
		if p.name == "contribution/selection-proofs" {
			pre = p
		}
	}
	for _, s := range []scen{
		mk(post, kinds[0], 1, 0), // garbage in the FIRST partial signature of operator 3, arrival order 1,2,3,4
		mk(post, kinds[0], 2, 0), // ... in the middle one
		mk(post, kinds[0], 3, 0), // ... in the last one (nothing is lost)
		mk(pre, kinds[0], 3, 0),  // selection proofs: garbage in the last partial signature
		mk(pre, kinds[7], 0, 0),  // selection proofs: every signature valid, operator 3 lists its roots in another order
	} {
		h := runHist(st, rand.New(rand.NewSource(7)), nopReporter{}, false, s)
		if h == nil {
			t.Fatalf("setup failed for %s", s)
		}
		t.Logf("%s", s)
		for _, l := range h.log {
			t.Logf("    %s", l)
		}
		for _, ev := range h.op.Submits[h.setupSubmits:] {
			t.Logf("    beacon node call %s sigs=%d subnets=%v", ev.Method, len(ev.Sigs), ev.Subnet)
		}
		for _, f := range h.findings {
			t.Logf("    FINDING %s %s", f[0], f[1])
		}
	}
}
