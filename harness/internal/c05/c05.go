// Package c05: only validly threshold-signed duty objects reach the beacon node, once; up to f bad partial-signature
// senders can neither cause an invalid submission nor prevent the submission (property C05).
//
// Workload: one REAL operator (real runner, optionally behind the real Validator) on the duty cluster simulator is taken
// to the phase under test cheaply (duty start, a quorum of correct pre-consensus shares where the role has them, a genuine
// decided message = aggregate of real commits), then receives the partial-signature messages of the whole committee in a
// chosen order, with the messages of up to f senders replaced by bad ones.
//
// Oracle: over the recorded arguments of the BeaconNode calls only (see judge).
package c05

import (
	"crypto/sha256"
	"fmt"
	"math/rand"
	"sort"
	"strings"
	"time"

	"github.com/attestantio/go-eth2-client/api"
	v1 "github.com/attestantio/go-eth2-client/api/v1"
	"github.com/attestantio/go-eth2-client/spec"
	"github.com/attestantio/go-eth2-client/spec/altair"
	"github.com/attestantio/go-eth2-client/spec/phase0"
	specqbft "github.com/bloxapp/ssv-spec/qbft"
	spectypes "github.com/bloxapp/ssv-spec/types"
	ssz "github.com/ferranbt/fastssz"

	"verifharness/internal/dsim"
	"verifharness/internal/evid"
)

type phase struct {
	name    string
	role    spectypes.BeaconRole
	pre     bool // the pre-consensus phase is under test (for registration / exit it is the only phase)
	blinded bool
	deneb   bool
	multi   bool
}

var phases = []phase{
	{name: "attester/post", role: spectypes.BNRoleAttester},
	{name: "proposer/randao-full", role: spectypes.BNRoleProposer, pre: true},
	{name: "proposer/randao-blinded", role: spectypes.BNRoleProposer, pre: true, blinded: true},
	{name: "proposer/block-capella", role: spectypes.BNRoleProposer},
	{name: "proposer/blinded-block-capella", role: spectypes.BNRoleProposer, blinded: true},
	{name: "proposer/block-deneb", role: spectypes.BNRoleProposer, deneb: true},
	{name: "proposer/blinded-block-deneb", role: spectypes.BNRoleProposer, blinded: true, deneb: true},
	{name: "aggregator/selection-proof", role: spectypes.BNRoleAggregator, pre: true},
	{name: "aggregator/post", role: spectypes.BNRoleAggregator},
	{name: "sync-committee/post", role: spectypes.BNRoleSyncCommittee},
	{name: "contribution/selection-proofs", role: spectypes.BNRoleSyncCommitteeContribution, pre: true, multi: true},
	{name: "contribution/post", role: spectypes.BNRoleSyncCommitteeContribution, multi: true},
	{name: "validator-registration", role: spectypes.BNRoleValidatorRegistration, pre: true},
	{name: "voluntary-exit", role: spectypes.BNRoleVoluntaryExit, pre: true},
}

// bad-sender kinds. five = the bad sender contributes two messages.
type kind struct {
	name      string
	two       bool
	multiOnly bool
}

var kinds = []kind{
	{name: "garbage-96-bytes"},
	{name: "signature-over-another-root"},
	{name: "signature-by-another-share"},
	{name: "wrong-root-list"},
	{name: "bad-then-good", two: true},
	{name: "good-then-bad", two: true},
	{name: "exact-duplicate", two: true},
	{name: "garbage-twice", two: true}, // a purged faulty sender sends garbage again (needs the fallback more than once per root)
	{name: "permuted-roots", multiOnly: true},
}

var families = []string{"random", "bad-first", "bad-at-quorum-edge", "bad-last", "interleaved"}

type scen struct {
	n         int
	ph        phase
	u         spectypes.OperatorID
	bad       []spectypes.OperatorID
	kinds     []kind
	which     int // multi-root messages: which partial signatures are corrupted (0 all, 1 first, 2 middle, 3 last)
	family    string
	perm      int // N=4: index of the permutation of the message list (-1: by family)
	validator bool
	queue     bool // through Validator.HandleMessage, the role's queue and the real consumer goroutine
}

func (s scen) String() string {
	var ks []string
	for _, k := range s.kinds {
		ks = append(ks, k.name)
	}
	return fmt.Sprintf("N=%d phase=%s operator=%d bad=%v kinds=%v corrupt=%d order=%s perm=%d validator=%v queue=%v", s.n, s.ph.name, s.u, s.bad, ks, s.which, s.family, s.perm, s.validator, s.queue)
}

func Spec() *evid.Spec {
	setup := func(ch *evid.Child) {
		ch.Data = &state{env: dsim.NewEnv(), verified: map[[32]byte]bool{}}
		dsim.QueueWatchdog = 8 * time.Second // slow after 8 s, not happening after 40 s
	}
	return &evid.Spec{
		ID:    "C05",
		Level: "exploration",
		Rule: "one case = one history: a real operator is taken to a phase (14 phases: every role's pre- and post-consensus partial-signature phase incl. full/blinded Capella/Deneb blocks, registration, exit) and receives the committee's " +
			"partial-signature messages. Bad senders: subsets of size <= f of the other operators (lane n4: every singleton, lane n7: every subset of size 1 and 2, lane n10_13: sampled) x kinds {96 garbage bytes, valid signature over another root, " +
			"valid signature by another share, wrong root list, bad-then-good, good-then-bad, exact duplicate, permuted roots (multi-root)} x (multi-root) which partial signatures are corrupted x arrival order (lane n4: every permutation of the message list, " +
			"enumerated; larger N: random, bad-first, bad-at-the-quorum-edge, bad-last, interleaved). Scenario tables of lanes n4 / n7 are enumerated with a stride so that the thorough tier covers them completely. A quarter of the histories run behind Validator.ProcessMessage. " +
			"Non-trivial = history with at least one bad sender in which a quorum of correct messages was delivered; distinct = (phase, N, kinds, corrupted part, order family/permutation, bad set size).",
		Assumptions: []string{
			"oracle: herumi BLS verification under the validator public key of the key set, own signing-root formula sha256(htr(object) || domain), domain from the fake beacon node; SSZ hash-tree-root is trusted",
			"a sender's message is 'correct' when every partial signature in it verifies under that sender's share public key over exactly the expected signing roots (checked by the oracle, not taken from the generator)",
			"the calls GetBeaconBlock / GetBlindedBeaconBlock / GetSyncCommitteeContribution carry reconstructed pre-consensus proofs to the beacon node but are not Submit* methods: they are judged by the same rules, violations on them carry the kind prefix 'request-'",
		},
		MinNontrivial: 200,
		Lanes: []evid.Lane{
			{Name: "n4", Children: evid.Const(16, 16), Cases: evid.Const(60, 1500), TimeoutS: evid.Const(900, 7200), Setup: setup, Run: func(c *evid.Case) { run(c, tableScen(c, 4)) }},
			{Name: "n7", Children: evid.Const(16, 16), Cases: evid.Const(50, 1300), TimeoutS: evid.Const(900, 7200), Setup: setup, Run: func(c *evid.Case) { run(c, tableScen(c, 7)) }},
			{Name: "n10_13", Children: evid.Const(16, 16), Cases: evid.Const(46, 950), TimeoutS: evid.Const(900, 7200), Setup: setup, Run: func(c *evid.Case) { run(c, sampledScen(c)) }},
		},
	}
}

type state struct {
	env      *dsim.Env
	verified map[[32]byte]bool
	table4   []scen
	table7   []scen
}

func applicable(k kind, ph phase) bool { return !k.multiOnly || ph.multi }

// table enumerates the scenario space of a committee size (operator under test and tie-breaks are drawn per case).
func table(n int) []scen {
	var out []scen
	f := (n - 1) / 3
	for _, ph := range phases {
		whichN := 1
		if ph.multi {
			whichN = 4
		}
		// no bad sender at all
		if n == 4 {
			for p := 0; p < 24; p++ {
				out = append(out, scen{n: n, ph: ph, perm: p})
			}
		} else {
			out = append(out, scen{n: n, ph: ph, perm: -1, family: "random"})
		}
		for _, k := range kinds {
			if !applicable(k, ph) {
				continue
			}
			for w := 0; w < whichN; w++ {
				if w > 0 && (k.name == "exact-duplicate" || k.name == "permuted-roots" || k.name == "wrong-root-list") {
					continue
				}
				// bad subsets are encoded as offsets among the OTHER operators (the operator under test is drawn later)
				for _, sub := range subsets(n-1, f) {
					if n == 4 {
						perms := 24
						if k.two {
							perms = 120
						}
						for p := 0; p < perms; p++ {
							out = append(out, scen{n: n, ph: ph, kinds: []kind{k}, which: w, bad: sub, perm: p})
						}
					} else {
						for _, fam := range families {
							ks := make([]kind, len(sub))
							for i := range ks {
								ks[i] = k
							}
							out = append(out, scen{n: n, ph: ph, kinds: ks, which: w, bad: sub, perm: -1, family: fam})
						}
					}
				}
			}
		}
	}
	return out
}

// subsets: all non-empty subsets of {1..m} of size <= f, as operator-id offsets.
func subsets(m, f int) [][]spectypes.OperatorID {
	var out [][]spectypes.OperatorID
	var rec func(start int, cur []spectypes.OperatorID)
	rec = func(start int, cur []spectypes.OperatorID) {
		if len(cur) > 0 {
			out = append(out, append([]spectypes.OperatorID{}, cur...))
		}
		if len(cur) == f {
			return
		}
		for i := start; i <= m; i++ {
			rec(i+1, append(cur, spectypes.OperatorID(i)))
		}
	}
	rec(1, nil)
	return out
}

const stride = 7919 // prime, coprime with the table sizes (checked)

func tableScen(c *evid.Case, n int) scen {
	st := c.Data.(*state)
	tb := &st.table4
	if n == 7 {
		tb = &st.table7
	}
	if *tb == nil {
		*tb = table(n)
		if len(*tb)%stride == 0 {
			panic("stride divides the table size")
		}
	}
	cases := c.Lane.Cases(c.Tier)
	g := c.Idx*cases + c.Index
	off := int(uint64(c.Seed) * 2654435761 % uint64(len(*tb)))
	s := (*tb)[(off+g*stride)%len(*tb)]
	c.Max("max_scenario_table_n"+fmt.Sprint(n), int64(len(*tb)))
	// draw the operator under test, map the bad offsets onto the other operators
	s.u = spectypes.OperatorID(1 + c.Rng.Intn(n))
	var others []spectypes.OperatorID
	for id := spectypes.OperatorID(1); int(id) <= n; id++ {
		if id != s.u {
			others = append(others, id)
		}
	}
	var bad []spectypes.OperatorID
	for _, o := range s.bad {
		bad = append(bad, others[o-1])
	}
	s.bad = bad
	// with two bad senders, sometimes mix kinds
	if len(s.kinds) == 2 && c.Rng.Intn(3) == 0 {
		for {
			k := kinds[c.Rng.Intn(len(kinds))]
			if applicable(k, s.ph) {
				s.kinds[1] = k
				break
			}
		}
	}
	s.validator = c.Rng.Intn(4) == 0
	s.queue = !s.validator && c.Rng.Intn(6) == 0
	return s
}

func sampledScen(c *evid.Case) scen {
	rng := c.Rng
	n := []int{10, 13}[rng.Intn(2)]
	f := (n - 1) / 3
	s := scen{n: n, ph: phases[rng.Intn(len(phases))], perm: -1, family: families[rng.Intn(len(families))], validator: rng.Intn(4) == 0}
	s.queue = !s.validator && rng.Intn(6) == 0
	if s.ph.deneb && rng.Intn(2) == 0 {
		s.ph = phases[rng.Intn(len(phases))] // Deneb values are large: sampled at half the rate
	}
	s.u = spectypes.OperatorID(1 + rng.Intn(n))
	nb := rng.Intn(f + 1)
	if rng.Intn(2) == 0 {
		nb = f
	}
	for _, i := range rng.Perm(n) {
		id := spectypes.OperatorID(i + 1)
		if id != s.u && len(s.bad) < nb {
			s.bad = append(s.bad, id)
		}
	}
	sort.Slice(s.bad, func(i, j int) bool { return s.bad[i] < s.bad[j] })
	for range s.bad {
		for {
			k := kinds[rng.Intn(len(kinds))]
			if applicable(k, s.ph) {
				s.kinds = append(s.kinds, k)
				break
			}
		}
	}
	if s.ph.multi {
		s.which = rng.Intn(4)
	}
	return s
}

// ---- one history ------------------------------------------------------------------------------------------------

type pmsg struct {
	from  spectypes.OperatorID
	m     *spectypes.SSVMessage
	label string
	bad   bool // belongs to a bad sender
	first bool // of a two-message kind: must come first
	pair  int  // index of the partner message (two-message kinds), -1 otherwise
}

type histo struct {
	c            reporter
	rng          *rand.Rand
	sample       bool
	st           *state
	s            scen
	cl           *dsim.Cluster
	op           *dsim.Operator
	duty         *spectypes.Duty
	exp          []dsim.Expected
	typ          spectypes.PartialSigMsgType
	id           spectypes.MessageID
	log          []string
	value        []byte
	setupSubmits int
	findings     [][2]string
	noLiveness   bool // the history changed the duty's inputs midway: only the safety clauses are judged
}

func (h *histo) logf(f string, a ...any) { h.log = append(h.log, fmt.Sprintf(f, a...)) }

func run(c *evid.Case, s scen) {
	runHist(c.Data.(*state), c.Rng, c, c.Index == 0 && c.Idx < 3, s)
}

// reporter is the part of *evid.Case a history reports to.
type reporter interface {
	Journal(format string, a ...any)
	Count(name string, n int64)
	Nontrivial(h uint64)
	Distinct(set string, h uint64)
	Sample(v any)
	Inconclusive(why string)
	Violation(kind, sig, detail string, witness any)
}

type nopReporter struct{}

func (nopReporter) Journal(string, ...any)                {}
func (nopReporter) Count(string, int64)                   {}
func (nopReporter) Nontrivial(uint64)                     {}
func (nopReporter) Distinct(string, uint64)               {}
func (nopReporter) Sample(any)                            {}
func (nopReporter) Inconclusive(string)                   {}
func (nopReporter) Violation(string, string, string, any) {}

// runHist runs one history and returns it (nil if the setup failed).
func runHist(st *state, rng *rand.Rand, c reporter, sample bool, s scen) *histo {
	c.Journal("C05 %s", s)
	mode := "runner"
	if s.validator {
		mode = "validator"
	}
	if s.queue {
		mode = "queue"
	}
	cl := dsim.NewCluster(st.env, rng, dsim.Config{N: s.n, Mode: mode, Blinded: s.ph.blinded, Only: []int{int(s.u) - 1}})
	defer cl.Close()
	h := &histo{c: c, rng: rng, sample: sample, st: st, s: s, cl: cl, op: cl.Ops[s.u-1]}
	role := s.ph.role
	h.id = dsim.MsgID(cl.KS.ValidatorPK.Serialize(), role)
	h.duty = dsim.DutyFor(role, dsim.BaseSlot(role, 0, s.ph.deneb))
	// fault: the publish of the operator's own pre-consensus share fails (Network.Broadcast returns an error) - the duty start
	// reports the error, the duty stays set up, and the other operators' shares still arrive. Safety clauses only.
	publishFails := s.ph.pre && !s.queue && rng.Intn(12) == 0
	if publishFails {
		h.op.FailPublish, h.op.FailPublishTypes = 1, nil
	}
	if err := cl.StartDuty(h.op, h.duty, "fresh", nil); err != nil {
		if !publishFails || h.op.PublishesFailed == 0 {
			c.Inconclusive("harness: duty start failed: " + err.Error())
			return nil
		}
		h.noLiveness = true
		h.logf("the publish of the operator's own share failed at duty start: %v", err)
		c.Count("own_share_publish_failed", 1)
	}
	h.op.FailPublish = 0
	cl.Pool = nil
	preExp, preTyp, _ := dsim.PreExpected(h.duty, h.op.Share)
	if s.ph.pre {
		h.exp, h.typ = preExp, preTyp
	} else {
		// reach the decided state cheaply
		if len(preExp) > 0 {
			ids := dsim.FirstSigners(s.n, int(cl.KS.Threshold), s.u)
			for _, id := range ids {
				var m *spectypes.SSVMessage
				if id == s.u {
					m = h.own("pre")
				} else {
					m = dsim.WrapPartial(h.id, st.env.PartialSigMsg(cl.KS, id, preTyp, h.duty.Slot, roots(preExp)))
				}
				if m == nil {
					c.Inconclusive("harness: operator did not broadcast its pre-consensus share")
					return nil
				}
				_ = cl.Deliver(h.op, m, "setup-pre")
			}
			cl.Pool = nil
		}
		snap := dsim.TakeSnap(h.op.Real[role])
		if !snap.HasInstance {
			c.Inconclusive("harness: no running instance after the pre-consensus quorum: " + strings.Join(tail(cl.Acts, 6), " | "))
			return nil
		}
		h.value = dsim.ValueFor(role, h.duty.Slot, 0, s.ph.blinded)
		decRound := specqbft.Round(1)
		if s.queue {
			// the consumer's pop filter holds commit-type messages of the operator's own (height, round) back until a proposal is
			// accepted: the committee decided one round later than the round this operator is in
			decRound = 2
		}
		dm := st.env.Decided(cl.KS, h.id[:], specqbft.Height(h.duty.Slot), decRound, h.value, dsim.FirstSigners(s.n, int(cl.KS.Threshold)))
		if err := cl.Deliver(h.op, dsim.WrapConsensus(h.id, dm), "setup-decided"); err != nil {
			c.Inconclusive("harness: genuine decided message rejected: " + err.Error())
			return nil
		}
		cl.Pool = nil
		cd := &spectypes.ConsensusData{}
		if err := cd.Decode(h.value); err != nil {
			panic(err)
		}
		exp, err := dsim.PostExpected(role, cd)
		if err != nil {
			panic(err)
		}
		for _, e := range exp { // a proposer value decodes as exactly one of block / blinded block
			if role == spectypes.BNRoleProposer && strings.HasPrefix(e.Name, "blinded") != s.ph.blinded {
				continue
			}
			h.exp = append(h.exp, e)
		}
		h.typ = spectypes.PostConsensusPartialSig
	}
	// what was submitted during the setup belongs to the setup
	setupSubmits := len(h.op.Submits)

	list := h.buildMessages()
	order := h.order(list)
	// validator registration: the share's fee recipient can change while the duty runs (the controller's UpdateFeeRecipient
	// writes it into the share object the runners hold); partial signatures made before the change are then over another
	// registration. Whatever is submitted must still verify over exactly what is submitted.
	feeChangeAt := -1
	if s.ph.name == "validator-registration" && rng.Intn(3) == 0 {
		feeChangeAt = 1 + rng.Intn(int(cl.KS.Threshold)-1)
	}
	for k, i := range order {
		if k == feeChangeAt {
			h.op.Share.FeeRecipientAddress = [20]byte{0xf2, 0xf2, 0xf2, 0xf2, 0xf2, 0xf2, 0xf2, 0xf2, 0xf2, 0xf2, 0xf2, 0xf2, 0xf2, 0xf2, 0xf2, 0xf2, 0xf2, 0xf2, 0xf2, 0xf2}
			h.noLiveness = true
			h.logf("fee recipient of the share changed (event processed by the node while the duty runs)")
			c.Count("fee_recipient_changed_mid_duty", 1)
		}
		p := list[i]
		err := cl.Deliver(h.op, p.m, p.label)
		h.logf("deliver from %d [%s] -> err=%v; submissions so far %d", p.from, p.label, err != nil, len(h.op.Submits)-setupSubmits)
		c.Count("msg_"+p.label, 1)
	}
	h.setupSubmits = setupSubmits
	if s.queue {
		c.Count("histories_via_queue_consumer", 1)
		if cl.QueueMismatch > 0 {
			c.Inconclusive(fmt.Sprintf("queue mode: the consumer handled %d messages the driver had not queued", cl.QueueMismatch))
			return h
		}
		if cl.QueueStuck && h.op.QueueRealLen(role) == 0 {
			c.Inconclusive("queue mode: a predicted pop did not complete within the watchdog although the queue is empty (loaded machine?)")
			return h
		}
		if cl.QueueStuck {
			// the consumer left a message in the queue that the documented pop filter admits: whatever that costs is judged below
			c.Count("queue_consumer_left_admissible_message", 1)
		}
	}
	h.judge(list, setupSubmits)
	return h
}

func tail(a []string, n int) []string {
	if len(a) > n {
		return a[len(a)-n:]
	}
	return a
}

func roots(exp []dsim.Expected) [][32]byte {
	var r [][32]byte
	for _, e := range exp {
		r = append(r, e.SigningRoot)
	}
	return r
}

// own returns the operator's own latest broadcast of a partial-signature kind.
func (h *histo) own(kind string) *spectypes.SSVMessage {
	bs := h.op.Broadcasts
	for i := len(bs) - 1; i >= 0; i-- {
		if bs[i].Kind == kind && bs[i].Role == h.s.ph.role {
			return bs[i].Msg
		}
	}
	return nil
}

func (h *histo) buildMessages() []pmsg {
	s, env, ks := h.s, h.st.env, h.cl.KS
	rs := roots(h.exp)
	kindOf := map[spectypes.OperatorID]kind{}
	for i, b := range s.bad {
		kindOf[b] = s.kinds[i]
	}
	var list []pmsg
	for id := spectypes.OperatorID(1); int(id) <= s.n; id++ {
		var good *spectypes.SSVMessage
		if id == s.u {
			k := "post"
			if s.ph.pre {
				k = "pre"
			}
			good = h.own(k)
			if good == nil {
				if !h.noLiveness { // (with an injected publish failure there is no own share on the wire)
					h.c.Inconclusive("harness: operator under test did not broadcast its own share")
				}
				continue
			}
			list = append(list, pmsg{from: id, m: good, label: "own", pair: -1})
			continue
		}
		good = dsim.WrapPartial(h.id, env.PartialSigMsg(ks, id, h.typ, h.duty.Slot, rs))
		k, isBad := kindOf[id]
		if !isBad {
			list = append(list, pmsg{from: id, m: good, label: "good", pair: -1})
			continue
		}
		corrupt := func(mut func(pm *spectypes.PartialSignatureMessage, i int)) *spectypes.SSVMessage {
			ps := env.PartialSigMsg(ks, id, h.typ, h.duty.Slot, rs)
			n := len(ps.Message.Messages)
			for i, pm := range ps.Message.Messages {
				hit := s.which == 0 || (s.which == 1 && i == 0) || (s.which == 2 && i == n/2) || (s.which == 3 && i == n-1)
				if n == 1 {
					hit = true
				}
				if hit {
					mut(pm, i)
				}
			}
			return dsim.WrapPartial(h.id, env.SealPartial(ks, id, ps.Message))
		}
		garbage := func() *spectypes.SSVMessage {
			return corrupt(func(pm *spectypes.PartialSignatureMessage, i int) {
				b := make([]byte, 96)
				h.rng.Read(b)
				pm.PartialSignature = b
			})
		}
		switch k.name {
		case "garbage-96-bytes":
			list = append(list, pmsg{from: id, m: garbage(), label: "bad:" + k.name, bad: true, pair: -1})
		case "signature-over-another-root":
			m := corrupt(func(pm *spectypes.PartialSignatureMessage, i int) {
				other := sha256.Sum256(append([]byte("another root"), pm.SigningRoot[:]...))
				pm.PartialSignature = env.ShareSig(ks, id, other)
			})
			list = append(list, pmsg{from: id, m: m, label: "bad:" + k.name, bad: true, pair: -1})
		case "signature-by-another-share":
			m := corrupt(func(pm *spectypes.PartialSignatureMessage, i int) {
				o := spectypes.OperatorID(uint64(id)%uint64(s.n) + 1)
				pm.PartialSignature = env.ShareSig(ks, o, pm.SigningRoot)
			})
			list = append(list, pmsg{from: id, m: m, label: "bad:" + k.name, bad: true, pair: -1})
		case "wrong-root-list":
			ps := env.PartialSigMsg(ks, id, h.typ, h.duty.Slot, rs)
			switch h.rng.Intn(3) {
			case 0: // an extra root
				x := sha256.Sum256([]byte("extra root"))
				ps.Message.Messages = append(ps.Message.Messages, &spectypes.PartialSignatureMessage{PartialSignature: env.ShareSig(ks, id, x), SigningRoot: x, Signer: id})
			case 1: // one root replaced (validly signed)
				x := sha256.Sum256([]byte("replaced root"))
				ps.Message.Messages[len(ps.Message.Messages)-1] = &spectypes.PartialSignatureMessage{PartialSignature: env.ShareSig(ks, id, x), SigningRoot: x, Signer: id}
			default: // one root missing, or (single root) the same root twice
				if len(ps.Message.Messages) > 1 {
					ps.Message.Messages = ps.Message.Messages[:len(ps.Message.Messages)-1]
				} else {
					ps.Message.Messages = append(ps.Message.Messages, ps.Message.Messages[0])
				}
			}
			list = append(list, pmsg{from: id, m: dsim.WrapPartial(h.id, env.SealPartial(ks, id, ps.Message)), label: "bad:" + k.name, bad: true, pair: -1})
		case "bad-then-good":
			list = append(list, pmsg{from: id, m: garbage(), label: "bad:replaced-later", bad: true, first: true, pair: len(list) + 1})
			list = append(list, pmsg{from: id, m: good, label: "good:replacement", bad: true, pair: len(list) - 1})
		case "good-then-bad":
			list = append(list, pmsg{from: id, m: good, label: "good:replaced-later", bad: true, first: true, pair: len(list) + 1})
			list = append(list, pmsg{from: id, m: garbage(), label: "bad:replacement", bad: true, pair: len(list) - 1})
		case "garbage-twice":
			list = append(list, pmsg{from: id, m: garbage(), label: "bad:garbage-first", bad: true, first: true, pair: len(list) + 1})
			list = append(list, pmsg{from: id, m: garbage(), label: "bad:garbage-again", bad: true, pair: len(list) - 1})
		case "exact-duplicate":
			list = append(list, pmsg{from: id, m: good, label: "good:first-copy", bad: true, first: true, pair: len(list) + 1})
			list = append(list, pmsg{from: id, m: good, label: "good:duplicate", bad: true, pair: len(list) - 1})
		case "permuted-roots":
			ps := env.PartialSigMsg(ks, id, h.typ, h.duty.Slot, rs)
			ms := ps.Message.Messages
			r := 1 + h.rng.Intn(len(ms)-1)
			ps.Message.Messages = append(append([]*spectypes.PartialSignatureMessage{}, ms[r:]...), ms[:r]...)
			list = append(list, pmsg{from: id, m: dsim.WrapPartial(h.id, env.SealPartial(ks, id, ps.Message)), label: "good:permuted-roots", bad: true, pair: -1})
		}
	}
	return list
}

// order returns the arrival order (indices into list).
func (h *histo) order(list []pmsg) []int {
	s, rng := h.s, h.rng
	n := len(list)
	var ord []int
	if s.perm >= 0 {
		ord = nthPerm(n, s.perm)
	} else {
		var good, bad []int
		for i, p := range list {
			if p.bad {
				bad = append(bad, i)
			} else {
				good = append(good, i)
			}
		}
		rng.Shuffle(len(good), func(i, j int) { good[i], good[j] = good[j], good[i] })
		rng.Shuffle(len(bad), func(i, j int) { bad[i], bad[j] = bad[j], bad[i] })
		q := int(h.cl.KS.Threshold)
		switch s.family {
		case "bad-first":
			ord = append(append(ord, bad...), good...)
		case "bad-last":
			ord = append(append(ord, good...), bad...)
		case "bad-at-quorum-edge":
			k := q - len(s.bad)
			if k < 0 {
				k = 0
			}
			if k > len(good) {
				k = len(good)
			}
			ord = append(append(append(ord, good[:k]...), bad...), good[k:]...)
		case "interleaved":
			for i := 0; i < len(good) || i < len(bad); i++ {
				if i < len(bad) {
					ord = append(ord, bad[i])
				}
				if i < len(good) {
					ord = append(ord, good[i])
				}
			}
		default:
			ord = rng.Perm(n)
		}
	}
	// two-message kinds: the "first" message comes first
	pos := make([]int, n)
	for p, i := range ord {
		pos[i] = p
	}
	for i, p := range list {
		if p.first && pos[i] > pos[p.pair] {
			a, b := pos[i], pos[p.pair]
			ord[a], ord[b] = ord[b], ord[a]
			pos[i], pos[p.pair] = b, a
		}
	}
	return ord
}

func nthPerm(n, k int) []int {
	items := make([]int, n)
	for i := range items {
		items[i] = i
	}
	fact := 1
	for i := 2; i <= n; i++ {
		fact *= i
	}
	k %= fact
	var out []int
	for i := n; i >= 1; i-- {
		fact /= i
		j := k / fact
		k %= fact
		out = append(out, items[j])
		items = append(items[:j], items[j+1:]...)
	}
	return out
}

// ---- the oracle ---------------------------------------------------------------------------------------------------

// verify with a per-child cache (signatures are deterministic and recur across histories).
func (st *state) verify(pk []byte, root [32]byte, sig []byte) bool {
	hh := sha256.New()
	hh.Write(pk)
	hh.Write(root[:])
	hh.Write(sig)
	var k [32]byte
	copy(k[:], hh.Sum(nil))
	if v, ok := st.verified[k]; ok {
		return v
	}
	v := dsim.VerifySig(pk, root, sig)
	if len(st.verified) < 500000 {
		st.verified[k] = v
	}
	return v
}

// correctSender: the oracle's own judgement of a delivered message.
func (h *histo) correctMessage(p pmsg) bool {
	ps := &spectypes.SignedPartialSignatureMessage{}
	if ps.Decode(p.m.Data) != nil || ps.Signer != p.from || ps.Message.Slot != h.duty.Slot || ps.Message.Type != h.typ || len(ps.Message.Messages) != len(h.exp) {
		return false
	}
	want := map[[32]byte]int{}
	for _, e := range h.exp {
		want[e.SigningRoot]++
	}
	pk := h.cl.KS.Shares[p.from].GetPublicKey().Serialize()
	for _, pm := range ps.Message.Messages {
		if pm.Signer != p.from || want[pm.SigningRoot] == 0 {
			return false
		}
		want[pm.SigningRoot]--
		if !h.st.verify(pk, pm.SigningRoot, pm.PartialSignature) {
			return false
		}
	}
	return true
}

type submitted struct {
	name    string
	dt      phase0.DomainType
	obj     ssz.HashRoot
	sig     phase0.BLSSignature
	method  string
	request bool
	note    string
}

// objectsOf lists what one recorded beacon-node call hands over: (object, domain type, signature).
func objectsOf(ev *dsim.SubmitEvent, dutySlot phase0.Slot) []submitted {
	req := !ev.Submit
	one := func(name string, dt phase0.DomainType, obj ssz.HashRoot) []submitted {
		return []submitted{{name: name, dt: dt, obj: obj, sig: ev.Sigs[0], method: ev.Method, request: req}}
	}
	switch o := ev.Obj.(type) {
	case *phase0.Attestation:
		return one("attestation", spectypes.DomainAttester, o.Data)
	case *api.VersionedProposal:
		switch o.Version {
		case spec.DataVersionCapella:
			return one("block", spectypes.DomainProposer, o.Capella)
		case spec.DataVersionDeneb:
			return one("block", spectypes.DomainProposer, o.Deneb.Block)
		}
	case *api.VersionedBlindedProposal:
		switch o.Version {
		case spec.DataVersionCapella:
			return one("blinded-block", spectypes.DomainProposer, o.Capella)
		case spec.DataVersionDeneb:
			return one("blinded-block", spectypes.DomainProposer, o.Deneb)
		}
	case *phase0.SignedAggregateAndProof:
		return one("aggregate-and-proof", spectypes.DomainAggregateAndProof, o.Message)
	case *altair.SyncCommitteeMessage:
		s := one("sync-committee-message", spectypes.DomainSyncCommittee, spectypes.SSZBytes(o.BeaconBlockRoot[:]))
		s[0].note = fmt.Sprintf("slot=%d validator=%d", o.Slot, o.ValidatorIndex)
		return s
	case *altair.SignedContributionAndProof:
		return one("contribution-and-proof", spectypes.DomainContributionAndProof, o.Message)
	case *dsim.Registration:
		var pk phase0.BLSPubKey
		copy(pk[:], o.Pubkey)
		ts := dutySlot // the node builds the registration of the duty's epoch around these arguments
		return one("validator-registration", spectypes.DomainApplicationBuilder, &v1.ValidatorRegistration{FeeRecipient: o.FeeRecipient, GasLimit: spectypes.DefaultGasLimit,
			Timestamp: dsim.BeaconNet.EpochStartTime(dsim.EpochOf(ts)), Pubkey: pk})
	case *phase0.SignedVoluntaryExit:
		return one("voluntary-exit", spectypes.DomainVoluntaryExit, o.Message)
	}
	switch ev.Method {
	case "SubmitAggregateSelectionProof":
		return one("selection-proof", spectypes.DomainSelectionProof, spectypes.SSZUint64(ev.Slot))
	case "GetBeaconBlock", "GetBlindedBeaconBlock":
		return one("randao-reveal", spectypes.DomainRandao, spectypes.SSZUint64(dsim.EpochOf(ev.Slot)))
	case "GetSyncCommitteeContribution":
		var out []submitted
		for i, sig := range ev.Sigs {
			sub := uint64(1 << 62)
			if i < len(ev.Subnet) {
				sub = ev.Subnet[i]
			}
			out = append(out, submitted{name: fmt.Sprintf("sync-selection-proof(subnet %d)", sub), dt: spectypes.DomainSyncCommitteeSelectionProof,
				obj: &altair.SyncAggregatorSelectionData{Slot: ev.Slot, SubcommitteeIndex: sub}, sig: sig, method: ev.Method, request: req})
		}
		return out
	}
	return nil
}

func (h *histo) judge(list []pmsg, setupSubmits int) {
	c, s := h.c, h.s
	vpk := h.cl.KS.ValidatorPK.Serialize()
	// 1. every submission of the phase under test
	count := map[[32]byte]int{}
	nsub := 0
	viol := func(kind, code, detail string, request bool) {
		if request {
			kind = "request-" + kind
		}
		h.findings = append(h.findings, [2]string{kind, fmt.Sprintf("%s/%s", s.ph.name, code)})
		c.Violation(kind, fmt.Sprintf("%s/%s", s.ph.name, code), detail+"\nbad-sender shape: "+h.shape()+"\nscenario: "+s.String()+"\nhistory:\n  "+strings.Join(h.log, "\n  "), h.witness(list))
	}
	for _, ev := range h.op.Submits[setupSubmits:] {
		if ev.Role != s.ph.role {
			continue
		}
		for _, sub := range objectsOf(ev, h.duty.Slot) {
			nsub++
			c.Count("submission_"+ev.Method, 1)
			c.Count("submission_role_"+ev.Role.String(), 1)
			r, err := sub.obj.HashTreeRoot()
			if err != nil {
				viol("invalid-submission", "unhashable-object", fmt.Sprintf("%s: object does not hash: %v", ev.Method, err), sub.request)
				continue
			}
			sr := dsim.SigningRoot(r, dsim.DomainOf(sub.dt))
			if !dsim.VerifySig(vpk, sr, sub.sig[:]) {
				viol("invalid-submission", "signature-does-not-verify/"+baseName(sub.name),
					fmt.Sprintf("%s handed the beacon node a %s whose signature %x.. does not verify under the validator public key over the object's signing root %x", ev.Method, sub.name, sub.sig[:6], sr[:6]), sub.request)
			}
			known := false
			for _, e := range h.exp {
				if e.ObjRoot == r && e.DomainType == sub.dt {
					known = true
				}
			}
			if !known {
				viol("invalid-submission", "object-not-the-decided-one/"+baseName(sub.name),
					fmt.Sprintf("%s handed the beacon node a %s (root %x) that is not an object of the decided value / of the duty", ev.Method, sub.name, r[:6]), sub.request)
			}
			if _, isSync := ev.Obj.(*altair.SyncCommitteeMessage); isSync {
				m := ev.Obj.(*altair.SyncCommitteeMessage)
				if m.Slot != h.duty.Slot || m.ValidatorIndex != h.duty.ValidatorIndex {
					viol("invalid-submission", "sync-message-fields", fmt.Sprintf("sync committee message fields %s differ from the decided duty", sub.note), sub.request)
				}
			}
			count[r]++
			if count[r] == 2 {
				viol("object-submitted-twice", baseName(sub.name), fmt.Sprintf("%s: the %s (root %x) was handed to the beacon node a second time", ev.Method, sub.name, r[:6]), sub.request)
			}
		}
	}
	// 2. bounded progress: a quorum of correct messages delivered => every object submitted exactly once
	correct := map[spectypes.OperatorID]bool{}
	for _, p := range list {
		if h.correctMessage(p) {
			correct[p.from] = true
		}
	}
	quorum := len(correct) >= int(h.cl.KS.Threshold)
	isReq := s.ph.pre && (s.ph.role == spectypes.BNRoleProposer || s.ph.role == spectypes.BNRoleSyncCommitteeContribution)
	if quorum && !h.noLiveness {
		for i, e := range h.exp {
			if count[e.ObjRoot] == 0 {
				viol("submission-lost", fmt.Sprintf("object-%d-of-%d", i+1, len(h.exp)),
					fmt.Sprintf("%d senders delivered correct partial signatures (quorum %d, %d bad senders) but %s (object %d of %d, root %x) was never handed to the beacon node; %d submissions were made",
						len(correct), h.cl.KS.Threshold, len(s.bad), e.Name, i+1, len(h.exp), e.ObjRoot[:6], nsub), isReq)
			}
		}
	} else {
		c.Count("histories_without_correct_quorum", 1)
	}
	// evidence
	c.Count("histories", 1)
	c.Count("histories_phase_"+s.ph.name, 1)
	c.Count(fmt.Sprintf("histories_N%d", s.n), 1)
	if s.validator {
		c.Count("histories_via_validator", 1)
	}
	c.Count("submissions_judged", int64(nsub))
	c.Count("correct_senders", int64(len(correct)))
	for _, a := range h.op.Actions {
		if a.Err != "" {
			c.Count("messages_rejected_by_runner", 1)
		} else {
			c.Count("messages_accepted_by_runner", 1)
		}
	}
	for _, k := range s.kinds {
		c.Count("bad_kind_"+k.name, 1)
	}
	c.Distinct("phase_N_kind_order", evid.Hash(s.ph.name, s.n, kindNames(s), s.family, s.perm >= 0))
	c.Distinct("history_shapes", evid.Hash(s.ph.name, s.n, kindNames(s), s.which, s.family, s.perm, len(s.bad), s.validator))
	if len(s.bad) > 0 && quorum {
		c.Nontrivial(evid.Hash(s.ph.name, s.n, kindNames(s), s.which, s.family, s.perm, len(s.bad)))
		c.Count("histories_nontrivial", 1)
	}
	if h.sample {
		c.Sample(map[string]any{"scenario": s.String(), "history": h.log, "submissions": nsub, "correct_senders": len(correct)})
	}
}

func baseName(n string) string {
	if i := strings.IndexByte(n, '('); i >= 0 {
		return n[:i]
	}
	return n
}

func kindNames(s scen) string {
	var ks []string
	for _, k := range s.kinds {
		ks = append(ks, k.name)
	}
	sort.Strings(ks)
	return strings.Join(ks, "+")
}

// shape is the part of the scenario that goes into a violation signature.
func (h *histo) shape() string {
	s := h.s
	w := []string{"all", "first", "middle", "last"}[s.which]
	if !s.ph.multi {
		w = "single"
	}
	return fmt.Sprintf("%s/corrupt-%s", kindNames(s), w)
}

func (h *histo) witness(list []pmsg) map[string]any {
	return map[string]any{"scenario": h.s.String(), "history": h.log, "operator_inputs": tail(h.cl.Acts, 80)}
}
