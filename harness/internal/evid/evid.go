// Package evid is the common driver of every check: it fans a property's lanes out over child
// processes (so that a panic / fatal error / race-detector abort in the code under test cannot take
// the monitor down and is attributable to one journaled case), merges what the children's monitors
// observed into /verif/evidence/<ID>.json, matches violations against /verif/known_findings.json and
// prints the VIOLATION / KNOWN-FINDING lines of the interface.
package evid

import (
	"bufio"
	"bytes"
	"crypto/sha256"
	"encoding/binary"
	"encoding/json"
	"flag"
	"fmt"
	"math/rand"
	"os"
	"os/exec"
	"path/filepath"
	"regexp"
	"runtime"
	"runtime/debug"
	"sort"
	"strconv"
	"strings"
	"sync"
	"time"
)

const Root = "/verif"

// OutRoot is where evidence, replays and run directories go (overridable for scratch runs against mutated copies).
var OutRoot = envOr("VERIF_OUT", Root)

// Spec describes one property check.
type Spec struct {
	ID          string
	Level       string // evidence level
	Rule        string // how cases are generated / what counts as non-trivial & distinct
	Assumptions []string
	Lanes       []Lane
	// MinNontrivial: fewer distinct non-trivial cases than this (summed over lanes) => inconclusive.
	MinNontrivial int
}

// Lane is one workload + monitor; it is run as Children child processes, each executing
// Cases(tier) cases. A case must be a pure function of its *Case (rng, indices).
type Lane struct {
	Name     string
	Race     bool // run with the -race binary; every race report is a violation
	Asan     bool // run with the -asan binary (built for the thorough tier only); a report kills the child = crash violation
	Children func(tier string) int
	Cases    func(tier string) int // per child
	// TimeoutS is the watchdog for one child (firing = inconclusive, not a violation).
	TimeoutS func(tier string) int
	Run      func(c *Case)
	// Setup is run once per child before the cases (optional).
	Setup func(ch *Child)
	// MemLimitMB: GOMEMLIMIT-style soft limit + hard RLIMIT via ulimit is left to the OS; 0 = default 4096
	MemLimitMB int
	// CrashIsViolation: a dying child counts as a violation of the property (default true).
	CrashNotViolation bool
}

// Violation is one refuting observation.
type Violation struct {
	Property string          `json:"property"`
	Lane     string          `json:"lane"`
	Kind     string          `json:"kind"`   // short class, e.g. "lost-message"
	Sig      string          `json:"sig"`    // signature used for known-finding matching
	Detail   string          `json:"detail"` // human readable witness
	Seed     int64           `json:"seed"`
	Child    int             `json:"child"`
	CaseIdx  int             `json:"case"`
	Tier     string          `json:"tier"`
	Witness  json.RawMessage `json:"witness,omitempty"`
}

// ChildResult is what a child writes when it finishes.
type ChildResult struct {
	Lane         string              `json:"lane"`
	Child        int                 `json:"child"`
	Evaluations  int64               `json:"evaluations"`
	Nontrivial   []uint64            `json:"nontrivial"` // distinct hashes
	Counters     map[string]int64    `json:"counters"`
	Distinct     map[string][]uint64 `json:"distinct"` // named distinct-sets (states, interleavings)
	Samples      []any               `json:"samples"`
	Violations   []Violation         `json:"violations"`
	Inconclusive []string            `json:"inconclusive"`
	Done         bool                `json:"done"`
}

// Child is the per-process context.
type Child struct {
	Spec     *Spec
	Lane     *Lane
	Tier     string
	Seed     int64
	Idx      int
	N        int
	mu       sync.Mutex
	res      ChildResult
	nt       map[uint64]struct{}
	dist     map[string]map[uint64]struct{}
	journal  *os.File
	Data     any // lane-private
	perKey   map[string]int
	findings []Finding
	unlisted int // violations not matched by a known finding (only these end a child early)
}

// Case is the context of one case.
type Case struct {
	*Child
	Index int
	Rng   *rand.Rand
	Desc  string
}

func mix(vals ...int64) int64 {
	h := sha256.New()
	for _, v := range vals {
		var b [8]byte
		binary.LittleEndian.PutUint64(b[:], uint64(v))
		h.Write(b[:])
	}
	s := h.Sum(nil)
	return int64(binary.LittleEndian.Uint64(s[:8]) >> 1)
}

func strHash(s string) int64 {
	h := sha256.Sum256([]byte(s))
	return int64(binary.LittleEndian.Uint64(h[:8]) >> 1)
}

// Hash hashes arbitrary printable parts to a 64-bit value (for distinctness counting).
func Hash(parts ...any) uint64 {
	h := sha256.New()
	for _, p := range parts {
		switch v := p.(type) {
		case []byte:
			h.Write(v)
		case string:
			h.Write([]byte(v))
		default:
			fmt.Fprintf(h, "%v", v)
		}
		h.Write([]byte{0})
	}
	s := h.Sum(nil)
	return binary.LittleEndian.Uint64(s[:8])
}

// Journal records what is about to be executed (flushed to disk before execution).
func (c *Child) Journal(format string, a ...any) {
	if c.journal == nil {
		return
	}
	c.mu.Lock()
	fmt.Fprintf(c.journal, format+"\n", a...)
	c.mu.Unlock()
}

func (c *Child) Count(name string, n int64) {
	c.mu.Lock()
	c.res.Counters[name] += n
	c.mu.Unlock()
}

// Max keeps the maximum of a counter.
func (c *Child) Max(name string, n int64) {
	c.mu.Lock()
	if c.res.Counters[name] < n {
		c.res.Counters[name] = n
	}
	c.mu.Unlock()
}

// AddEvaluations: a case that bundles n further executions (crash points of one history, keys of one batch, mutants of one
// certificate) adds them to the evaluation count, so that "evaluations" is the number of executions actually run.
func (c *Child) AddEvaluations(n int64) {
	c.mu.Lock()
	c.res.Evaluations += n
	c.mu.Unlock()
}

// Nontrivial records one distinct non-trivial case (by hash).
func (c *Child) Nontrivial(h uint64) {
	c.mu.Lock()
	c.nt[h] = struct{}{}
	c.mu.Unlock()
}

// Distinct records membership of h in the named distinct-set (states, interleavings, ...).
func (c *Child) Distinct(set string, h uint64) {
	c.mu.Lock()
	m := c.dist[set]
	if m == nil {
		m = map[uint64]struct{}{}
		c.dist[set] = m
	}
	if len(m) < 2_000_000 {
		m[h] = struct{}{}
	}
	c.mu.Unlock()
}

// Sample keeps up to 4 samples per child.
func (c *Child) Sample(v any) {
	c.mu.Lock()
	if len(c.res.Samples) < 4 {
		c.res.Samples = append(c.res.Samples, v)
	}
	c.mu.Unlock()
}

func (c *Child) Inconclusive(why string) {
	c.mu.Lock()
	if len(c.res.Inconclusive) < 50 {
		c.res.Inconclusive = append(c.res.Inconclusive, why)
	}
	c.mu.Unlock()
}

// Violation records a refuting observation for the current case.
func (c *Case) Violation(kind, sig, detail string, witness any) {
	var w json.RawMessage
	if witness != nil {
		w, _ = json.Marshal(witness)
	}
	v := Violation{Property: c.Spec.ID, Lane: c.Lane.Name, Kind: kind, Sig: sig, Detail: detail,
		Seed: c.Seed, Child: c.Idx, CaseIdx: c.Index, Tier: c.Tier, Witness: w}
	c.mu.Lock()
	if c.perKey == nil {
		c.perKey = map[string]int{}
		c.findings = loadFindings()
	}
	key := kind + "|" + sig
	c.perKey[key]++
	listed := matchFinding(c.findings, &v) != nil
	if !listed {
		c.unlisted++
	} else {
		c.res.Counters["known_finding_observations"]++
	}
	// keep at most 5 witnesses per (kind, signature) and child: known findings must not flood the result or end the child
	if c.perKey[key] <= 5 && len(c.res.Violations) < 400 {
		c.res.Violations = append(c.res.Violations, v)
	}
	c.mu.Unlock()
}

func (c *Child) flush(done bool, out string) {
	c.mu.Lock()
	defer c.mu.Unlock()
	c.res.Done = done
	c.res.Nontrivial = c.res.Nontrivial[:0]
	for h := range c.nt {
		c.res.Nontrivial = append(c.res.Nontrivial, h)
	}
	c.res.Distinct = map[string][]uint64{}
	for k, m := range c.dist {
		l := make([]uint64, 0, len(m))
		for h := range m {
			l = append(l, h)
		}
		c.res.Distinct[k] = l
	}
	b, _ := json.Marshal(&c.res)
	tmp := out + ".tmp"
	_ = os.WriteFile(tmp, b, 0o644)
	_ = os.Rename(tmp, out)
}

// Finding is an entry of known_findings.json.
type Finding struct {
	Property string `json:"property"`
	ID       string `json:"id"`
	Status   string `json:"status"` // "finding" (suppresses, prints KNOWN-FINDING) or "fixed" (suppresses nothing)
	What     string `json:"what"`
	Commit   string `json:"commit,omitempty"`
	Match    struct {
		Lane     string `json:"lane,omitempty"`
		Kind     string `json:"kind"`
		SigRegex string `json:"sig_regex"`
	} `json:"match"`
}

func loadFindings() []Finding {
	var f struct {
		Findings []Finding `json:"findings"`
	}
	b, err := os.ReadFile(filepath.Join(Root, "known_findings.json"))
	if err != nil {
		return nil
	}
	if err := json.Unmarshal(b, &f); err != nil {
		fmt.Fprintln(os.Stderr, "known_findings.json unreadable:", err)
		os.Exit(2)
	}
	return f.Findings
}

func matchFinding(fs []Finding, v *Violation) *Finding {
	for i := range fs {
		f := &fs[i]
		if f.Status != "finding" || f.Property != v.Property || f.Match.Kind != v.Kind {
			continue
		}
		if f.Match.Lane != "" && f.Match.Lane != v.Lane {
			continue
		}
		if f.Match.SigRegex == "" {
			continue // a finding must name the specific failing thing
		}
		re, err := regexp.Compile(f.Match.SigRegex)
		if err != nil {
			continue
		}
		if re.MatchString(v.Sig) {
			return f
		}
	}
	return nil
}

// Main is the entry point of a property binary (or subcommand).
func Main(spec *Spec, args []string) {
	fs := flag.NewFlagSet(spec.ID, flag.ExitOnError)
	tier := fs.String("tier", envOr("VERIF_TIER", "quick"), "quick|thorough")
	seed := fs.Int64("seed", envInt("VERIF_SEED", 1), "seed")
	child := fs.Int("child", -1, "child index (internal)")
	nchild := fs.Int("nchild", 1, "children (internal)")
	lane := fs.String("lane", "", "lane (internal / restrict)")
	out := fs.String("out", "", "child result file (internal)")
	only := fs.Int("only", -1, "run only this case index (replay)")
	replay := fs.String("replay", "", "replay file")
	raceBin := fs.String("racebin", "", "path of the -race build of this binary")
	asanBin := fs.String("asanbin", "", "path of the -asan build of this binary")
	_ = fs.Parse(args)
	if *tier != "quick" && *tier != "thorough" {
		fmt.Fprintln(os.Stderr, "bad tier")
		os.Exit(2)
	}
	if *replay != "" {
		os.Exit(doReplay(spec, *replay, *raceBin))
	}
	if *child >= 0 {
		runChild(spec, *lane, *tier, *seed, *child, *nchild, *out, *only)
		return
	}
	os.Exit(parent(spec, *tier, *seed, *lane, *raceBin, *asanBin))
}

func envOr(k, d string) string {
	if v := os.Getenv(k); v != "" {
		return v
	}
	return d
}
func envInt(k string, d int64) int64 {
	if v := os.Getenv(k); v != "" {
		if n, err := strconv.ParseInt(v, 10, 64); err == nil {
			return n
		}
	}
	return d
}

func findLane(spec *Spec, name string) *Lane {
	for i := range spec.Lanes {
		if spec.Lanes[i].Name == name {
			return &spec.Lanes[i]
		}
	}
	return nil
}

func runChild(spec *Spec, laneName, tier string, seed int64, idx, n int, out string, only int) {
	l := findLane(spec, laneName)
	if l == nil {
		fmt.Fprintln(os.Stderr, "no such lane", laneName)
		os.Exit(2)
	}
	ch := &Child{Spec: spec, Lane: l, Tier: tier, Seed: seed, Idx: idx, N: n,
		nt: map[uint64]struct{}{}, dist: map[string]map[uint64]struct{}{}}
	ch.res.Lane = laneName
	ch.res.Child = idx
	ch.res.Counters = map[string]int64{}
	if out != "" {
		j, err := os.OpenFile(out+".journal", os.O_CREATE|os.O_WRONLY|os.O_TRUNC, 0o644)
		if err == nil {
			ch.journal = j
		}
	}
	mem := l.MemLimitMB
	if mem == 0 {
		mem = 6144
	}
	debug.SetMemoryLimit(int64(mem) << 20)
	if l.Setup != nil {
		l.Setup(ch)
	}
	cases := l.Cases(tier)
	lastFlush := time.Now()
	for i := 0; i < cases; i++ {
		if only >= 0 && i != only {
			continue
		}
		c := &Case{Child: ch, Index: i}
		c.Rng = rand.New(rand.NewSource(mix(seed, strHash(spec.ID+"/"+laneName), int64(idx), int64(i))))
		ch.Journal("case %d", i)
		l.Run(c)
		ch.mu.Lock()
		ch.res.Evaluations++
		ch.mu.Unlock()
		ch.mu.Lock()
		nv := ch.unlisted
		ch.mu.Unlock()
		if nv >= 25 && only < 0 {
			ch.Count("stopped_early_after_25_violations", 1)
			break // enough witnesses; keeps a badly broken tree from running into the watchdog
		}
		if out != "" && time.Since(lastFlush) > 5*time.Second {
			ch.flush(false, out)
			lastFlush = time.Now()
		}
	}
	if out != "" {
		ch.flush(true, out)
	} else {
		ch.mu.Lock()
		b, _ := json.MarshalIndent(&ch.res, "", " ")
		ch.mu.Unlock()
		fmt.Println(string(b))
	}
}

type childRun struct {
	lane   *Lane
	idx, n int
	out    string
	res    *ChildResult
	err    error
	timed  bool
	stderr string
	races  []string
}

func parent(spec *Spec, tier string, seed int64, onlyLane, raceBin, asanBin string) int {
	start := time.Now()
	self, _ := os.Executable()
	work := filepath.Join(OutRoot, "build", "run", fmt.Sprintf("%s-%d", spec.ID, os.Getpid()))
	_ = os.MkdirAll(work, 0o755)
	defer os.RemoveAll(work)

	var runs []*childRun
	for i := range spec.Lanes {
		l := &spec.Lanes[i]
		if onlyLane != "" && l.Name != onlyLane {
			continue
		}
		n := l.Children(tier)
		for k := 0; k < n; k++ {
			runs = append(runs, &childRun{lane: l, idx: k, n: n, out: filepath.Join(work, fmt.Sprintf("%s-%d.json", l.Name, k))})
		}
	}
	par := runtime.NumCPU()
	if v := envInt("VERIF_PAR", 0); v > 0 {
		par = int(v)
	}
	sem := make(chan struct{}, par)
	var wg sync.WaitGroup
	for _, r := range runs {
		wg.Add(1)
		go func(r *childRun) {
			defer wg.Done()
			sem <- struct{}{}
			defer func() { <-sem }()
			bin := self
			if r.lane.Asan {
				if asanBin == "" {
					r.err = fmt.Errorf("asan lane needs -asanbin")
					return
				}
				bin = asanBin
			}
			if r.lane.Race {
				if raceBin == "" {
					r.err = fmt.Errorf("race lane needs -racebin")
					return
				}
				bin = raceBin
			}
			to := 600
			if r.lane.TimeoutS != nil {
				to = r.lane.TimeoutS(tier)
			}
			args := []string{"-s", "QUIT", "-k", "10", strconv.Itoa(to), bin, spec.ID, "-child", strconv.Itoa(r.idx), "-nchild", strconv.Itoa(r.n),
				"-lane", r.lane.Name, "-tier", tier, "-seed", strconv.FormatInt(seed, 10), "-out", r.out}
			cmd := exec.Command("timeout", args...)
			errf, _ := os.Create(r.out + ".stderr")
			cmd.Stdout = errf
			cmd.Stderr = errf
			cmd.Env = append(os.Environ(), "GOTRACEBACK=all")
			if r.lane.Asan {
				cmd.Env = append(cmd.Env, "ASAN_OPTIONS=detect_leaks=0:abort_on_error=1:halt_on_error=1")
			}
			if r.lane.Race {
				cmd.Env = append(cmd.Env, "GORACE=halt_on_error=0 log_path="+r.out+".race")
			}
			err := cmd.Run()
			errf.Close()
			if err != nil {
				r.err = err
				if ee, ok := err.(*exec.ExitError); ok && (ee.ExitCode() == 124 || ee.ExitCode() == 137) {
					r.timed = true
				}
			}
			if b, e := os.ReadFile(r.out + ".stderr"); e == nil {
				if len(b) > 6000 {
					b = append(b[:3000:3000], b[len(b)-3000:]...)
				}
				r.stderr = string(b)
			}
			if b, e := os.ReadFile(r.out); e == nil {
				var cr ChildResult
				if json.Unmarshal(b, &cr) == nil {
					r.res = &cr
				}
			}
			if r.lane.Race {
				ms, _ := filepath.Glob(r.out + ".race.*")
				for _, m := range ms {
					if b, e := os.ReadFile(m); e == nil {
						r.races = append(r.races, splitRaces(string(b))...)
					}
				}
			}
		}(r)
	}
	wg.Wait()

	// merge
	nt := map[uint64]struct{}{}
	dist := map[string]map[uint64]struct{}{}
	counters := map[string]int64{}
	var evals int64
	var samples []any
	var viols []Violation
	var inconc []string
	perLane := map[string]map[string]int64{}
	for _, r := range runs {
		pl := perLane[r.lane.Name]
		if pl == nil {
			pl = map[string]int64{}
			perLane[r.lane.Name] = pl
		}
		if r.res != nil {
			evals += r.res.Evaluations
			pl["evaluations"] += r.res.Evaluations
			pl["nontrivial_in_child_sum"] += int64(len(r.res.Nontrivial))
			for _, h := range r.res.Nontrivial {
				nt[h] = struct{}{}
			}
			for k, l := range r.res.Distinct {
				m := dist[k]
				if m == nil {
					m = map[uint64]struct{}{}
					dist[k] = m
				}
				for _, h := range l {
					m[h] = struct{}{}
				}
			}
			for k, v := range r.res.Counters {
				if strings.HasPrefix(k, "max_") {
					if counters[k] < v {
						counters[k] = v
					}
				} else {
					counters[k] += v
				}
			}
			if len(samples) < 8 {
				for _, s := range r.res.Samples {
					if len(samples) < 8 {
						samples = append(samples, map[string]any{"lane": r.lane.Name, "case": s})
					}
				}
			}
			viols = append(viols, r.res.Violations...)
			for _, s := range r.res.Inconclusive {
				inconc = append(inconc, r.lane.Name+": "+s)
			}
		}
		if r.res == nil || !r.res.Done {
			last := lastJournal(r.out + ".journal")
			if r.timed {
				inconc = append(inconc, fmt.Sprintf("%s child %d: watchdog fired (last journal: %s)", r.lane.Name, r.idx, last))
			} else if r.err != nil || r.res == nil {
				ci := -1
				if strings.HasPrefix(last, "case ") {
					f := strings.Fields(last)
					if len(f) > 1 {
						ci, _ = strconv.Atoi(f[1])
					}
				}
				sig := crashSig(r.stderr)
				v := Violation{Property: spec.ID, Lane: r.lane.Name, Kind: "crash", Sig: sig,
					Detail: fmt.Sprintf("child process died (%v) while executing [%s]; stderr:\n%s", r.err, last, r.stderr),
					Seed:   seed, Child: r.idx, CaseIdx: ci, Tier: tier}
				if r.lane.CrashNotViolation {
					inconc = append(inconc, fmt.Sprintf("%s child %d died: %s", r.lane.Name, r.idx, sig))
				} else {
					viols = append(viols, v)
				}
			}
		}
		seenRace := map[string]bool{}
		for _, rc := range r.races {
			sig := raceSig(rc)
			counters["race_reports"]++
			if seenRace[sig] {
				continue
			}
			seenRace[sig] = true
			viols = append(viols, Violation{Property: spec.ID, Lane: r.lane.Name, Kind: "data-race", Sig: sig, Detail: rc,
				Seed: seed, Child: r.idx, CaseIdx: -1, Tier: tier})
		}
	}

	findings := loadFindings()
	known := map[string]int{}
	knownSigs := map[string]map[string]int{} // finding id -> lane/kind/signature of the witnesses it absorbed
	var unlisted []Violation
	for i := range viols {
		if f := matchFinding(findings, &viols[i]); f != nil {
			known[f.ID+"\x00"+f.What]++
			if knownSigs[f.ID] == nil {
				knownSigs[f.ID] = map[string]int{}
			}
			knownSigs[f.ID][viols[i].Lane+"/"+viols[i].Kind+"/"+viols[i].Sig]++
		} else {
			unlisted = append(unlisted, viols[i])
		}
	}

	cov := map[string]any{
		"evaluations":         evals,
		"distinct_nontrivial": len(nt),
		"rule":                spec.Rule,
		"samples":             samples,
		"per_lane":            perLane,
		"counters":            counters,
		"known_finding_hits":  len(viols) - len(unlisted),
		"known_finding_sigs":  knownSigs,
		"inconclusive":        inconc,
	}
	for k, m := range dist {
		cov["distinct_"+k] = len(m)
	}
	if samples == nil {
		cov["samples"] = []any{}
	}
	ev := map[string]any{
		"property_id": spec.ID, "tier": tier, "seed": seed, "level": spec.Level,
		"coverage": cov, "assumptions": spec.Assumptions,
		"wall_s": time.Since(start).Seconds(), "violations": len(unlisted),
	}
	_ = os.MkdirAll(filepath.Join(OutRoot, "evidence"), 0o755)
	if onlyLane == "" {
		b, _ := json.MarshalIndent(ev, "", " ")
		_ = os.WriteFile(filepath.Join(OutRoot, "evidence", spec.ID+".json"), append(b, '\n'), 0o644)
	}

	keys := make([]string, 0, len(known))
	for k := range known {
		keys = append(keys, k)
	}
	sort.Strings(keys)
	for _, k := range keys {
		p := strings.SplitN(k, "\x00", 2)
		fmt.Printf("KNOWN-FINDING: property=%s %s [%s] (%d observations this run)\n", spec.ID, p[1], p[0], known[k])
	}
	fmt.Printf("%s tier=%s seed=%d evaluations=%d distinct_nontrivial=%d violations=%d inconclusive=%d wall=%.1fs\n",
		spec.ID, tier, seed, evals, len(nt), len(unlisted), len(inconc), time.Since(start).Seconds())
	ck := make([]string, 0, len(counters))
	for k := range counters {
		ck = append(ck, k)
	}
	sort.Strings(ck)
	for _, k := range ck {
		fmt.Printf("  %-44s %d\n", k, counters[k])
	}
	dk := make([]string, 0, len(dist))
	for k := range dist {
		dk = append(dk, k)
	}
	sort.Strings(dk)
	for _, k := range dk {
		fmt.Printf("  distinct %-35s %d\n", k, len(dist[k]))
	}
	if len(unlisted) > 0 {
		rd := filepath.Join(OutRoot, "replays", spec.ID)
		_ = os.MkdirAll(rd, 0o755)
		seen := map[string]int{}
		for i := range unlisted {
			v := &unlisted[i]
			key := v.Kind + "|" + v.Sig
			seen[key]++
			if seen[key] > 3 {
				continue
			}
			p := filepath.Join(rd, fmt.Sprintf("%s-%s-s%d-c%d-i%d.json", v.Lane, sanitize(v.Kind), v.Seed, v.Child, v.CaseIdx))
			b, _ := json.MarshalIndent(v, "", " ")
			_ = os.WriteFile(p, b, 0o644)
			fmt.Printf("VIOLATION property=%s replay=%s\n", spec.ID, p)
			d := printable(v.Detail)
			if len(d) > 1500 {
				d = d[:1500] + "..."
			}
			fmt.Printf("  kind=%s sig=%s\n  %s\n", v.Kind, v.Sig, strings.ReplaceAll(d, "\n", "\n  "))
		}
		return 1
	}
	if len(inconc) > 0 {
		for i, s := range inconc {
			if i < 10 {
				fmt.Println("INCONCLUSIVE:", s)
			}
		}
		return 3
	}
	if len(nt) < spec.MinNontrivial || len(nt) < 2 {
		fmt.Printf("INCONCLUSIVE: only %d distinct non-trivial cases observed (need %d)\n", len(nt), spec.MinNontrivial)
		return 3
	}
	return 0
}

// printable keeps stdout a text stream: witnesses may quote raw value bytes.
func printable(s string) string {
	return strings.Map(func(r rune) rune {
		if r == '\n' || r == '\t' || (r >= 0x20 && r != 0x7f && r != 0xfffd) {
			return r
		}
		return '?'
	}, strings.ToValidUTF8(s, "?"))
}

func sanitize(s string) string {
	return regexp.MustCompile(`[^A-Za-z0-9_.-]+`).ReplaceAllString(s, "_")
}

func lastJournal(p string) string {
	f, err := os.Open(p)
	if err != nil {
		return ""
	}
	defer f.Close()
	var last string
	sc := bufio.NewScanner(f)
	sc.Buffer(make([]byte, 1<<20), 64<<20)
	for sc.Scan() {
		if t := sc.Text(); t != "" {
			last = t
		}
	}
	if len(last) > 2000 {
		last = last[:2000] + "..."
	}
	return last
}

var reFrame = regexp.MustCompile(`(?m)^(github\.com/bloxapp/ssv[^\s(]*)\(`)

func crashSig(stderr string) string {
	first := ""
	for _, l := range strings.Split(stderr, "\n") {
		if strings.HasPrefix(l, "panic:") || strings.HasPrefix(l, "fatal error:") || strings.Contains(l, "ERROR: AddressSanitizer") {
			first = l
			break
		}
	}
	fr := reFrame.FindStringSubmatch(stderr)
	f := ""
	if fr != nil {
		f = fr[1]
	}
	if len(first) > 160 {
		first = first[:160]
	}
	return first + " @ " + f
}

func splitRaces(s string) []string {
	var out []string
	parts := strings.Split(s, "WARNING: DATA RACE")
	for _, p := range parts[1:] {
		if i := strings.Index(p, "=================="); i >= 0 {
			p = p[:i]
		}
		out = append(out, "WARNING: DATA RACE"+p)
	}
	return out
}

var reFn = regexp.MustCompile(`(?m)^\s{2}([A-Za-z0-9_./*()\-]+)\(\)$`)

// raceSig: the two innermost functions of the two stacks (line numbers stripped).
func raceSig(r string) string {
	blocks := strings.Split(r, "\n\n")
	var tops []string
	for _, b := range blocks {
		if strings.Contains(b, "Goroutine") && strings.Contains(b, "created at") {
			continue
		}
		m := reFn.FindStringSubmatch(b)
		if m != nil && len(tops) < 2 {
			tops = append(tops, m[1])
		}
	}
	sort.Strings(tops)
	return strings.Join(tops, " <-> ")
}

func doReplay(spec *Spec, path, raceBin string) int {
	b, err := os.ReadFile(path)
	if err != nil {
		fmt.Fprintln(os.Stderr, err)
		return 2
	}
	var v Violation
	if err := json.Unmarshal(b, &v); err != nil {
		fmt.Fprintln(os.Stderr, err)
		return 2
	}
	l := findLane(spec, v.Lane)
	if l == nil {
		fmt.Fprintln(os.Stderr, "lane not found:", v.Lane)
		return 2
	}
	self, _ := os.Executable()
	bin := self
	if l.Race && raceBin != "" {
		bin = raceBin
	}
	n := l.Children(v.Tier)
	args := []string{spec.ID, "-child", strconv.Itoa(v.Child), "-nchild", strconv.Itoa(n), "-lane", v.Lane, "-tier", v.Tier,
		"-seed", strconv.FormatInt(v.Seed, 10), "-only", strconv.Itoa(v.CaseIdx)}
	cmd := exec.Command(bin, args...)
	var outb bytes.Buffer
	cmd.Stdout = &outb
	cmd.Stderr = os.Stderr
	err = cmd.Run()
	fmt.Println(outb.String())
	if err != nil {
		fmt.Printf("VIOLATION property=%s replay=%s\n  (child died on replay: %v)\n", spec.ID, path, err)
		return 1
	}
	var cr ChildResult
	if json.Unmarshal(outb.Bytes(), &cr) == nil && len(cr.Violations) > 0 {
		fmt.Printf("VIOLATION property=%s replay=%s\n", spec.ID, path)
		return 1
	}
	fmt.Println("replay: no violation reproduced")
	return 0
}

// Const returns a func(tier) returning q for quick and t for thorough.
func Const(q, t int) func(string) int {
	return func(tier string) int {
		if tier == "thorough" {
			return t
		}
		return q
	}
}
