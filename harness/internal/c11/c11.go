// Package c11: the registry state is a deterministic function of the contract event log (property C11).
//
// Workload: generated sequences of registry events (valid and carrying one malformation) encoded as
// real ABI logs and fed block by block to the REAL event handler / node storage / event parser /
// eth-key-manager / RSA decrypter on an in-memory badger.
// Oracle: an independent reference model of the registration rules (regsim.Model). After every
// block: node-storage getters == model; raw database records == getters (in-memory view == database);
// a fresh NewNodeStorage on the same database (restart) == getters; key-manager accounts == the
// model's own shares. At the end: the same log under two other batchings (all in one block; one event per
// block or another random split) ends in the same state.
package c11

import (
	"errors"
	"fmt"
	"math/rand"
	"regexp"
	"sort"
	"strings"

	ethcommon "github.com/ethereum/go-ethereum/common"
	"go.uber.org/zap"

	"github.com/bloxapp/ssv/eth/eventhandler"
	operatordatastore "github.com/bloxapp/ssv/operator/datastore"
	operatorstorage "github.com/bloxapp/ssv/operator/storage"
	registrystorage "github.com/bloxapp/ssv/registry/storage"

	"verifharness/internal/evid"
	"verifharness/internal/regsim"
)

func Spec() *evid.Spec {
	return &evid.Spec{
		ID:    "C11",
		Level: "exploration",
		Rule: "seed-determined sequences of 5-60 registry events over 2-3 owners, 4-13 operators (the node's own operator registered or not, in or out of each committee), 1-6 validators with real BLS keys " +
			"threshold-split per committee and a real RSA-2048 ciphertext for the node; each event valid or carrying one malformation (bad/garbage signature, replayed or skipped nonce, signature for another owner, " +
			"wrong owner on re-add/remove/exit/cluster events, duplicate / unknown operator, committee size not 3f+1, >13, 0, share blob one byte short/long, own key undecryptable / mismatching / not a key, " +
			"undecodable or short validator key, duplicate operator id, own key under a second id, unknown topic, unhandled ABI event, truncated data, missing topic); random block batching with empty blocks and gaps. " +
			"A case is non-trivial if the model accepted at least one validator add and the sequence held at least one malformed event; distinct = hash of (event label, model outcome) sequence and batching",
		Assumptions: []string{
			"ground truth about opaque event parts (who signed which owner:nonce, what the node's ciphertext decrypts to) comes from the generator, not from re-running the handler's crypto",
			"OperatorRemoved leaves the persisted operator record in place (committees of registered validators still refer to it); the model treats it as a no-op",
			"a ValidatorAdded for an already registered key never replaces the stored share (same owner: ignored, other owner: rejected); it still counts as an add attempt for the nonce",
			"an event the ABI cannot parse is no add attempt (its owner's nonce does not move)",
			"the liquidation flag is compared with the model only for the node's own validators (the statement's scope); for other shares only the node's views are compared with each other",
			"the node's operator key cannot be registered under a second operator id (ErrAlreadyRegistered)",
		},
		MinNontrivial: 100,
		Lanes: []evid.Lane{
			{Name: "model", Children: evid.Const(16, 16), Cases: evid.Const(94, 1875), TimeoutS: evid.Const(600, 3400), Setup: setup, Run: run},
		},
	}
}

func setup(ch *evid.Child) {
	env, err := regsim.NewEnv()
	if err != nil {
		panic(err)
	}
	ch.Data = env
}

type evRec struct {
	I       int    `json:"i"`
	Block   uint64 `json:"block"`
	Event   string `json:"event"`
	Outcome string `json:"model"`
}

// runLog processes blocks on a fresh node; after(blockIdx, node) is called after each block.
func runLog(env *regsim.Env, nums []uint64, blocks [][]*regsim.Event, withMeta bool, after func(bi int, n *regsim.Node) bool) (*regsim.Node, func(), error) {
	db := env.NewMemDB()
	closeFn := func() { _ = db.Close() }
	n, err := env.NewNode(db, regsim.NodeOpts{})
	if err != nil {
		closeFn()
		return nil, nil, err
	}
	for bi := range blocks {
		logs, err := env.EncodeBlock(blocks[bi], nums[bi])
		if err != nil {
			closeFn()
			return nil, nil, err
		}
		if err := n.ProcessBlock(nums[bi], logs); err != nil {
			closeFn()
			return nil, nil, fmt.Errorf("block %d: %w", nums[bi], err)
		}
		if after != nil && !after(bi, n) {
			break
		}
		if withMeta {
			if _, err := n.SetMetadata(); err != nil {
				closeFn()
				return nil, nil, err
			}
		}
	}
	return n, closeFn, nil
}

func run(c *evid.Case) {
	env := c.Child.Data.(*regsim.Env)
	if err := env.Disk.Recycle(2000); err != nil {
		c.Inconclusive("badger: " + err.Error())
		return
	}
	rng := c.Rng
	cfg := regsim.GenCfg{MinEvents: 5, MaxEvents: 60, MalRate: 0.35, OwnBias: 0.6, DupOperatorID: rng.Intn(100) == 0, MaxVals: 6, MaxOps: 13}
	w, evs, err := env.Generate(rng, cfg)
	if err != nil {
		c.Inconclusive("generator: " + err.Error())
		return
	}
	nums, blocks := regsim.Split(rng, evs, "random", uint64(1+rng.Intn(1000)))

	model := regsim.NewModel(env.OwnPubB64)
	var hist []evRec
	shape := []any{}
	acceptedAdd, malformed := false, false
	violated := false
	owners := append([]ethcommon.Address(nil), w.Owners...)
	witness := func() any {
		return map[string]any{"events": hist, "own_operator_world_index": w.OwnIdx, "blocks": nums}
	}
	viol := func(kind, sig, detail string) {
		if violated {
			return
		}
		violated = true
		c.Violation(kind, sig, detail, witness())
	}
	evIdx := 0
	c.Journal("case %d: %d events in %d blocks", c.Index, len(evs), len(blocks))

	after := func(bi int, n *regsim.Node) bool {
		// model step
		exp := map[string]int{} // expected upper bound of stop/exit task calls per validator
		for _, e := range blocks[bi] {
			out := model.Apply(e)
			o := "applied"
			if !out.Applied {
				o = "rejected:" + out.Why
			}
			hist = append(hist, evRec{I: evIdx, Block: nums[bi], Event: e.String(), Outcome: o})
			evIdx++
			shape = append(shape, e.Label(), o)
			c.Count("events_"+string(e.Kind), 1)
			if e.Mal != "" {
				c.Count("mal_"+e.Mal, 1)
				malformed = true
			} else {
				c.Count("events_wellformed", 1)
			}
			if e.Kind == regsim.ValidatorAdded && out.Applied {
				acceptedAdd = true
				c.Count("adds_accepted", 1)
				if out.Start {
					c.Count("adds_accepted_own", 1)
				}
			}
			if out.Stop {
				exp["stop:"+fmt.Sprintf("%x", e.ValidatorPK)]++
			}
			if out.Exit {
				exp["exit:"+fmt.Sprintf("%x", e.ValidatorPK)]++
			}
		}
		model.EndBlock(nums[bi])
		c.Count("blocks", 1)
		shape = append(shape, "|")

		// tasks (one-directional): a stop / exit reaches the task executor only for an accepted removal / exit of an own validator
		for _, tc := range n.Tasks.Take() {
			c.Count("tasks_"+tc.Kind, 1)
			if tc.Kind == "stop" || tc.Kind == "exit" {
				k := tc.Kind + ":" + tc.PK
				if exp[k] == 0 {
					viol("unauthorised-task", tc.Kind, fmt.Sprintf("block %d: task %s for validator %s although the rules accept no such %s in this block (wrong owner / unknown validator?)", nums[bi], tc.Kind, tc.PK[:12], tc.Kind))
				}
				exp[k]--
			}
		}

		// 1. getters == model
		got, err := n.ViewGetters(owners)
		if err != nil {
			viol("getter-error", "ViewGetters", fmt.Sprintf("block %d: %v", nums[bi], err))
			return false
		}
		if d := regsim.Diff(model.S.Lines(regsim.LineOpts{}), got.Lines(regsim.LineOpts{})); len(d) > 0 {
			kind, sig := classify(d, blocks[bi])
			viol(kind, sig, fmt.Sprintf("after block %d (events %d..%d) the node's registry differs from the registration rules (- model, + node):\n%s", nums[bi], evIdx-len(blocks[bi]), evIdx-1, strings.Join(d, "\n")))
			return false
		}
		// 2. raw database == getters (in-memory share view == database), all fields
		full := regsim.LineOpts{Extra: true, NonOwnLiquid: true}
		raw, err := env.ViewRaw(n.DB)
		if err != nil {
			viol("raw-decode-error", "ViewRaw", fmt.Sprintf("block %d: %v", nums[bi], err))
			return false
		}
		if d := regsim.Diff(got.Lines(full), raw.Lines(full)); len(d) > 0 {
			viol("memory-vs-database", firstWord(d), fmt.Sprintf("after block %d the node storage's view differs from the database records (- getters, + raw records):\n%s", nums[bi], strings.Join(d, "\n")))
			return false
		}
		// 3. restart: a fresh node storage on the same database
		ns2, err := operatorstorage.NewNodeStorage(zap.NewNop(), n.DB)
		if err != nil {
			viol("restart-error", "NewNodeStorage", err.Error())
			return false
		}
		re, err := (&regsim.Node{Env: env, DB: n.DB, Storage: ns2, ODS: restartODS(env, ns2)}).ViewGetters(owners)
		if err != nil {
			viol("restart-error", "ViewGetters", err.Error())
			return false
		}
		if d := regsim.Diff(got.Lines(full), re.Lines(full)); len(d) > 0 {
			viol("restart-differs", firstWord(d), fmt.Sprintf("after block %d a restarted node storage differs (- running, + restarted):\n%s", nums[bi], strings.Join(d, "\n")))
			return false
		}
		// 4. key manager holds exactly the own shares' keys
		ks, err := env.ViewKeys(n.DB, n.KM)
		if err != nil {
			viol("key-manager-error", "ViewKeys", err.Error())
			return false
		}
		want := model.ExpectedAccounts()
		if strings.Join(want, ",") != strings.Join(ks.Accounts, ",") || ks.RawAccounts != len(want) {
			viol("key-shares-differ", "accounts-vs-own-shares", fmt.Sprintf("after block %d the key manager holds %d account records %v, the rules prescribe the own shares %v", nums[bi], ks.RawAccounts, shorts(ks.Accounts), shorts(want)))
			return false
		}
		for _, a := range want {
			if ks.HighestAtt[a] == "" || ks.HighestProp[a] == "" {
				viol("key-shares-differ", "missing-slashing-protection", fmt.Sprintf("after block %d own share %s has no slashing-protection record", nums[bi], a[:12]))
				return false
			}
		}
		c.Distinct("states", evid.Hash(strings.Join(got.Lines(regsim.LineOpts{SkipLastBlock: true}), "\n")))
		// the harness plays the metadata updater: the model learns which shares carry metadata now
		if touched, err := n.SetMetadata(); err == nil {
			for _, pk := range touched {
				model.Meta[pk] = true
			}
		}
		return true
	}

	n, closeFn, err := runLog(env, nums, blocks, false, after)
	if err != nil {
		if errors.Is(err, eventhandler.ErrInferiorBlock) {
			viol("inferior-block", "fresh-block-refused", err.Error())
		} else {
			viol("processing-error", errSig(err), "the handler returned an error for a block of registry events (the node would stop): "+err.Error())
		}
		return
	}
	var final []string
	if !violated {
		g, err := n.ViewGetters(owners)
		if err == nil {
			final = g.Lines(regsim.LineOpts{Extra: true, NonOwnLiquid: true, SkipLastBlock: true})
		}
	}
	closeFn()

	// 5. batching independence
	if !violated && final != nil {
		modes := []string{"all-in-one", "one-per-block"}
		if rng.Intn(2) == 0 {
			modes[1] = "random"
		}
		for _, mode := range modes {
			r2 := rand.New(rand.NewSource(rng.Int63()))
			nu, bl := regsim.Split(r2, evs, mode, 7)
			n2, close2, err := runLog(env, nu, bl, true, nil)
			if err != nil {
				viol("processing-error", "batching-"+mode+"/"+errSig(err), "batching "+mode+": "+err.Error())
				break
			}
			if _, err := n2.SetMetadata(); err != nil {
				close2()
				break
			}
			g2, err := n2.ViewGetters(owners)
			close2()
			if err != nil {
				viol("getter-error", "batching-"+mode, err.Error())
				break
			}
			c.Count("batching_runs", 1)
			if !g2.HasLastBlock || g2.LastBlock != nu[len(nu)-1] {
				viol("last-block", "batching-"+mode, fmt.Sprintf("batching %s: last processed block is %v/%d, last delivered block %d", mode, g2.HasLastBlock, g2.LastBlock, nu[len(nu)-1]))
				break
			}
			if d := regsim.Diff(final, g2.Lines(regsim.LineOpts{Extra: true, NonOwnLiquid: true, SkipLastBlock: true})); len(d) > 0 {
				kind, sig := classifyBatch(d, evs, mode)
				viol(kind, sig, fmt.Sprintf("the same event log ends in a different registry state when batched %q (- reference batching %v, + %s):\n%s", mode, blockSizes(blocks), mode, strings.Join(d, "\n")))
				break
			}
		}
	}

	c.Count("sequences", 1)
	if acceptedAdd && malformed && !violated {
		h := evid.Hash(shape...)
		c.Nontrivial(h)
		c.Distinct("sequence_shapes", h)
	}
	if c.Idx == 0 && c.Index < 2 {
		c.Sample(witness())
	}
}

func restartODS(env *regsim.Env, ns operatorstorage.Storage) operatordatastore.OperatorDataStore {
	od, found, err := ns.GetOperatorDataByPubKey(nil, env.OwnPubB64)
	if err != nil || !found {
		od = &registrystorage.OperatorData{PublicKey: env.OwnPubB64}
	}
	return operatordatastore.New(od)
}

func blockSizes(b [][]*regsim.Event) []int {
	var o []int
	for _, x := range b {
		o = append(o, len(x))
	}
	return o
}

func shorts(l []string) []string {
	var o []string
	for _, s := range l {
		if len(s) > 12 {
			s = s[:12]
		}
		o = append(o, s)
	}
	return o
}

func firstWord(d []string) string {
	if len(d) == 0 {
		return ""
	}
	f := strings.Fields(d[0])
	if len(f) > 1 {
		return f[1]
	}
	return f[0]
}

var reBlockNo = regexp.MustCompile(`block \d+: `)

func errSig(err error) string {
	s := reBlockNo.ReplaceAllString(err.Error(), "")
	if i := strings.LastIndex(s, ": "); i >= 0 && i < len(s)-2 {
		s = s[:i]
	}
	if len(s) > 80 {
		s = s[:80]
	}
	return s
}

// classify names the kind of model mismatch by the first differing record class and the events of the block.
func classify(d []string, evs []*regsim.Event) (kind, sig string) {
	classes := map[string]bool{}
	for _, l := range d {
		f := strings.Fields(l)
		if len(f) > 1 {
			classes[f[1]] = true
		}
	}
	var cl []string
	for k := range classes {
		cl = append(cl, k)
	}
	sort.Strings(cl)
	var labels []string
	seen := map[string]bool{}
	for _, e := range evs {
		if !seen[e.Label()] {
			seen[e.Label()] = true
			labels = append(labels, e.Label())
		}
	}
	sort.Strings(labels)
	if len(labels) > 4 {
		labels = labels[:4]
	}
	// a registered operator id re-used by a second OperatorAdded in the SAME block replaces the first
	// registration (in separate blocks the second one is ignored): reported under the batching signature
	if seen["OperatorAdded!dup-operator-id"] && !classes["share"] && !classes["recipient"] && !classes["lastblock"] {
		return "batching-dependent-state", "duplicate-OperatorAdded-id-in-one-block-overwrites"
	}
	return "model-mismatch", strings.Join(cl, "+") + "/" + strings.Join(labels, ",")
}

// classifyBatch: a batching-dependent result; the signature names duplicate OperatorAdded ids when the log has them.
func classifyBatch(d []string, evs []*regsim.Event, mode string) (string, string) {
	onlyOps := true
	for _, l := range d {
		f := strings.Fields(l)
		if len(f) > 1 && f[1] != "operator" && f[1] != "own-operator-id" {
			onlyOps = false
		}
	}
	dup := false
	for _, e := range evs {
		if e.Mal == "dup-operator-id" {
			dup = true
		}
	}
	if dup && onlyOps {
		return "batching-dependent-state", "duplicate-OperatorAdded-id-in-one-block-overwrites"
	}
	if dup {
		return "batching-dependent-state", "duplicate-OperatorAdded-id-in-one-block-overwrites+downstream"
	}
	return "batching-dependent-state", mode + "/" + firstWord(d)
}
