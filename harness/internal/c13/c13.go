// Package c13: every finalized-enough block's registry logs are delivered to the event handler exactly once and in
// order, whatever the batching and whatever fails between the execution client and its node (property C13).
//
// System under test: the real executionclient.ExecutionClient (New, StreamLogs, FetchHistoricalLogs, Healthy) talking
// JSON-RPC over a loopback websocket to a fake execution node (node.go) whose chain is generated per case and whose head
// moves only when the harness says so. The monitor reads the BlockLogs channel(s) like the event handler does and an
// independent oracle (oracle.go) decides the statement over the sequence read.
package c13

import "verifharness/internal/evid"

func Spec() *evid.Spec {
	return &evid.Spec{
		ID:    "C13",
		Level: "fault_enumeration",
		Rule: "per case the seed draws batch size {1,2,5,5000}, follow distance {0,1,8}, start block, a chain with 0..5 registry logs per block (several per tx, ~12% flagged removed) and a script of head announcements " +
			"interleaved with failure groups placed relative to them: subscription drop (all connections closed server-side while subscribed), eth_subscribe error, eth_getLogs error on the first or a middle batch " +
			"(optionally with heads announced while the call is in flight), connection dropped with eth_getLogs in flight, blocks produced while the client is away, heads announced while a fetch is in flight, bursts; " +
			"groups of <= 2 consecutive failures (must-deliver) or one group of 3 (logger.Fatal = process exit is then the expected outcome; the monitor emulates the restart from last processed block + 1). " +
			"Lanes: stream (StreamLogs), hist (FetchHistoricalLogs alone, an errored attempt = node restart), sync (FetchHistoricalLogs to the end, then StreamLogs(last+1) like eth/eventsyncer). " +
			"Oracle over the entries read from the channel(s): strictly increasing block numbers; every block in [from, head - follow distance] with non-removed logs exactly once with exactly those logs in (tx, log index) order; " +
			"no logs of other/empty blocks; empty progress entries allowed. Completion is logical (an entry at or above the final head - distance was read). " +
			"Non-trivial = at least one failure verified on the node side (a fresh subscription or an in-flight call was on the dropped connection / the error answer was sent) and delivery completed " +
			"(hist lane also: >= 2 batches); distinct = (lane, config, node-side event shape, entries); fault_placements = distinct (batch, distance, node-side event shape)",
		Assumptions: []string{
			"the node answers eth_getLogs in canonical (block, log index) order and announces heads in increasing order; it may repeat the current head (as nodes do on same-height reorgs) - the harness uses that to keep a reconnected client moving",
			"logger.Fatal is a process exit, not a loss: the monitor emulates the restart (StreamLogs from last processed block + 1) and applies the oracle to the concatenation; a Fatal is never reported as a violation",
			"the client's own Info log line \"fetched registry events\" is used as the signal that an eth_getLogs answer has reached the client (pacing of the next fault only, never the verdict)",
			"no chain reorganisations: a log flagged removed is simply never to be delivered",
			"a server-side drop never lands between the client's socket write of a request and go-ethereum's internal acknowledgement of that send (the harness does an eth_syncing round trip through ExecutionClient.Healthy before every drop): in that window go-ethereum v1.13.5's rpc.Client loses the request without failing it and FilterLogs/SubscribeNewHead, called without a deadline, never return - a stall that no finite observation can tell from slowness, so it is kept out of the scenarios",
		},
		MinNontrivial: 200,
		Lanes: []evid.Lane{
			{Name: "stream", Children: evid.Const(16, 16), Cases: evid.Const(70, 1800), TimeoutS: evid.Const(240, 3000), Run: runStream},
			{Name: "sync", Children: evid.Const(16, 16), Cases: evid.Const(20, 450), TimeoutS: evid.Const(240, 3000), Run: runSync},
			{Name: "hist", Children: evid.Const(16, 16), Cases: evid.Const(15, 300), TimeoutS: evid.Const(240, 3000), Run: runHist},
		},
	}
}
