package c13

// Fake execution node: JSON-RPC over a loopback websocket, written on go-ethereum's rpc package.
// Its chain is generated per case, the head moves only when the harness says so, and the harness can
// drop connections server-side, fail eth_subscribe, fail eth_getLogs and hold an eth_getLogs call in flight.
// Everything the node sees is recorded (events + a merged timeline) and is what faults are verified against.

import (
	"context"
	"errors"
	"fmt"
	"math/big"
	"net"
	"net/http"
	"os"
	"sync"
	"time"

	ethcommon "github.com/ethereum/go-ethereum/common"
	"github.com/ethereum/go-ethereum/common/hexutil"
	ethtypes "github.com/ethereum/go-ethereum/core/types"
	"github.com/ethereum/go-ethereum/rpc"
)

// ---- connection tracking listener --------------------------------------------------------------

type trackListener struct {
	net.Listener
	mu       sync.Mutex
	conns    map[net.Conn]struct{}
	accepted int
}

func (l *trackListener) Accept() (net.Conn, error) {
	c, err := l.Listener.Accept()
	if err != nil {
		return nil, err
	}
	l.mu.Lock()
	l.conns[c] = struct{}{}
	l.accepted++
	l.mu.Unlock()
	return c, nil
}

// closeAll closes every connection accepted so far (hijacked websocket connections included).
func (l *trackListener) closeAll() int {
	l.mu.Lock()
	cs := make([]net.Conn, 0, len(l.conns))
	for c := range l.conns {
		cs = append(cs, c)
	}
	l.conns = map[net.Conn]struct{}{}
	l.mu.Unlock()
	for _, c := range cs {
		_ = c.Close()
	}
	return len(cs)
}

func (l *trackListener) acceptedCount() int {
	l.mu.Lock()
	defer l.mu.Unlock()
	return l.accepted
}

// ---- node ------------------------------------------------------------------------------------------

const (
	evSubOK  = "subscribe-ok"
	evSubErr = "subscribe-error"
	evGLOK   = "getlogs-ok"
	evGLErr  = "getlogs-error"
	evDrop   = "drop"
)

// srvEvent is one thing the node observed, in the order it observed it.
type srvEvent struct {
	Kind     string `json:"kind"`
	From     uint64 `json:"from,omitempty"`
	To       uint64 `json:"to,omitempty"`
	Subs     int    `json:"subs,omitempty"`     // drop: fresh live subscriptions that were hit
	Inflight int    `json:"inflight,omitempty"` // drop: eth_getLogs calls in flight that were hit
	Pos      string `json:"pos,omitempty"`      // getlogs-error: planned position (first-batch / middle-batch)
	HeadHeld bool   `json:"head_while_held,omitempty"`
}

// isFailure: the event makes the client's streamLogsToChan return with an error.
func (e srvEvent) isFailure() bool {
	switch e.Kind {
	case evSubErr, evGLErr:
		return true
	case evDrop:
		return e.Subs > 0 || e.Inflight > 0
	}
	return false
}

func (e srvEvent) failureName() string {
	switch e.Kind {
	case evSubErr:
		return "subscribe-error"
	case evGLErr:
		if e.Inflight > 0 {
			return "fetch-conn-drop"
		}
		return "fetch-error"
	case evDrop:
		if e.Inflight > 0 {
			return "fetch-conn-drop"
		}
		return "subscription-drop"
	}
	return e.Kind
}

type liveSub struct {
	notifier *rpc.Notifier
	id       rpc.ID
	seq      int  // number of events recorded when it was created
	notified bool // a head has been sent to it
}

type holdState struct {
	release  chan bool // true = answer with an error
	from, to uint64
}

type fakeNode struct {
	contract ethcommon.Address
	blocks   map[uint64][]ethtypes.Log // every log of the watched contract incl. removed ones, ascending log index

	mu       sync.Mutex
	changed  chan struct{}
	head     uint64
	subs     map[rpc.ID]*liveSub
	lastFail int // len(ev) right after the last failure event (subscriptions created before it are stale)

	// armed faults
	failSubscribe int
	glSkip        int
	glFail        int
	glPos         string
	holdArmed     bool
	holdSkip      int
	held          *holdState
	heldDropped   bool
	headWhileHeld bool

	// observations
	ev           []srvEvent
	timeline     []string
	servedAny    bool
	maxServedTo  uint64
	clientAny    bool   // the client logged "fetched registry events" (it has received an eth_getLogs answer)
	clientMaxTo  uint64 // highest to_block of those
	dropSeq      int
	inflight     int
	nSubOK       int
	nSubErr      int
	nGLOK        int
	nGLErr       int
	nDropHit     int
	nDropMiss    int
	nHeadHeld    int
	nHeadsSent   int
	nHeadsNoSub  int
	fatal        bool
	fatalMsg     string
	entries      []entry // what the reader took from the client's channel(s)
	streamClosed bool

	t0     time.Time
	ln     *trackListener
	srv    *http.Server
	rpcsrv *rpc.Server
	url    string
}

func newFakeNode(contract ethcommon.Address, blocks map[uint64][]ethtypes.Log, head uint64) (*fakeNode, error) {
	n := &fakeNode{contract: contract, blocks: blocks, head: head, subs: map[rpc.ID]*liveSub{}, changed: make(chan struct{}), t0: time.Now()}
	l, err := net.Listen("tcp", "127.0.0.1:0")
	if err != nil {
		return nil, err
	}
	n.ln = &trackListener{Listener: l, conns: map[net.Conn]struct{}{}}
	n.rpcsrv = rpc.NewServer()
	if err := n.rpcsrv.RegisterName("eth", &ethSvc{n: n}); err != nil {
		return nil, err
	}
	n.srv = &http.Server{Handler: n.rpcsrv.WebsocketHandler([]string{"*"})}
	go func() { _ = n.srv.Serve(n.ln) }()
	n.url = "ws://" + l.Addr().String()
	return n, nil
}

func (n *fakeNode) shutdown() {
	_ = n.srv.Close()
	_ = n.ln.Close()
	n.ln.closeAll()
	n.rpcsrv.Stop()
}

// bump wakes every waiter; callers hold n.mu.
func (n *fakeNode) bump() {
	close(n.changed)
	n.changed = make(chan struct{})
}

func (n *fakeNode) logf(format string, a ...any) {
	if len(n.timeline) < 4000 {
		n.timeline = append(n.timeline, fmt.Sprintf("+%.1fms ", float64(time.Since(n.t0).Microseconds())/1000)+fmt.Sprintf(format, a...))
	}
}

func (n *fakeNode) record(e srvEvent) {
	n.ev = append(n.ev, e)
	if e.isFailure() {
		n.lastFail = len(n.ev)
	}
}

// freshSubNotified: a head has been sent to a subscription created after the last failure (callers hold n.mu).
func (n *fakeNode) freshSubNotified() bool {
	for _, s := range n.subs {
		if s.seq >= n.lastFail && s.notified {
			return true
		}
	}
	return false
}

// freshSubs: live subscriptions created after the last failure (callers hold n.mu).
func (n *fakeNode) freshSubs() int {
	k := 0
	for _, s := range n.subs {
		if s.seq >= n.lastFail {
			k++
		}
	}
	return k
}

func header(num uint64) *ethtypes.Header {
	return &ethtypes.Header{Number: new(big.Int).SetUint64(num), Difficulty: big.NewInt(0), Time: 1_700_000_000 + num*12, GasLimit: 30_000_000}
}

// notify sends head numbers lo..hi (every one, or only hi) to every live subscription.
func (n *fakeNode) notify(nums []uint64, fresh bool) {
	n.mu.Lock()
	subs := make([]*liveSub, 0, len(n.subs))
	for _, s := range n.subs {
		subs = append(subs, s)
		s.notified = true
	}
	if len(subs) == 0 {
		n.nHeadsNoSub++
	}
	if fresh && n.held != nil && len(subs) > 0 {
		if !n.headWhileHeld {
			n.nHeadHeld++
		}
		n.headWhileHeld = true
	}
	n.nHeadsSent += len(nums) * len(subs)
	if debugNotify && len(subs) > 0 {
		ids := ""
		for _, s := range subs {
			ids += " " + string(s.id)
		}
		n.logf("node: notify heads %v fresh=%v to subs%s", nums, fresh, ids)
	}
	n.mu.Unlock()
	for _, num := range nums {
		h := header(num)
		for _, s := range subs {
			_ = s.notifier.Notify(s.id, h)
		}
	}
}

// advance moves the head by delta blocks and announces it (each intermediate head, or only the new one).
func (n *fakeNode) advance(delta int, each bool) uint64 {
	n.mu.Lock()
	old := n.head
	n.head += uint64(delta)
	h := n.head
	n.logf("node: head %d -> %d (subs=%d)", old, h, len(n.subs))
	n.bump()
	n.mu.Unlock()
	var nums []uint64
	if each {
		for x := old + 1; x <= h; x++ {
			nums = append(nums, x)
		}
	} else {
		nums = []uint64{h}
	}
	n.notify(nums, true)
	return h
}

func (n *fakeNode) renotify() {
	n.mu.Lock()
	h := n.head
	n.mu.Unlock()
	n.notify([]uint64{h}, false)
}

// drop closes every connection server-side. It reports whether it hit a fresh subscription or a call in flight.
func (n *fakeNode) drop() bool {
	n.mu.Lock()
	e := srvEvent{Kind: evDrop, Subs: n.freshSubs(), Inflight: n.inflight}
	if n.held != nil {
		n.heldDropped = true
	}
	n.subs = map[rpc.ID]*liveSub{}
	n.dropSeq++
	n.record(e)
	hit := e.isFailure()
	if hit {
		n.nDropHit++
	} else {
		n.nDropMiss++
	}
	n.logf("node: DROP all connections (fresh subscriptions=%d, getLogs in flight=%d)", e.Subs, e.Inflight)
	n.bump()
	n.mu.Unlock()
	n.ln.closeAll()
	return hit
}

func (n *fakeNode) armSubscribeFail(k int) {
	n.mu.Lock()
	n.failSubscribe += k
	n.mu.Unlock()
}

func (n *fakeNode) armGetLogsFail(skip, count int, pos string) {
	n.mu.Lock()
	n.glSkip, n.glFail, n.glPos = skip, count, pos
	n.mu.Unlock()
}

func (n *fakeNode) armHold(skip int, pos string) {
	// a previously held call that was already released must have left its handler before the next hold is armed
	n.wait(func() bool { return n.held == nil }, waitQuiet, 20*time.Second)
	n.mu.Lock()
	n.holdArmed, n.holdSkip, n.glPos = true, skip, pos
	n.headWhileHeld = false
	n.heldDropped = false
	n.mu.Unlock()
}

// releaseHold lets the held eth_getLogs call answer (with an error if fail).
func (n *fakeNode) releaseHold(fail bool) {
	n.mu.Lock()
	h := n.held
	n.mu.Unlock()
	if h != nil {
		select {
		case h.release <- fail:
		default:
		}
	}
}

func (n *fakeNode) disarm() {
	n.mu.Lock()
	n.failSubscribe, n.glFail, n.glSkip, n.holdArmed = 0, 0, 0, false
	n.mu.Unlock()
	n.releaseHold(false)
}

type waitMode int

const (
	waitQuiet    waitMode = iota // only wait
	waitRenotify                 // re-announce the current head every tick (a node keeps talking; the client may have missed it)
	waitEscalate                 // re-announce, and produce one more block every 8 fruitless ticks
	waitTail                     // produce one more block every tick
)

const tick = 1500 * time.Microsecond

var debugNotify = os.Getenv("C13_DUMP_DIR") != "" || os.Getenv("C13_DEBUG") != ""

// wait blocks until cond (evaluated under n.mu) holds, the stream terminated, or the watchdog fires (false).
func (n *fakeNode) wait(cond func() bool, mode waitMode, watchdog time.Duration) bool {
	// The watchdog measures inactivity: it is re-armed whenever the client did something the node or the reader can see
	// (a slow machine is not a stuck client); an absolute cap bounds the whole wait.
	deadline := time.NewTimer(watchdog)
	defer deadline.Stop()
	hardStop := time.Now().Add(6 * watchdog)
	ticks := 0
	activity := -1
	for {
		n.mu.Lock()
		ok := cond() || n.fatal || n.streamClosed
		ch := n.changed
		if a := n.nGLOK + n.nGLErr + n.nSubOK + n.nSubErr + n.inflight + len(n.entries); a != activity {
			activity = a
			if mode == waitEscalate {
				ticks = 0 // a client that is still making requests is not stuck: do not make its target run away from it
			}
			if time.Now().Before(hardStop) {
				if !deadline.Stop() {
					select {
					case <-deadline.C:
					default:
					}
				}
				deadline.Reset(watchdog)
			}
		}
		n.mu.Unlock()
		if ok {
			return true
		}
		var tk <-chan time.Time
		var t *time.Timer
		if mode != waitQuiet {
			t = time.NewTimer(tick)
			tk = t.C
		}
		select {
		case <-ch:
			if t != nil {
				t.Stop()
			}
		case <-tk:
			// the condition may have become true while this goroutine was not running: never announce anything after it
			n.mu.Lock()
			ok := cond() || n.fatal || n.streamClosed
			n.mu.Unlock()
			if ok {
				return true
			}
			ticks++
			switch {
			case mode == waitTail && ticks > 3:
				n.advance(1, true)
			case mode == waitEscalate && ticks%8 == 0:
				n.advance(1, true)
			default:
				n.renotify()
			}
		case <-deadline.C:
			return false
		}
	}
}

// noteClientFetched: the client reported (through its logger) that it received the answer for from..to.
func (n *fakeNode) noteClientFetched(from, to uint64) {
	n.mu.Lock()
	if !n.clientAny || to > n.clientMaxTo {
		n.clientMaxTo = to
	}
	n.clientAny = true
	n.bump()
	n.mu.Unlock()
}

func (n *fakeNode) noteFatal(msg string) {
	n.mu.Lock()
	n.fatal = true
	n.fatalMsg = msg
	n.logf("client: logger.Fatal(%q)", msg)
	n.bump()
	n.mu.Unlock()
}

func (n *fakeNode) recv(e entry) {
	n.mu.Lock()
	n.entries = append(n.entries, e)
	n.logf("client -> handler [%s]: entry block %d (%d logs)", e.Phase, e.Block, len(e.Logs))
	n.bump()
	n.mu.Unlock()
}

func (n *fakeNode) terminated() bool {
	n.mu.Lock()
	defer n.mu.Unlock()
	return n.fatal || n.streamClosed
}

// ---- the eth namespace -----------------------------------------------------------------------------

type ethSvc struct{ n *fakeNode }

func (s *ethSvc) BlockNumber() hexutil.Uint64 {
	s.n.mu.Lock()
	defer s.n.mu.Unlock()
	s.n.logf("node: eth_blockNumber -> %d", s.n.head)
	return hexutil.Uint64(s.n.head)
}

func (s *ethSvc) ChainId() *hexutil.Big { return (*hexutil.Big)(big.NewInt(1337)) }

// Syncing answers false (not syncing), which is what ExecutionClient.Healthy expects of a ready node.
func (s *ethSvc) Syncing() (interface{}, error) { return false, nil }

type filterArg struct {
	FromBlock string      `json:"fromBlock"`
	ToBlock   string      `json:"toBlock"`
	Address   interface{} `json:"address"`
	Topics    interface{} `json:"topics"`
}

func (s *ethSvc) GetLogs(ctx context.Context, q filterArg) ([]ethtypes.Log, error) {
	n := s.n
	from, err1 := hexutil.DecodeUint64(q.FromBlock)
	to, err2 := hexutil.DecodeUint64(q.ToBlock)
	if err1 != nil || err2 != nil {
		return nil, fmt.Errorf("fake node: unsupported block range %q..%q", q.FromBlock, q.ToBlock)
	}
	n.mu.Lock()
	n.inflight++
	dropSeq := n.dropSeq
	fail := false
	pos := ""
	if n.glFail > 0 {
		if n.glSkip > 0 {
			n.glSkip--
		} else {
			n.glFail--
			fail = true
			pos = n.glPos
		}
	}
	var h *holdState
	if n.holdArmed && !fail {
		if n.holdSkip > 0 {
			n.holdSkip--
		} else {
			n.holdArmed = false
			h = &holdState{release: make(chan bool, 1), from: from, to: to}
			n.held = h
			pos = n.glPos
			n.logf("node: eth_getLogs %d..%d HELD in flight", from, to)
		}
	}
	n.bump()
	n.mu.Unlock()

	dropped := false
	if h != nil {
		select {
		case fail = <-h.release:
		case <-ctx.Done():
			dropped = true
			fail = true
		}
	}

	n.mu.Lock()
	defer n.mu.Unlock()
	n.inflight--
	headHeld := false
	if n.dropSeq != dropSeq {
		// every connection was closed while this call was in flight (the drop event counted it)
		dropped = true
		fail = true
	}
	if h != nil {
		if n.held == h {
			n.held = nil
		}
		headHeld = n.headWhileHeld
		if n.heldDropped {
			dropped = true
			fail = true
		}
	}
	defer n.bump()
	if fail {
		e := srvEvent{Kind: evGLErr, From: from, To: to, Pos: pos, HeadHeld: headHeld}
		if dropped {
			// the failure was already recorded by the drop event (connection closed with this call in flight)
			n.logf("node: eth_getLogs %d..%d lost with its connection", from, to)
			return nil, errors.New("fake node: connection dropped")
		}
		n.nGLErr++
		n.record(e)
		n.logf("node: eth_getLogs %d..%d -> ERROR (injected, %s)", from, to, pos)
		return nil, errors.New("fake node: injected eth_getLogs failure")
	}
	out := make([]ethtypes.Log, 0, 8)
	for b := from; b <= to && b-from < 100000; b++ {
		out = append(out, n.blocks[b]...)
	}
	n.nGLOK++
	n.record(srvEvent{Kind: evGLOK, From: from, To: to, HeadHeld: headHeld})
	if !n.servedAny || to > n.maxServedTo {
		n.maxServedTo = to
	}
	n.servedAny = true
	n.logf("node: eth_getLogs %d..%d -> ok, %d logs", from, to, len(out))
	return out, nil
}

// NewHeads is eth_subscribe("newHeads").
func (s *ethSvc) NewHeads(ctx context.Context) (*rpc.Subscription, error) {
	n := s.n
	notifier, ok := rpc.NotifierFromContext(ctx)
	if !ok {
		return nil, rpc.ErrNotificationsUnsupported
	}
	n.mu.Lock()
	if n.failSubscribe > 0 {
		n.failSubscribe--
		n.nSubErr++
		n.record(srvEvent{Kind: evSubErr})
		n.logf("node: eth_subscribe newHeads -> ERROR (injected)")
		n.bump()
		n.mu.Unlock()
		return nil, errors.New("fake node: injected eth_subscribe failure")
	}
	sub := notifier.CreateSubscription()
	n.record(srvEvent{Kind: evSubOK})
	n.subs[sub.ID] = &liveSub{notifier: notifier, id: sub.ID, seq: len(n.ev)}
	n.nSubOK++
	if debugNotify {
		n.logf("node: eth_subscribe newHeads -> ok (id %s)", sub.ID)
	} else {
		n.logf("node: eth_subscribe newHeads -> ok")
	}
	n.bump()
	n.mu.Unlock()
	go func() {
		<-sub.Err()
		n.mu.Lock()
		delete(n.subs, sub.ID)
		n.mu.Unlock()
	}()
	return sub, nil
}
