package c13

import (
	"crypto/sha256"
	"encoding/binary"
	"fmt"
	"math/rand"

	ethcommon "github.com/ethereum/go-ethereum/common"
	ethtypes "github.com/ethereum/go-ethereum/core/types"
)

var contractAddr = ethcommon.HexToAddress("0xC13C13C13C13c13c13C13C13c13c13c13C13c13c1")

func h32(parts ...uint64) (h ethcommon.Hash) {
	hs := sha256.New()
	for _, p := range parts {
		var b [8]byte
		binary.BigEndian.PutUint64(b[:], p)
		hs.Write(b[:])
	}
	copy(h[:], hs.Sum(nil))
	return
}

// genChain: blocks 1..n, each with 0..5 logs of the watched contract, several per transaction, log indexes
// ascending with gaps (other contracts' logs), some flagged removed. Blocks above n are empty.
func genChain(rng *rand.Rand, n int) map[uint64][]ethtypes.Log {
	blocks := map[uint64][]ethtypes.Log{}
	for b := uint64(1); b <= uint64(n); b++ {
		if rng.Intn(100) < 42 {
			continue
		}
		k := 1 + rng.Intn(5)
		tx := uint(rng.Intn(4))
		idx := uint(rng.Intn(5))
		for i := 0; i < k; i++ {
			if i > 0 {
				if rng.Intn(100) >= 55 {
					tx += 1 + uint(rng.Intn(3))
				}
				idx += 1
				if rng.Intn(3) == 0 {
					idx += uint(rng.Intn(3))
				}
			}
			data := make([]byte, 16)
			binary.BigEndian.PutUint64(data[:8], b)
			binary.BigEndian.PutUint64(data[8:], uint64(idx))
			blocks[b] = append(blocks[b], ethtypes.Log{
				Address:     contractAddr,
				Topics:      []ethcommon.Hash{h32(0xE0, uint64(rng.Intn(6)))},
				Data:        data,
				BlockNumber: b,
				TxHash:      h32(0x7A, b, uint64(tx)),
				TxIndex:     tx,
				BlockHash:   h32(0xB0, b),
				Index:       idx,
				Removed:     rng.Intn(100) < 12,
			})
		}
	}
	return blocks
}

// expectedOf: what the property demands for block b: its non-removed logs in (tx index, log index) order.
func expectedOf(blocks map[uint64][]ethtypes.Log, b uint64) []ethtypes.Log {
	var out []ethtypes.Log
	for _, l := range blocks[b] {
		if !l.Removed {
			out = append(out, l)
		}
	}
	// generated ascending by (tx index, log index) already; keep an explicit, independent ordering anyway
	for i := 1; i < len(out); i++ {
		for j := i; j > 0 && (out[j].TxIndex < out[j-1].TxIndex || (out[j].TxIndex == out[j-1].TxIndex && out[j].Index < out[j-1].Index)); j-- {
			out[j], out[j-1] = out[j-1], out[j]
		}
	}
	return out
}

func chainSummary(blocks map[uint64][]ethtypes.Log, upTo uint64) []string {
	var out []string
	for b := uint64(0); b <= upTo; b++ {
		ls := blocks[b]
		if len(ls) == 0 {
			continue
		}
		s := fmt.Sprintf("block %d:", b)
		for _, l := range ls {
			s += fmt.Sprintf(" tx%d/log%d", l.TxIndex, l.Index)
			if l.Removed {
				s += "(removed)"
			}
		}
		out = append(out, s)
	}
	return out
}

// ---- scenario plans -------------------------------------------------------------------------------

// Failure atoms (each makes streamLogsToChan return with an error exactly once when it hits):
//
//	SD subscription drop: every connection is closed server-side while the client is subscribed and idle
//	SE eth_subscribe answers with an error
//	FE eth_getLogs answers with an error (Skip successful calls first: 0 = first batch, >0 = a middle batch);
//	   with HeadInFlight>0 the call is held, new heads are announced while it is in flight, then it fails
//	FD every connection is closed while an eth_getLogs call is in flight
type atom struct {
	Kind         string `json:"kind"`
	Skip         int    `json:"skip,omitempty"`
	Delta        int    `json:"delta,omitempty"`
	Each         bool   `json:"each,omitempty"`
	AdvanceAfter int    `json:"advance_after,omitempty"`
	HeadInFlight int    `json:"head_in_flight,omitempty"`
}

// op kinds: "head" (advance by Delta, wait until fetched), "hif" (head announced while a fetch is in flight, no failure),
// "burst" (several advances without waiting), "group" (consecutive failure atoms without progress in between).
type op struct {
	Kind    string `json:"op"`
	Delta   int    `json:"delta,omitempty"`
	Delta2  int    `json:"delta2,omitempty"`
	Each    bool   `json:"each,omitempty"`
	Atoms   []atom `json:"atoms,omitempty"`
	AtStart bool   `json:"at_start,omitempty"`
}

type plan struct {
	Lane  string `json:"lane"`
	Batch uint64 `json:"batch"`
	Dist  uint64 `json:"follow_distance"`
	From  uint64 `json:"from"`
	H0    uint64 `json:"initial_head"`
	Class string `json:"class"` // must-deliver (groups of <= 2 consecutive failures) | may-terminate (one group of 3)
	Ops   []op   `json:"ops"`
	// sync lane: a head advance while the historical fetch is in flight (hold the HistHold-th call), -1 = none
	HistHold    int `json:"hist_hold"`
	HistAdvance int `json:"hist_advance,omitempty"`
}

var batchSizes = []uint64{1, 2, 5, 5000}
var followDistances = []uint64{0, 1, 8}

func pick(rng *rand.Rand, weights ...int) int {
	t := 0
	for _, w := range weights {
		t += w
	}
	r := rng.Intn(t)
	for i, w := range weights {
		if r < w {
			return i
		}
		r -= w
	}
	return len(weights) - 1
}

func genFetchAtom(rng *rand.Rand, kind string, batch uint64) atom {
	a := atom{Kind: kind, Each: rng.Intn(2) == 0}
	if batch <= 5 && rng.Intn(10) < 4 {
		a.Skip = 1 + rng.Intn(2)
	}
	a.Delta = a.Skip*int(batch) + 1 + rng.Intn(4)
	if kind == "FE" && rng.Intn(5) == 0 {
		a.HeadInFlight = 1 + rng.Intn(3)
	}
	return a
}

func genGroup(rng *rand.Rand, size int, atStart bool, batch uint64) op {
	g := op{Kind: "group", AtStart: atStart}
	for i := 0; i < size; i++ {
		var k int
		switch {
		case i == 0 && atStart:
			k = []int{1, 2, 3}[pick(rng, 3, 3, 1)] // SE, FE, FD
		case i == 0:
			k = []int{0, 2, 3}[pick(rng, 4, 3, 2)] // SD, FE, FD
		default:
			k = pick(rng, 3, 3, 4, 1) // SD, SE, FE, FD
		}
		switch k {
		case 0:
			a := atom{Kind: "SD"}
			if rng.Intn(3) == 0 {
				a.AdvanceAfter = 1 + rng.Intn(3)
				a.Each = rng.Intn(2) == 0
			}
			g.Atoms = append(g.Atoms, a)
		case 1:
			g.Atoms = append(g.Atoms, atom{Kind: "SE"})
		case 2:
			g.Atoms = append(g.Atoms, genFetchAtom(rng, "FE", batch))
		default:
			g.Atoms = append(g.Atoms, genFetchAtom(rng, "FD", batch))
		}
	}
	return g
}

func genProgress(rng *rand.Rand, k int) []op {
	var ops []op
	for i := 0; i < k; i++ {
		switch pick(rng, 7, 2, 1) {
		case 0:
			ops = append(ops, op{Kind: "head", Delta: 1 + rng.Intn(6), Each: rng.Intn(2) == 0})
		case 1:
			ops = append(ops, op{Kind: "hif", Delta: 1 + rng.Intn(6), Delta2: 1 + rng.Intn(4), Each: rng.Intn(2) == 0})
		default:
			// burst: two advances without waiting, then wait
			ops = append(ops, op{Kind: "burst", Delta: 1 + rng.Intn(4), Delta2: 1 + rng.Intn(4), Each: rng.Intn(2) == 0})
		}
	}
	return ops
}

func genPlan(rng *rand.Rand, lane string) plan {
	p := plan{Lane: lane, HistHold: -1}
	p.Batch = batchSizes[rng.Intn(len(batchSizes))]
	p.Dist = followDistances[rng.Intn(len(followDistances))]
	switch r := rng.Intn(10); {
	case r < 4:
		p.From = 1
	case r == 4:
		p.From = 0
	default:
		p.From = 2 + uint64(rng.Intn(11))
	}
	p.H0 = p.From + p.Dist + uint64(rng.Intn(8))
	if lane == "sync" {
		p.H0 = p.From + p.Dist + uint64(rng.Intn(24))
		if rng.Intn(3) == 0 {
			p.HistHold = rng.Intn(3)
			p.HistAdvance = 1 + rng.Intn(5)
		}
	}
	if rng.Intn(10) == 0 {
		// nothing to fetch yet when the stream (or the historical sync) starts
		d := uint64(1 + rng.Intn(3))
		if p.From+p.Dist > d {
			p.H0 = p.From + p.Dist - d
		}
	}
	if p.H0 < 1 {
		p.H0 = 1
	}
	p.Class = "must-deliver"
	if rng.Intn(100) < 15 {
		p.Class = "may-terminate"
	}
	ngroups := 1 + rng.Intn(3)
	if rng.Intn(20) == 0 && p.Class == "must-deliver" {
		ngroups = 0
	}
	startGroup := rng.Intn(4) == 0
	for g := 0; g < ngroups; g++ {
		atStart := g == 0 && startGroup
		if !atStart {
			p.Ops = append(p.Ops, genProgress(rng, 2+rng.Intn(2))...)
		}
		size := 1 + rng.Intn(2)
		if p.Class == "may-terminate" && g == ngroups-1 {
			size = 3
		}
		p.Ops = append(p.Ops, genGroup(rng, size, atStart, p.Batch))
	}
	p.Ops = append(p.Ops, genProgress(rng, 2+rng.Intn(2))...)
	if rng.Intn(3) == 0 {
		// a consumer that lags: it stops reading while new heads arrive, the connection drops and more heads arrive, then reads
		// again (StreamLogs hands entries over an unbuffered channel, so the client waits for its consumer)
		at := rng.Intn(len(p.Ops) + 1)
		if at == 0 && len(p.Ops) > 0 && p.Ops[0].Kind == "group" && p.Ops[0].AtStart {
			at = 1 // the failures of a start group are armed before StreamLogs is called: nothing may reconnect before it
		}
		lag := op{Kind: "lag", Delta: 1 + rng.Intn(5), Delta2: 1 + rng.Intn(5), Each: rng.Intn(2) == 0}
		ops := append([]op{}, p.Ops[:at]...)
		ops = append(ops, lag)
		p.Ops = append(ops, p.Ops[at:]...)
	}
	return p
}

// planBlocks: an upper bound of the head the plan reaches (the chain is generated well beyond it).
func planBlocks(p plan) int {
	n := int(p.H0) + p.HistAdvance
	for _, o := range p.Ops {
		n += o.Delta + o.Delta2
		for _, a := range o.Atoms {
			n += a.Delta + a.AdvanceAfter + a.HeadInFlight
		}
	}
	return n
}
