package c13

import (
	"fmt"
	"sort"
	"strings"

	ethtypes "github.com/ethereum/go-ethereum/core/types"
)

// entry is one BlockLogs value read from a channel returned by the execution client, in reading order.
type entry struct {
	Block uint64         `json:"block"`
	Logs  []ethtypes.Log `json:"-"`
	NLogs int            `json:"logs"`
	Phase string         `json:"phase"` // hist / stream / stream-after-restart-N / hist-restart-N
}

type verdict struct {
	Kind, Sig, Detail string
	At                int // index of the offending entry (len(entries) = at the end)
}

func logKey(l ethtypes.Log) string {
	return fmt.Sprintf("%d/tx%d/log%d/%x", l.BlockNumber, l.TxIndex, l.Index, l.Data)
}

func keys(ls []ethtypes.Log) []string {
	out := make([]string, len(ls))
	for i, l := range ls {
		out[i] = logKey(l)
	}
	return out
}

// chainLabel names the failures the node observed between the last successful eth_getLogs before request k and request k.
func chainLabel(ev []srvEvent, k int) string {
	lastOK := -1
	for i := k - 1; i >= 0; i-- {
		if ev[i].Kind == evGLOK {
			lastOK = i
			break
		}
	}
	var chain []string
	for i := lastOK + 1; i < k; i++ {
		if ev[i].isFailure() {
			chain = append(chain, ev[i].failureName())
		}
	}
	suffix := ""
	if lastOK < 0 {
		suffix = "-at-stream-start"
	}
	if len(chain) == 0 {
		return "without-fault" + suffix
	}
	// latest failure first (it decides where the client resumes), the earlier ones of the same chain in order of occurrence
	lbl := "after-" + chain[len(chain)-1]
	if len(chain) > 1 {
		lbl += "-following-" + strings.Join(chain[:len(chain)-1], "+")
	}
	return lbl + suffix
}

func isGL(e srvEvent) bool { return e.Kind == evGLOK || e.Kind == evGLErr }

func coveredBefore(ev []srvEvent, k int, b uint64) bool {
	for i := 0; i < k; i++ {
		if ev[i].Kind == evGLOK && ev[i].From <= b && b <= ev[i].To {
			return true
		}
	}
	return false
}

// skipSig: where did the client's requests jump over block b?
func skipSig(ev []srvEvent, b uint64) string {
	for k := range ev {
		if isGL(ev[k]) && ev[k].From > b {
			if coveredBefore(ev, k, b) {
				break
			}
			return chainLabel(ev, k)
		}
	}
	if coveredBefore(ev, len(ev), b) {
		return "inside-successfully-fetched-range"
	}
	return "never-requested"
}

// rewindSig: which request went back to (or below) a position that had already been fetched, and covers block b?
func rewindSig(ev []srvEvent, b uint64) string {
	for k := range ev {
		if !isGL(ev[k]) || ev[k].From > b || b > ev[k].To {
			continue
		}
		for j := 0; j < k; j++ {
			if ev[j].Kind == evGLOK && ev[j].To >= ev[k].From {
				return chainLabel(ev, k)
			}
		}
	}
	return "within-single-fetch"
}

func beforeStartSig(ev []srvEvent, from uint64) string {
	for k := range ev {
		if isGL(ev[k]) && ev[k].From < from {
			return chainLabel(ev, k)
		}
	}
	return "not-requested-from-node"
}

// judge decides the property over the sequence of entries. Only what the statement says:
//   - block numbers strictly increasing;
//   - every block in [from, required] with non-removed logs has exactly one entry with exactly those logs in order
//     (a skipped block below an already delivered one can never be delivered later without breaking the order, so it is
//     reported as soon as a higher entry is seen; blocks up to `required` are demanded only if `completed`);
//   - no entry carries logs that are not the non-removed logs of its own block.
//
// Entries without logs ("progress" entries, documented in fetchLogsInBatches) are allowed.
func judge(entries []entry, from, required uint64, completed bool, expected func(uint64) []ethtypes.Log, ev []srvEvent) *verdict {
	havePrev := false
	var prev uint64
	low := from // next block that still has to be accounted for
	for i, e := range entries {
		if havePrev && e.Block <= prev {
			what := "lower than"
			if e.Block == prev {
				what = "equal to"
			}
			return &verdict{"duplicate-or-backwards", rewindSig(ev, e.Block),
				fmt.Sprintf("entry #%d [%s] has block %d, %s the previous entry's block %d (entry carries %d logs; block %d had already been passed)", i, e.Phase, e.Block, what, prev, len(e.Logs), e.Block), i}
		}
		if e.Block < from {
			return &verdict{"before-requested-start", beforeStartSig(ev, from),
				fmt.Sprintf("entry #%d [%s] is for block %d (%d logs) but logs were requested from block %d", i, e.Phase, e.Block, len(e.Logs), from), i}
		}
		// blocks jumped over
		hi := e.Block // exclusive
		if len(e.Logs) == 0 {
			hi = e.Block + 1 // an entry without logs passes its own block too
		}
		for b := low; b < hi; b++ {
			if exp := expected(b); len(exp) > 0 {
				return &verdict{"block-skipped", skipSig(ev, b),
					fmt.Sprintf("block %d has %d non-removed logs %v but entry #%d [%s] is already at block %d (previous entry: %s); it was never delivered", b, len(exp), keys(exp), i, e.Phase, e.Block, prevStr(havePrev, prev)), i}
			}
		}
		if len(e.Logs) > 0 {
			exp := expected(e.Block)
			for _, l := range e.Logs {
				if l.Removed {
					return &verdict{"wrong-logs", "removed-log-delivered", fmt.Sprintf("entry #%d for block %d carries removed log %s", i, e.Block, logKey(l)), i}
				}
				if l.BlockNumber != e.Block {
					return &verdict{"wrong-logs", "log-of-another-block-in-entry", fmt.Sprintf("entry #%d for block %d carries log %s of block %d", i, e.Block, logKey(l), l.BlockNumber), i}
				}
			}
			got, want := keys(e.Logs), keys(exp)
			if strings.Join(got, ",") != strings.Join(want, ",") {
				if len(want) == 0 {
					return &verdict{"wrong-logs", "logs-for-block-without-logs", fmt.Sprintf("entry #%d for block %d carries %v but the block has no non-removed registry logs", i, e.Block, got), i}
				}
				gs, ws := append([]string{}, got...), append([]string{}, want...)
				sort.Strings(gs)
				sort.Strings(ws)
				if strings.Join(gs, ",") == strings.Join(ws, ",") {
					return &verdict{"wrong-order", "logs-within-block-not-in-tx-log-index-order", fmt.Sprintf("entry #%d for block %d carries %v, the block's order is %v", i, e.Block, got, want), i}
				}
				sub := true
				ws2 := map[string]bool{}
				for _, w := range want {
					ws2[w] = true
				}
				for _, g := range got {
					if !ws2[g] {
						sub = false
					}
				}
				if sub && len(got) < len(want) {
					return &verdict{"wrong-logs", "incomplete-block-entry", fmt.Sprintf("entry #%d for block %d carries only %v of the block's %v", i, e.Block, got, want), i}
				}
				return &verdict{"wrong-logs", "unexpected-logs-in-entry", fmt.Sprintf("entry #%d for block %d carries %v, the block's non-removed logs are %v", i, e.Block, got, want), i}
			}
		}
		havePrev, prev = true, e.Block
		if e.Block+1 > low {
			low = e.Block + 1
		}
	}
	if completed {
		for b := low; b <= required; b++ {
			if exp := expected(b); len(exp) > 0 {
				return &verdict{"block-skipped", skipSig(ev, b) + "/never-delivered",
					fmt.Sprintf("block %d <= head - follow distance (%d) has %d non-removed logs %v but the stream ended/advanced without an entry for it (last entry: %s)", b, required, len(exp), keys(exp), prevStr(havePrev, prev)), len(entries)}
			}
		}
	}
	return nil
}

func prevStr(have bool, prev uint64) string {
	if !have {
		return "none"
	}
	return fmt.Sprintf("block %d", prev)
}

func blocksOf(es []entry) []string {
	out := make([]string, len(es))
	for i, e := range es {
		if e.NLogs == 0 {
			out[i] = fmt.Sprintf("%d(empty)", e.Block)
		} else {
			out[i] = fmt.Sprintf("%d", e.Block)
		}
	}
	return out
}

// shape: the node-side fault placement, without block numbers and with runs of successful fetches folded.
func shape(ev []srvEvent) string {
	var sb strings.Builder
	last := byte(0)
	for _, e := range ev {
		var ch string
		switch e.Kind {
		case evSubOK:
			ch = "s"
		case evSubErr:
			ch = "S"
		case evGLOK:
			ch = "g"
			if e.HeadHeld {
				ch = "gh"
			}
			if last == 'g' && !e.HeadHeld {
				continue
			}
		case evGLErr:
			ch = "E"
			if e.Pos == "middle-batch" {
				ch = "M"
			}
			if e.HeadHeld {
				ch += "h"
			}
		case evDrop:
			switch {
			case e.Inflight > 0:
				ch = "F"
			case e.Subs > 0:
				ch = "D"
			default:
				ch = "d"
			}
		}
		sb.WriteString(ch)
		last = ch[0]
	}
	return sb.String()
}

// maxConsecutiveFailures: longest run of failures without a successful eth_getLogs in between, as the node saw it.
func maxConsecutiveFailures(ev []srvEvent) int {
	m, cur := 0, 0
	for _, e := range ev {
		if e.Kind == evGLOK {
			cur = 0
		}
		if e.isFailure() {
			cur++
			if cur > m {
				m = cur
			}
		}
	}
	return m
}
