package c13

import (
	"context"
	"errors"
	"fmt"
	"time"

	"github.com/bloxapp/ssv/eth/executionclient"

	"verifharness/internal/evid"
)

// histFault: what happens to one FetchHistoricalLogs attempt.
type histFault struct {
	Kind string `json:"kind"` // none | FE (eth_getLogs error) | FD (connection dropped with eth_getLogs in flight)
	Skip int    `json:"skip"` // successful eth_getLogs calls before it
}

// runHist: FetchHistoricalLogs alone. An attempt that ends with an error on the error channel is what makes the node
// exit (SyncHistory error -> Fatal in cli/operator/node.go); the next start resumes at last processed block + 1. The
// oracle is applied to the concatenation of the attempts.
func runHist(c *evid.Case) {
	rng := c.Rng
	p := plan{Lane: "hist", HistHold: -1, Class: "must-deliver"}
	p.Batch = batchSizes[rng.Intn(len(batchSizes))]
	p.Dist = followDistances[rng.Intn(len(followDistances))]
	p.From = uint64(rng.Intn(12))
	p.H0 = p.From + p.Dist + uint64(rng.Intn(40))
	if rng.Intn(12) == 0 && p.From+p.Dist > 2 {
		p.H0 = p.From + p.Dist - 1 - uint64(rng.Intn(2)) // nothing to sync
	}
	if p.H0 < 1 {
		p.H0 = 1
	}
	nAttempts := 1 + rng.Intn(3)
	faults := make([]histFault, nAttempts)
	for i := range faults {
		f := histFault{Kind: "none"}
		if i < nAttempts-1 || rng.Intn(4) != 0 {
			f.Kind = []string{"FE", "FD"}[pick(rng, 3, 1)]
			if p.Batch <= 5 {
				f.Skip = rng.Intn(5)
			}
		}
		faults[i] = f
	}
	faults = append(faults, histFault{Kind: "none"}) // the last start is left alone
	blocks := genChain(rng, int(p.H0)+8)
	n, err := newFakeNode(contractAddr, blocks, p.H0)
	if err != nil {
		c.Inconclusive("cannot start the fake node: " + err.Error())
		return
	}
	r := &runner{c: c, p: p, n: n, blocks: blocks}
	c.Journal("case %d hist batch=%d dist=%d from=%d head=%d faults=%v", c.Index, p.Batch, p.Dist, p.From, p.H0, faults)
	defer n.shutdown()

	var T uint64
	rangeNonEmpty := p.H0 >= p.Dist && p.H0-p.Dist >= p.From
	if rangeNonEmpty {
		T = p.H0 - p.Dist
	}
	cur := p.From
	completed := false
	attempts := 0
	clients := 0
	for _, f := range faults {
		attempts++
		ctx, cancel := context.WithCancel(context.Background())
		ec, err := r.newClient(ctx)
		if err != nil {
			cancel()
			c.Inconclusive("cannot connect to the fake node: " + err.Error())
			return
		}
		clients++
		n.disarm()
		switch f.Kind {
		case "FE":
			n.armGetLogsFail(f.Skip, 1, pos(f.Skip))
		case "FD":
			n.armHold(f.Skip, pos(f.Skip))
		}
		phase := fmt.Sprintf("hist-attempt-%d", attempts)
		n.mu.Lock()
		n.logf("harness: FetchHistoricalLogs(from=%d) at head %d [%s]", cur, n.head, phase)
		n.mu.Unlock()
		logs, errs, err := ec.FetchHistoricalLogs(ctx, cur)
		if errors.Is(err, executionclient.ErrNothingToSync) {
			c.Count("hist_nothing_to_sync", 1)
			n.mu.Lock()
			n.logf("client: ErrNothingToSync")
			n.mu.Unlock()
			completed = true // the client claims there is nothing in [cur, head - distance]; the oracle checks the claim
			_ = ec.Close()
			cancel()
			break
		}
		if err != nil {
			cancel()
			c.Inconclusive("FetchHistoricalLogs: " + err.Error())
			return
		}
		done := make(chan struct{})
		finished := false
		go func() {
			for bl := range logs {
				n.recv(entry{Block: bl.BlockNumber, Logs: bl.Logs, NLogs: len(bl.Logs), Phase: phase})
			}
			n.mu.Lock()
			finished = true
			n.bump()
			n.mu.Unlock()
			close(done)
		}()
		if f.Kind == "FD" {
			if !n.wait(func() bool { return n.held != nil || finished }, waitQuiet, stepWatchdog) {
				cancel()
				c.Inconclusive("historical fetch neither held nor finished within the watchdog")
				return
			}
			n.mu.Lock()
			held := n.held != nil
			n.mu.Unlock()
			if held {
				bctx, bcancel := context.WithTimeout(context.Background(), 5*time.Second)
				_ = ec.Healthy(bctx) // see runner.barrier
				bcancel()
				n.drop()
				n.releaseHold(true)
			}
		}
		select {
		case <-done:
		case <-time.After(stepWatchdog):
			cancel()
			c.Inconclusive("historical fetch did not finish within the watchdog")
			return
		}
		ferr := <-errs
		_ = ec.Close()
		cancel()
		if ferr == nil {
			completed = true
			break
		}
		n.mu.Lock()
		n.logf("client: historical fetch error: %v  (node exits; next start resumes after the last processed block)", ferr)
		if k := len(n.entries); k > 0 {
			cur = n.entries[k-1].Block + 1
		}
		n.lastFail = len(n.ev)
		n.mu.Unlock()
		r.restarts++
	}
	n.mu.Lock()
	entries := append([]entry{}, n.entries...)
	ev := append([]srvEvent{}, n.ev...)
	n.mu.Unlock()
	if !rangeNonEmpty {
		// nothing is demanded; only the safety part of the oracle applies
		T = 0
	}
	v := judge(entries, p.From, T, completed && rangeNonEmpty, r.expected, ev)
	if v != nil {
		c.Violation(v.Kind, "hist:"+v.Sig, fmt.Sprintf("batch=%d follow-distance=%d from=%d head=%d: %s\nentries read: %v", p.Batch, p.Dist, p.From, p.H0, v.Detail, blocksOf(entries)), r.witness(T))
	} else if !completed {
		c.Inconclusive(fmt.Sprintf("hist case %d/%d: every attempt failed", c.Idx, c.Index))
	}
	// evidence
	c.Count("scenarios", 1)
	c.Count("scenarios_hist", 1)
	c.Count("hist_attempts", int64(attempts))
	c.Count("restarts_emulated", int64(r.restarts))
	c.Count("blocks_delivered", int64(len(entries)))
	faultsHit, nGL := 0, 0
	for _, e := range ev {
		if isGL(e) {
			nGL++
		}
		if !e.isFailure() {
			continue
		}
		faultsHit++
		name := e.failureName()
		if e.Kind == evGLErr {
			name += "_" + e.Pos
		}
		c.Count("fault_hit_"+name, 1)
	}
	c.Count("faults_hit_total", int64(faultsHit))
	c.Count("node_getlogs_ok", int64(nGL))
	var logsN, empty int
	for _, e := range entries {
		logsN += e.NLogs
		if e.NLogs == 0 {
			empty++
		}
	}
	c.Count("logs_delivered", int64(logsN))
	c.Count("empty_progress_entries", int64(empty))
	if completed {
		c.Count("scenarios_completed", 1)
	}
	if v == nil && completed && (faultsHit > 0 || nGL >= 2) {
		sh := shape(ev)
		c.Nontrivial(evid.Hash("hist", p.Batch, p.Dist, p.From, p.H0, sh, blocksOf(entries)))
		if faultsHit > 0 {
			c.Distinct("fault_placements", evid.Hash("hist", p.Batch, p.Dist, sh))
		}
		c.Distinct("hist_batchings", evid.Hash(p.Batch, p.Dist, nGL))
		if c.Index < 1 {
			c.Sample(map[string]any{"lane": "hist", "batch": p.Batch, "follow_distance": p.Dist, "from": p.From, "head": p.H0, "shape": sh, "entries": blocksOf(entries)})
		}
	}
}
