package c13

import (
	"context"
	"errors"
	"fmt"
	"os"
	"runtime"
	"strings"
	"sync"
	"time"

	ethtypes "github.com/ethereum/go-ethereum/core/types"
	"go.uber.org/zap"
	"go.uber.org/zap/zapcore"

	"github.com/bloxapp/ssv/eth/eventsyncer"
	"github.com/bloxapp/ssv/eth/executionclient"

	"verifharness/internal/evid"
)

var stepWatchdog = 30 * time.Second // one logical wait; firing = inconclusive

const maxRestarts = 4

func init() {
	if v := os.Getenv("C13_WATCHDOG_MS"); v != "" { // debugging aid only
		var ms int
		if _, err := fmt.Sscan(v, &ms); err == nil && ms > 0 {
			stepWatchdog = time.Duration(ms) * time.Millisecond
		}
	}
}

// ---- client-side observation through the client's own logger -----------------------------------------

type logCore struct{ n *fakeNode }

func (c logCore) Enabled(l zapcore.Level) bool      { return l >= zapcore.InfoLevel }
func (c logCore) With([]zapcore.Field) zapcore.Core { return c }
func (c logCore) Sync() error                       { return nil }
func (c logCore) Check(e zapcore.Entry, ce *zapcore.CheckedEntry) *zapcore.CheckedEntry {
	if c.Enabled(e.Level) {
		return ce.AddCore(e, c)
	}
	return ce
}
func (c logCore) Write(e zapcore.Entry, fs []zapcore.Field) error {
	if e.Message == "fetched registry events" {
		var from, to uint64
		for _, f := range fs {
			switch f.Key {
			case "from_block":
				from = uint64(f.Integer)
			case "to_block":
				to = uint64(f.Integer)
			}
		}
		c.n.noteClientFetched(from, to)
		return nil
	}
	if e.Level >= zapcore.ErrorLevel {
		msg := e.Message
		for _, f := range fs {
			if f.Key == "error" {
				if err, ok := f.Interface.(error); ok {
					msg += ": " + err.Error()
				}
			}
		}
		c.n.mu.Lock()
		c.n.logf("client log [%s]: %s", e.Level, msg)
		c.n.mu.Unlock()
	}
	return nil
}

// fatalHook makes logger.Fatal observable: it is recorded and the calling goroutine (StreamLogs' loop) ends,
// which closes the stream like a process exit would end it.
type fatalHook struct{ n *fakeNode }

func (h fatalHook) OnWrite(ce *zapcore.CheckedEntry, _ []zapcore.Field) {
	h.n.noteFatal(ce.Message)
	runtime.Goexit()
}

// ---- runner ---------------------------------------------------------------------------------------------

type session struct {
	ec     *executionclient.ExecutionClient
	cancel context.CancelFunc
	done   chan struct{}
	closed bool
}

type runner struct {
	c           *evid.Case
	p           plan
	n           *fakeNode
	blocks      map[uint64][]ethtypes.Log
	sess        *session
	restarts    int
	fatals3     int
	fatalsQ     int
	inconcl     string
	startSubErr int
	reconn      int
	lagged      bool
	gateMu      sync.Mutex
	gate        chan struct{} // non-nil while the consumer is paused
}

func (r *runner) pauseConsumer() {
	r.gateMu.Lock()
	if r.gate == nil {
		r.gate = make(chan struct{})
	}
	r.gateMu.Unlock()
}

func (r *runner) resumeConsumer() {
	r.gateMu.Lock()
	if r.gate != nil {
		close(r.gate)
		r.gate = nil
	}
	r.gateMu.Unlock()
}

func (r *runner) waitGate(done <-chan struct{}) {
	r.gateMu.Lock()
	g := r.gate
	r.gateMu.Unlock()
	if g != nil {
		select {
		case <-g:
		case <-done:
		}
	}
}

func (r *runner) expected(b uint64) []ethtypes.Log { return expectedOf(r.blocks, b) }

func (r *runner) newClient(ctx context.Context) (*executionclient.ExecutionClient, error) {
	logger := zap.New(logCore{r.n}, zap.WithFatalHook(fatalHook{r.n}))
	return executionclient.New(ctx, r.n.url, contractAddr,
		executionclient.WithLogger(logger),
		executionclient.WithFollowDistance(r.p.Dist),
		executionclient.WithLogBatchSize(r.p.Batch),
		executionclient.WithConnectionTimeout(10*time.Second),
		executionclient.WithReconnectionInitialInterval(time.Millisecond),
		executionclient.WithReconnectionMaxInterval(4*time.Second),
	)
}

// startStream: StreamLogs(from) on ec (a new client if nil) with a reader that hands every entry to the monitor.
func (r *runner) startStream(ec *executionclient.ExecutionClient, from uint64, phase string) bool {
	ctx, cancel := context.WithCancel(context.Background())
	if ec == nil {
		var err error
		ec, err = r.newClient(ctx)
		if err != nil {
			cancel()
			r.inconcl = "cannot connect to the fake node: " + err.Error()
			return false
		}
		if err := ec.Healthy(ctx); err != nil {
			cancel()
			r.inconcl = "fake node not healthy: " + err.Error()
			return false
		}
	}
	r.n.mu.Lock()
	r.n.fatal, r.n.streamClosed = false, false
	r.n.logf("harness: StreamLogs(from=%d) [%s]", from, phase)
	r.n.mu.Unlock()
	s := &session{ec: ec, cancel: cancel, done: make(chan struct{})}
	ch := ec.StreamLogs(ctx, from)
	go func() {
		for {
			r.waitGate(ctx.Done())
			bl, ok := <-ch
			if !ok {
				break
			}
			r.n.recv(entry{Block: bl.BlockNumber, Logs: bl.Logs, NLogs: len(bl.Logs), Phase: phase})
		}
		r.n.mu.Lock()
		r.n.streamClosed = true
		r.n.bump()
		r.n.mu.Unlock()
		close(s.done)
	}()
	r.sess = s
	return true
}

func (r *runner) stopSession() bool {
	s := r.sess
	if s == nil {
		return true
	}
	if !s.closed {
		s.closed = true
		_ = s.ec.Close()
	}
	s.cancel()
	select {
	case <-s.done:
	case <-time.After(stepWatchdog):
		r.inconcl = "stream did not close within the watchdog after Close()"
		return false
	}
	r.sess = nil
	return true
}

// afterWait handles a terminated stream: a Fatal is a process exit; the node restarts and resumes after the last entry
// it processed (cli/operator/node.go: last processed block + 1). Returns false when the case cannot go on.
func (r *runner) afterWait(ok bool, what string) (goOn bool, restarted bool) {
	if !ok {
		r.inconcl = "watchdog fired while waiting for: " + what
		buf := make([]byte, 1<<22)
		buf = buf[:runtime.Stack(buf, true)]
		if where := clientBlockedIn(string(buf)); where != "" {
			r.inconcl += " [the execution client is blocked in " + where + "]"
			r.c.Count("client_stalled_in_"+where, 1)
		}
		if os.Getenv("C13_DEBUG") != "" {
			fmt.Fprintf(os.Stderr, "== watchdog (%s); goroutines:\n%s\n", what, buf)
		}
		if d := os.Getenv("C13_DUMP_DIR"); d != "" { // debugging aid: full timeline + goroutines of a case that hit the watchdog
			r.n.mu.Lock()
			tl := strings.Join(r.n.timeline, "\n")
			r.n.mu.Unlock()
			_ = os.WriteFile(fmt.Sprintf("%s/watchdog-%s-c%d-i%d.txt", d, r.p.Lane, r.c.Idx, r.c.Index), []byte(what+"\n"+tl+"\n\n"+string(buf)), 0o644)
		}
		return false, false
	}
	r.n.mu.Lock()
	fatal, closed := r.n.fatal, r.n.streamClosed
	r.n.mu.Unlock()
	if !fatal && !closed {
		return true, false
	}
	if !fatal {
		// wait a moment: Goexit closes the channel right after the hook ran; a close without Fatal is unexpected
		r.inconcl = "stream closed without Fatal and without Close()"
		return false, false
	}
	// classify the Fatal by what the node saw
	r.n.mu.Lock()
	run := trailingFailures(r.n.ev)
	r.n.mu.Unlock()
	if run >= 3 {
		r.fatals3++
	} else {
		r.fatalsQ++
	}
	if !r.stopSession() {
		return false, false
	}
	if r.restarts >= maxRestarts {
		r.inconcl = "more than 4 Fatal exits in one scenario"
		return false, false
	}
	r.restarts++
	r.n.disarm()
	r.n.mu.Lock()
	next := r.p.From
	if k := len(r.n.entries); k > 0 {
		next = r.n.entries[k-1].Block + 1
	}
	// a failure chain ends with the process: subscriptions of the dead client are stale
	r.n.lastFail = len(r.n.ev)
	r.n.mu.Unlock()
	if !r.startStream(nil, next, fmt.Sprintf("stream-after-restart-%d", r.restarts)) {
		return false, false
	}
	return true, true
}

// barrier makes sure no request of the client is half-way through being written when the harness closes the connection:
// a round trip (eth_syncing via ExecutionClient.Healthy) on the client's current connection is only admitted by
// go-ethereum's rpc.Client after the previous request's send has been acknowledged to its dispatcher. Without it a drop
// that lands between the client's socket write and that acknowledgement hits a race in go-ethereum v1.13.5's rpc.Client
// (the request is neither failed by the read error nor by the write) and FilterLogs/SubscribeNewHead, which the execution
// client calls without a deadline, never return: a stall, which no finite observation can tell from slowness.
func (r *runner) barrier() {
	if r.sess == nil {
		return
	}
	ctx, cancel := context.WithTimeout(context.Background(), 5*time.Second)
	_ = r.sess.ec.Healthy(ctx)
	cancel()
}

// clientBlockedIn looks, after a watchdog fired, for the execution client's goroutine sitting in a go-ethereum rpc call
// that has no deadline (diagnosis for the report only; the case stays inconclusive).
func clientBlockedIn(stacks string) string {
	for _, g := range strings.Split(stacks, "\n\n") {
		if !strings.Contains(g, "rpc.(*requestOp).wait") {
			continue
		}
		switch {
		case strings.Contains(g, "requestUnsubscribe"):
			return "ClientSubscription.Unsubscribe->eth_unsubscribe"
		case strings.Contains(g, "FilterLogs"):
			return "FilterLogs"
		case strings.Contains(g, "EthSubscribe") || strings.Contains(g, "SubscribeNewHead"):
			return "SubscribeNewHead"
		}
	}
	return ""
}

// trailingFailures: failures the node saw since the last successful eth_getLogs.
func trailingFailures(ev []srvEvent) int {
	k := 0
	for i := len(ev) - 1; i >= 0; i-- {
		if ev[i].Kind == evGLOK {
			break
		}
		if ev[i].isFailure() {
			k++
		}
	}
	return k
}

func (r *runner) caughtUp() bool { // under n.mu
	n := r.n
	if n.head < r.p.Dist || n.head-r.p.Dist < r.p.From {
		return true
	}
	return n.clientAny && n.clientMaxTo >= n.head-r.p.Dist
}

func (r *runner) waitCaughtUp() (bool, bool) {
	return r.afterWait(r.n.wait(r.caughtUp, waitEscalate, stepWatchdog), "client fetched up to head - follow distance")
}

func pos(skip int) string {
	if skip > 0 {
		return "middle-batch"
	}
	return "first-batch"
}

// execOps runs the scripted part of a stream scenario. Returns false if the case is inconclusive.
func (r *runner) execOps(ops []op) bool {
	n := r.n
	for _, o := range ops {
		switch o.Kind {
		case "head":
			n.advance(o.Delta, o.Each)
			if ok, _ := r.waitCaughtUp(); !ok {
				return false
			}
		case "burst":
			n.advance(o.Delta, o.Each)
			n.advance(o.Delta2, !o.Each)
			if ok, _ := r.waitCaughtUp(); !ok {
				return false
			}
		case "hif":
			n.armHold(0, "first-batch")
			n.advance(o.Delta, o.Each)
			ok, restarted := r.afterWait(n.wait(func() bool { return n.held != nil }, waitEscalate, stepWatchdog), "eth_getLogs call to hold")
			if !ok {
				return false
			}
			if !restarted {
				n.advance(o.Delta2, o.Each)
			}
			n.releaseHold(false)
			n.disarm()
			if ok, _ := r.waitCaughtUp(); !ok {
				return false
			}
		case "group":
			if !r.execGroup(o) {
				return false
			}
		case "lag":
			n.mu.Lock()
			n.logf("harness: the consumer stops reading the stream")
			n.mu.Unlock()
			r.pauseConsumer()
			r.c.Count("consumer_lags", 1)
			r.lagged = true
			n.advance(o.Delta, o.Each)
			// scheduling only (no verdict depends on it): give the client a moment to fetch what it can while nobody reads
			_ = n.wait(r.caughtUp, waitQuiet, 150*time.Millisecond)
			// like the scripted drops: not while an eth_getLogs call is in flight (go-ethereum's rpc client can lose such a call
			// without failing it, after which the stream never resumes - section 19.4; such a stall is inconclusive, not a verdict)
			_ = n.wait(func() bool { return n.inflight == 0 }, waitQuiet, 500*time.Millisecond)
			r.barrier()
			n.drop()
			// let the client come back (scheduling only), so that the heads that follow reach its NEW subscription while the
			// consumer still is not reading
			_ = n.wait(func() bool { return n.freshSubs() > 0 }, waitQuiet, 500*time.Millisecond)
			n.advance(o.Delta2, o.Each)
			_ = n.wait(r.caughtUp, waitQuiet, 150*time.Millisecond)
			n.mu.Lock()
			n.logf("harness: the consumer reads again")
			n.mu.Unlock()
			r.resumeConsumer()
			if ok, _ := r.waitCaughtUp(); !ok {
				return false
			}
		}
	}
	return true
}

func (r *runner) execGroup(g op) bool {
	n := r.n
	if !g.AtStart { // a start group's subscribe failures were armed before StreamLogs was called
		k := 0
		for _, a := range g.Atoms {
			if a.Kind == "SE" {
				k++
			}
		}
		n.armSubscribeFail(k)
	}
	n.mu.Lock()
	subErrBase := n.nSubErr
	n.mu.Unlock()
	if g.AtStart {
		subErrBase = r.startSubErr // the client may already have run into the failures armed before StreamLogs
	}
	seSeen := 0
	for _, a := range g.Atoms {
		var ok, restarted bool
		switch a.Kind {
		case "SD":
			// the client must be subscribed and idle: if a head reached the new subscription, let it finish that fetch first
			ok, restarted = r.afterWait(n.wait(func() bool {
				return n.freshSubs() > 0 && n.inflight == 0 && (!n.freshSubNotified() || r.caughtUp())
			}, waitQuiet, stepWatchdog), "a fresh, idle subscription to drop")
			if ok && !restarted {
				r.barrier()
				n.drop()
				if a.AdvanceAfter > 0 {
					n.advance(a.AdvanceAfter, a.Each) // blocks produced while the client is away
				}
			}
		case "SE":
			seSeen++
			want := subErrBase + seSeen
			ok, restarted = r.afterWait(n.wait(func() bool { return n.nSubErr >= want }, waitQuiet, stepWatchdog), "eth_subscribe failure to hit")
		case "FE":
			n.mu.Lock()
			want := n.nGLErr + 1
			n.mu.Unlock()
			if a.HeadInFlight > 0 {
				n.armHold(a.Skip, pos(a.Skip))
				n.advance(a.Delta, a.Each)
				ok, restarted = r.afterWait(n.wait(func() bool { return n.held != nil }, waitEscalate, stepWatchdog), "eth_getLogs call to hold")
				if ok && !restarted {
					n.advance(a.HeadInFlight, a.Each)
					n.releaseHold(true)
					ok, restarted = r.afterWait(n.wait(func() bool { return n.nGLErr >= want }, waitQuiet, stepWatchdog), "held eth_getLogs to fail")
				}
			} else {
				n.armGetLogsFail(a.Skip, 1, pos(a.Skip))
				n.advance(a.Delta, a.Each)
				ok, restarted = r.afterWait(n.wait(func() bool { return n.nGLErr >= want }, waitEscalate, stepWatchdog), "eth_getLogs failure to hit")
			}
		case "FD":
			n.armHold(a.Skip, pos(a.Skip))
			n.advance(a.Delta, a.Each)
			ok, restarted = r.afterWait(n.wait(func() bool { return n.held != nil }, waitEscalate, stepWatchdog), "eth_getLogs call to hold")
			if ok && !restarted {
				r.barrier()
				n.drop()
				n.releaseHold(true)
				ok, restarted = r.afterWait(n.wait(func() bool { return n.held == nil }, waitQuiet, stepWatchdog), "held eth_getLogs to end")
			}
		}
		if !ok {
			return false
		}
		if restarted {
			// the process exited inside the group: the rest of the group is moot
			return true
		}
	}
	n.disarm()
	return true
}

// finish: the scripted part is over. T = head - follow distance must be delivered; the node keeps producing blocks
// until an entry >= T is seen (logical completion). Returns T and whether completion was reached.
func (r *runner) finish() (uint64, bool) {
	n := r.n
	r.resumeConsumer()
	n.mu.Lock()
	need := r.p.From + r.p.Dist + 1
	var extra int
	if n.head < need {
		extra = int(need - n.head)
	}
	n.mu.Unlock()
	if extra > 0 {
		n.advance(extra, true)
	}
	n.mu.Lock()
	T := n.head - r.p.Dist
	n.logf("harness: script finished at head %d; delivery must reach block %d", n.head, T)
	n.mu.Unlock()
	for {
		reached := func() bool {
			k := len(n.entries)
			return k > 0 && maxBlock(n.entries) >= T
		}
		ok, restarted := r.afterWait(n.wait(reached, waitTail, stepWatchdog), fmt.Sprintf("an entry at or above block %d", T))
		if !ok {
			return T, false
		}
		if !restarted {
			return T, true
		}
	}
}

func maxBlock(es []entry) uint64 {
	var m uint64
	for _, e := range es {
		if e.Block > m {
			m = e.Block
		}
	}
	return m
}

// ---- evidence ---------------------------------------------------------------------------------------------

func (r *runner) witness(T uint64) map[string]any {
	n := r.n
	n.mu.Lock()
	defer n.mu.Unlock()
	upTo := n.head
	return map[string]any{
		"plan":           r.p,
		"required_up_to": T,
		"chain":          chainSummary(r.blocks, upTo),
		"entries":        blocksOf(n.entries),
		"node_events":    n.ev,
		"timeline":       n.timeline,
	}
}

func (r *runner) account(completed bool, v *verdict) {
	c, n := r.c, r.n
	n.mu.Lock()
	ev := append([]srvEvent{}, n.ev...)
	entries := append([]entry{}, n.entries...)
	c.Count("scenarios", 1)
	c.Count("scenarios_"+r.p.Lane, 1)
	c.Count("class_"+r.p.Class, 1)
	c.Count("node_getlogs_ok", int64(n.nGLOK))
	c.Count("node_subscribe_ok", int64(n.nSubOK))
	c.Count("heads_sent_to_subscriptions", int64(n.nHeadsSent))
	c.Count("heads_announced_with_no_subscription", int64(n.nHeadsNoSub))
	c.Count("perturb_head_while_fetch_in_flight", int64(n.nHeadHeld))
	c.Count("drops_that_hit_nothing", int64(n.nDropMiss))
	n.mu.Unlock()
	faults := 0
	for _, e := range ev {
		if !e.isFailure() {
			continue
		}
		faults++
		name := e.failureName()
		if e.Kind == evGLErr {
			name += "_" + e.Pos
			if e.HeadHeld {
				name += "_head_in_flight"
			}
		}
		c.Count("fault_hit_"+name, 1)
	}
	c.Count("faults_hit_total", int64(faults))
	c.Count("reconnects_observed", int64(r.reconn))
	c.Count("blocks_delivered", int64(len(entries)))
	var logs, empty int
	for _, e := range entries {
		logs += e.NLogs
		if e.NLogs == 0 {
			empty++
		}
	}
	c.Count("logs_delivered", int64(logs))
	c.Count("empty_progress_entries", int64(empty))
	c.Count("fatal_after_3_consecutive_failures", int64(r.fatals3))
	c.Count("fatal_with_fewer_consecutive_failures", int64(r.fatalsQ))
	c.Count("restarts_emulated", int64(r.restarts))
	c.Max("max_consecutive_failures", int64(maxConsecutiveFailures(ev)))
	if completed {
		c.Count("scenarios_completed", 1)
	}
	if v != nil {
		return
	}
	sh := shape(ev)
	if completed && faults > 0 {
		c.Nontrivial(evid.Hash(r.p.Lane, r.p.Batch, r.p.Dist, r.p.From, sh, blocksOf(entries)))
		c.Distinct("fault_placements", evid.Hash(r.p.Batch, r.p.Dist, sh))
		c.Distinct("fault_placements_any_config", evid.Hash(sh))
		c.Distinct("configs_with_fault", evid.Hash(r.p.Lane, r.p.Batch, r.p.Dist))
		if r.c.Index < 2 {
			c.Sample(map[string]any{"lane": r.p.Lane, "batch": r.p.Batch, "follow_distance": r.p.Dist, "from": r.p.From, "shape": sh, "entries": blocksOf(entries)})
		}
	}
}

// ---- lanes ------------------------------------------------------------------------------------------------

func setup(c *evid.Case, lane string) *runner {
	p := genPlan(c.Rng, lane)
	blocks := genChain(c.Rng, planBlocks(p)+160)
	n, err := newFakeNode(contractAddr, blocks, p.H0)
	if err != nil {
		c.Inconclusive("cannot start the fake node: " + err.Error())
		return nil
	}
	return &runner{c: c, p: p, n: n, blocks: blocks}
}

func (r *runner) conclude(T uint64, completed bool) {
	c, n := r.c, r.n
	stopped := r.stopSession()
	r.reconn = n.ln.acceptedCount() - 1 - r.restarts
	if r.reconn < 0 {
		r.reconn = 0
	}
	if d := os.Getenv("C13_DUMP_DIR"); d != "" && r.lagged { // debugging aid: timeline of the cases with a lagging consumer
		n.mu.Lock()
		_ = os.WriteFile(fmt.Sprintf("%s/lag-%s-c%d-i%d.txt", d, r.p.Lane, r.c.Idx, r.c.Index), []byte(strings.Join(n.timeline, "\n")+"\n"), 0o644)
		n.mu.Unlock()
	}
	n.mu.Lock()
	entries := append([]entry{}, n.entries...)
	ev := append([]srvEvent{}, n.ev...)
	n.mu.Unlock()
	v := judge(entries, r.p.From, T, completed && stopped, r.expected, ev)
	if v != nil {
		c.Violation(v.Kind, r.p.Lane+":"+v.Sig, fmt.Sprintf("batch=%d follow-distance=%d from=%d: %s\nentries read: %v", r.p.Batch, r.p.Dist, r.p.From, v.Detail, blocksOf(entries)), r.witness(T))
	} else if r.inconcl != "" {
		n.mu.Lock()
		tl := n.timeline
		if len(tl) > 14 {
			tl = tl[len(tl)-14:]
		}
		tail := fmt.Sprint(tl)
		n.mu.Unlock()
		c.Inconclusive(fmt.Sprintf("%s case %d/%d (batch=%d dist=%d from=%d): %s; last events: %s", r.p.Lane, c.Idx, c.Index, r.p.Batch, r.p.Dist, r.p.From, r.inconcl, tail))
	}
	r.account(completed && stopped && r.inconcl == "", v)
	if os.Getenv("C13_DEBUG") != "" {
		n.mu.Lock()
		for _, l := range n.timeline {
			fmt.Fprintln(os.Stderr, l)
		}
		fmt.Fprintf(os.Stderr, "== end of case %d: +%.1fms\n", c.Index, float64(time.Since(n.t0).Microseconds())/1000)
		n.mu.Unlock()
	}
	n.shutdown()
	if os.Getenv("C13_DEBUG") != "" {
		fmt.Fprintf(os.Stderr, "== after shutdown: +%.1fms\n", float64(time.Since(n.t0).Microseconds())/1000)
	}
}

func runStream(c *evid.Case) {
	r := setup(c, "stream")
	if r == nil {
		return
	}
	c.Journal("case %d stream batch=%d dist=%d from=%d class=%s", c.Index, r.p.Batch, r.p.Dist, r.p.From, r.p.Class)
	r.streamPart(nil, r.p.From)
}

// streamPart: StreamLogs(from) with the scripted faults, then the verdict over everything read so far.
func (r *runner) streamPart(ec *executionclient.ExecutionClient, from uint64) {
	ops := r.p.Ops
	if len(ops) > 0 && ops[0].Kind == "group" && ops[0].AtStart {
		k := 0
		for _, a := range ops[0].Atoms {
			if a.Kind == "SE" {
				k++
			}
		}
		r.n.mu.Lock()
		r.startSubErr = r.n.nSubErr
		r.n.mu.Unlock()
		r.n.armSubscribeFail(k)
	}
	if !r.startStream(ec, from, "stream") {
		r.conclude(0, false)
		return
	}
	var T uint64
	completed := false
	if r.execOps(ops) {
		T, completed = r.finish()
	}
	r.conclude(T, completed)
}

// runSync: the event syncer's sequence: FetchHistoricalLogs(from) handled to the end, then StreamLogs(last + 1)
// (or StreamLogs(from) when there was nothing to sync), cli/operator/node.go + eth/eventsyncer.
// histHandler stands in for the event handler during the historical sync: it records what it is handed and reports the last
// block like eventhandler.HandleBlockEventsStream does.
type histHandler struct {
	n   *fakeNode
	cnt *int
}

func (h histHandler) HandleBlockEventsStream(logs <-chan executionclient.BlockLogs, _ bool) (uint64, error) {
	var last uint64
	for bl := range logs {
		h.n.recv(entry{Block: bl.BlockNumber, Logs: bl.Logs, NLogs: len(bl.Logs), Phase: "hist"})
		last = bl.BlockNumber
		*h.cnt++
	}
	return last, nil
}

func runSync(c *evid.Case) {
	r := setup(c, "sync")
	if r == nil {
		return
	}
	c.Journal("case %d sync batch=%d dist=%d from=%d class=%s", c.Index, r.p.Batch, r.p.Dist, r.p.From, r.p.Class)
	n := r.n
	ctx := context.Background()
	ec, err := r.newClient(ctx)
	if err != nil {
		c.Inconclusive("cannot connect to the fake node: " + err.Error())
		n.shutdown()
		return
	}
	if r.p.HistHold >= 0 {
		n.armHold(r.p.HistHold, pos(r.p.HistHold))
	}
	n.mu.Lock()
	n.logf("harness: FetchHistoricalLogs(from=%d) at head %d", r.p.From, n.head)
	n.mu.Unlock()
	// the node's own hand-over: EventSyncer.SyncHistory (real) feeding a recording event handler, then the switch of
	// cli/operator/node.go that turns its result into the block the ongoing stream starts from
	cnt := 0
	histDone := false
	es := eventsyncer.New(nil, ec, histHandler{n: n, cnt: &cnt})
	var last uint64
	var herr error
	done := make(chan struct{})
	go func() {
		last, herr = es.SyncHistory(ctx, r.p.From)
		n.mu.Lock()
		histDone = true
		n.bump()
		n.mu.Unlock()
		close(done)
	}()
	if r.p.HistHold >= 0 {
		if !n.wait(func() bool { return n.held != nil || histDone }, waitQuiet, stepWatchdog) {
			c.Inconclusive("historical fetch neither held nor finished within the watchdog")
			n.shutdown()
			return
		}
		n.mu.Lock()
		held := n.held != nil
		n.mu.Unlock()
		if held {
			n.advance(r.p.HistAdvance, true) // the chain grows while the historical sync runs
			c.Count("sync_head_advanced_during_history", 1)
		}
		n.disarm()
	}
	select {
	case <-done:
	case <-time.After(stepWatchdog):
		c.Inconclusive("historical sync did not finish within the watchdog")
		n.shutdown()
		return
	}
	streamFrom := r.p.From
	switch {
	case errors.Is(herr, executionclient.ErrNothingToSync):
		// node.go: nothing was synced, keep fromBlock as is
		c.Count("sync_nothing_to_sync", 1)
	case herr == nil:
		streamFrom = last + 1 // node.go: fromBlock = lastProcessedBlock + 1
	case r.p.From == 0 && strings.Contains(herr.Error(), "lastProcessedBlock is 0"):
		// a history that consists of block 0 only: the syncer treats "last processed block 0" as a failure (the node exits).
		// Block 0 is not a start block a node is configured with; the case is counted and left unjudged.
		c.Count("sync_history_of_block_zero_only_skipped", 1)
		n.shutdown()
		return
	default:
		c.Inconclusive("SyncHistory failed without an injected fault: " + herr.Error())
		n.shutdown()
		return
	}
	c.Count("sync_history_entries", int64(cnt))
	n.disarm()
	r.streamPart(ec, streamFrom)
}
