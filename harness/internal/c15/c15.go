// Package c15: a duty height once started or decided is never run again, even after restart; stored decided
// instances are only replaced by higher heights or, at the same height, by more signers (property C15).
//
// System under test: real attester runner + real controller + real ibft storage on a fault-injecting database,
// restart performed the way Validator.Start does it (LoadHighestInstance, SetHighestDecidedSlot).
package c15

import (
	"bytes"
	"context"
	"fmt"
	"sort"
	"strings"

	"github.com/attestantio/go-eth2-client/spec"
	"github.com/attestantio/go-eth2-client/spec/phase0"
	specqbft "github.com/bloxapp/ssv-spec/qbft"
	specssv "github.com/bloxapp/ssv-spec/ssv"
	spectypes "github.com/bloxapp/ssv-spec/types"
	"github.com/bloxapp/ssv-spec/types/testingutils"
	"go.uber.org/zap"

	ibftstorage "github.com/bloxapp/ssv/ibft/storage"
	"github.com/bloxapp/ssv/protocol/v2/qbft"
	"github.com/bloxapp/ssv/protocol/v2/qbft/controller"
	qbftstorage "github.com/bloxapp/ssv/protocol/v2/qbft/storage"
	"github.com/bloxapp/ssv/protocol/v2/ssv/runner"
	"github.com/bloxapp/ssv/storage/basedb"
	"github.com/bloxapp/ssv/storage/kv"

	"verifharness/internal/evid"
	"verifharness/internal/faultdb"
	"verifharness/internal/oracle"
	"verifharness/internal/qsim"
)

func Spec() *evid.Spec {
	return &evid.Spec{
		ID:    "C15",
		Level: "fault_enumeration",
		Rule: "each case = one seed-determined history (12-40 steps) on one operator's real attester runner/controller/ibft store (full or light node, committee 4 or 7): start-duty with slot below/equal/above the current height, " +
			"genuine decided certificates for past/current/future heights with 2f+1..N signers (growing, shrinking, different sets), consensus run to a local decision, restart as Validator.Start does it, crash at a seed-chosen storage operation (before/after) followed by restart. " +
			"Monitors after every step: an accepted duty start must be strictly above everything started or learned as decided in this lifetime and above the persisted highest decided height after a restart; every store write may replace the highest / a historical instance only by a higher height or more signers at the same height; " +
			"GetHighestInstance read-back never goes backwards and survives reopen; after restart the controller resumes at the stored highest height. thorough adds exhaustive crash-point enumeration. " +
			"Non-trivial = history with at least one restart or crash, one refused start and one accepted certificate; distinct = hash of the step/outcome sequence",
		Assumptions: []string{
			"the restart sequence is copied from Validator.Start (LoadHighestInstance + SetHighestDecidedSlot); heights started but never decided are not persisted and the statement does not require that",
			"in-process crash model of faultdb (committed writes survive, open transactions are dropped)",
		},
		MinNontrivial: 100,
		Lanes: []evid.Lane{
			{Name: "histories", Children: evid.Const(16, 16), Cases: evid.Const(120, 2500), TimeoutS: evid.Const(900, 7200), Setup: setup, Run: runHistory},
			{Name: "crashenum", Children: evid.Const(8, 16), Cases: evid.Const(3, 20), TimeoutS: evid.Const(900, 7200), Setup: setup, Run: runCrashEnum},
		},
	}
}

type env struct {
	db  basedb.Database
	seq int
}

func setup(ch *evid.Child) {
	db, err := kv.NewInMemory(zap.NewNop(), basedb.Options{Ctx: context.Background()})
	if err != nil {
		panic(err)
	}
	ch.Data = &env{db: db}
}

// ---- world -------------------------------------------------------------------------------------

type capNet struct{ out []*spectypes.SSVMessage }

func (n *capNet) Broadcast(m *spectypes.SSVMessage) error { n.out = append(n.out, m); return nil }

type capTimer struct{}

func (capTimer) TimeoutForRound(specqbft.Height, specqbft.Round) {}

type saveRec struct {
	Kind   string
	Height specqbft.Height
	Cert   *specqbft.SignedMessage
}

// recStore records every write before it reaches the real store.
type recStore struct {
	qbftstorage.QBFTStore
	w *world
}

func (s *recStore) SaveInstance(i *qbftstorage.StoredInstance) error {
	s.w.onSave("SaveInstance", i)
	return s.QBFTStore.SaveInstance(i)
}
func (s *recStore) SaveHighestInstance(i *qbftstorage.StoredInstance) error {
	s.w.onSave("SaveHighestInstance", i)
	return s.QBFTStore.SaveHighestInstance(i)
}
func (s *recStore) SaveHighestAndHistoricalInstance(i *qbftstorage.StoredInstance) error {
	s.w.onSave("SaveHighestAndHistoricalInstance", i)
	return s.QBFTStore.SaveHighestAndHistoricalInstance(i)
}

type world struct {
	c        *evid.Case
	n        int
	f        int
	ks       *testingutils.TestKeySet
	share    *spectypes.Share
	id       spectypes.MessageID
	fullNode bool
	inj      *faultdb.Injector
	fdb      *faultdb.DB
	prefix   string
	store    *recStore
	ctrl     *controller.Controller
	run      runner.Runner
	net      *capNet
	lg       *zap.Logger

	// monitor state
	lifetimeMax   int64 // highest height started or learned as decided in this lifetime (-1 = none)
	pendingSaves  []saveRec
	modelHighest  *saveRec                     // what the store must hold as highest (per the writes that completed)
	modelHist     map[specqbft.Height]*saveRec // historical instances (full node)
	hist          []string
	certRounds    map[specqbft.Height]map[specqbft.Round]bool // rounds of the certificates processed per height
	firstSeenLate map[specqbft.Height]bool                    // height -> its first certificate was processed (possibly cut short by a crash) while a higher height was already started
	decidedLate   map[specqbft.Height]bool                    // height learned as decided (in a completed step) -> learned while a higher height was already started
	stepDecided   map[specqbft.Height]bool                    // learned in the current (not yet completed) step
	violated      bool
	refusedStarts int
	acceptedCerts int
	restarts      int
	crashes       int
}

func (w *world) viol(kind, sig, detail string) {
	if w.violated {
		return
	}
	w.violated = true
	w.c.Violation(kind, sig, detail, map[string]any{"N": w.n, "full_node": w.fullNode, "history": w.hist})
}

func newWorld(c *evid.Case, e *env, n int, full bool) *world {
	e.seq++
	ks := qsim.KeySet(n)
	w := &world{c: c, n: n, f: (n - 1) / 3, ks: ks, fullNode: full, lg: zap.NewNop(), lifetimeMax: -1, modelHist: map[specqbft.Height]*saveRec{}}
	w.share = qsim.ShareFor(ks, 1)
	w.id = spectypes.NewMsgID(qsim.Domain, ks.ValidatorPK.Serialize(), spectypes.BNRoleAttester)
	w.inj = faultdb.NewInjector()
	w.fdb = faultdb.Wrap(e.db, w.inj)
	w.prefix = fmt.Sprintf("c15-%d", e.seq)
	w.boot(0)
	return w
}

// boot builds fresh in-memory objects on the (surviving) database.
func (w *world) boot(highestDecidedSlot phase0.Slot) {
	w.net = &capNet{}
	w.store = &recStore{QBFTStore: ibftstorage.New(w.fdb, w.prefix), w: w}
	km := testingutils.NewTestingKeyManager()
	var pk spectypes.ValidatorPK = w.ks.ValidatorPK.Serialize()
	valCheck := specssv.AttesterValueCheckF(km, spectypes.BeaconTestNetwork, pk, testingutils.TestingValidatorIndex, w.share.SharePubKey)
	cfg := &qbft.Config{Signer: km, SigningPK: w.share.SharePubKey, Domain: qsim.Domain, ValueCheckF: valCheck, ProposerF: specqbft.RoundRobinProposer,
		Storage: w.store, Network: w.net, Timer: capTimer{}, SignatureVerification: true}
	w.ctrl = controller.NewController(w.id[:], w.share, cfg, w.fullNode)
	w.run = runner.NewAttesterRunnner(spectypes.BeaconTestNetwork, w.share, w.ctrl, testingutils.NewTestingBeaconNode(), w.net, km, valCheck, highestDecidedSlot)
}

func (w *world) duty(slot phase0.Slot) *spectypes.Duty {
	var pk phase0.BLSPubKey
	copy(pk[:], w.ks.ValidatorPK.Serialize())
	return &spectypes.Duty{Type: spectypes.BNRoleAttester, PubKey: pk, Slot: slot, ValidatorIndex: testingutils.TestingValidatorIndex,
		CommitteeIndex: 3, CommitteesAtSlot: 36, CommitteeLength: 128, ValidatorCommitteeIndex: 11}
}

func (w *world) value(slot phase0.Slot, variant byte) []byte {
	ad := *testingutils.TestingAttestationData
	ad.Slot = slot
	_ = variant // one value per height: the value the duty's own consensus would propose (two valid certificates for different
	// values at one height would need more than f faulty operators and are outside the property's world)
	b, _ := ad.MarshalSSZ()
	cd := &spectypes.ConsensusData{Duty: *w.duty(slot), Version: spec.DataVersionPhase0, DataSSZ: b}
	enc, err := cd.Encode()
	if err != nil {
		panic(err)
	}
	return enc
}

func (w *world) cert(h specqbft.Height, round specqbft.Round, value []byte, signers []spectypes.OperatorID) *specqbft.SignedMessage {
	msg := &specqbft.Message{MsgType: specqbft.CommitMsgType, Height: h, Round: round, Identifier: w.id[:], Root: qsim.Root(value)}
	var parts []*specqbft.SignedMessage
	for _, s := range signers {
		parts = append(parts, qsim.Sign(w.ks, s, msg))
	}
	a := qsim.Aggregate(parts)
	a.FullData = value
	return a
}

// onSave: the store monitor (runs before the write reaches the database; applied to the model when the write returned).
func (w *world) onSave(kind string, i *qbftstorage.StoredInstance) {
	if i == nil || i.State == nil || i.DecidedMessage == nil {
		w.viol("store-write-without-certificate", kind, "instance handed to the store without state/certificate")
		return
	}
	w.pendingSaves = append(w.pendingSaves, saveRec{Kind: kind, Height: i.State.Height, Cert: i.DecidedMessage})
}

func encCert(m *specqbft.SignedMessage) []byte { b, _ := m.Encode(); return append(b, m.FullData...) }

// replaceOK is the statement's rule for replacing a stored decided instance.
func (w *world) relClass(h specqbft.Height) string {
	if len(w.certRounds[h]) >= 2 {
		return "height-with-certificates-of-several-rounds"
	}
	// the "highest" record and the per-height record of a full node hold different certificates for this height: a certificate
	// learned while a higher height was already started went to the per-height record only (the S15 rule), a restart then
	// reloads the stale "highest" copy
	if w.modelHighest != nil && w.modelHighest.Height == h && w.modelHist[h] != nil && !bytes.Equal(encCert(w.modelHighest.Cert), encCert(w.modelHist[h].Cert)) {
		return "highest-and-per-height-records-diverged-after-late-certificate"
	}
	return "single-round"
}

func replaceOK(old, nw *saveRec) (bool, string) {
	if old == nil {
		return true, ""
	}
	if nw.Height > old.Height {
		return true, ""
	}
	if nw.Height < old.Height {
		return false, fmt.Sprintf("height %d replaced by lower height %d", old.Height, nw.Height)
	}
	if bytes.Equal(encCert(old.Cert), encCert(nw.Cert)) {
		return true, "" // idempotent re-save of the same certificate is not a replacement
	}
	if len(nw.Cert.Signers) > len(old.Cert.Signers) {
		return true, ""
	}
	rel := "REL"
	return false, fmt.Sprintf("%s: height %d: certificate of round %d with %d signers %v replaced by one of round %d with %d signers %v", rel, old.Height,
		old.Cert.Message.Round, len(old.Cert.Signers), old.Cert.Signers, nw.Cert.Message.Round, len(nw.Cert.Signers), nw.Cert.Signers)
}

// settle applies the writes of the finished step to the model (all, or - after a crash - the ones the database shows).
func (w *world) settle(step string, crashed bool) {
	if !crashed {
		if w.decidedLate == nil {
			w.decidedLate = map[specqbft.Height]bool{}
		}
		for h, late := range w.stepDecided {
			if _, ok := w.decidedLate[h]; !ok {
				w.decidedLate[h] = late
			}
		}
	}
	w.stepDecided = nil
	for _, s := range w.pendingSaves {
		s := s
		asHighest := s.Kind != "SaveInstance"
		asHist := s.Kind != "SaveHighestInstance"
		if crashed {
			// which parts reached the database? read back from the real store (not through the injector)
			inner := ibftstorage.New(w.fdb.Inner(), w.prefix)
			if asHighest {
				hi, _ := inner.GetHighestInstance(w.id[:])
				asHighest = hi != nil && hi.DecidedMessage != nil && bytes.Equal(encCert(hi.DecidedMessage), encCert(s.Cert))
			}
			if asHist {
				in, _ := inner.GetInstance(w.id[:], s.Height)
				asHist = in != nil && in.DecidedMessage != nil && bytes.Equal(encCert(in.DecidedMessage), encCert(s.Cert))
			}
		}
		cls := w.relClass(s.Height) // before the model moves
		if asHighest {
			if ok, why := replaceOK(w.modelHighest, &s); !ok {
				w.viol("highest-instance-replaced-illegally", s.Kind+"/"+cls, step+": stored highest decided instance: "+strings.Replace(why, "REL", cls, 1))
			}
			w.modelHighest = &s
		}
		if asHist {
			if ok, why := replaceOK(w.modelHist[s.Height], &s); !ok {
				w.viol("historical-instance-replaced-illegally", s.Kind+"/"+cls, step+": stored instance of height "+fmt.Sprint(s.Height)+": "+strings.Replace(why, "REL", cls, 1))
			}
			w.modelHist[s.Height] = &s
		}
	}
	w.pendingSaves = nil
	// read-back: the database must show exactly the model's highest
	inner := ibftstorage.New(w.fdb.Inner(), w.prefix)
	hi, err := inner.GetHighestInstance(w.id[:])
	if err != nil {
		w.viol("highest-instance-unreadable", "read-back", step+": "+err.Error())
		return
	}
	switch {
	case hi == nil && w.modelHighest != nil:
		w.viol("highest-instance-lost", "read-back", step+fmt.Sprintf(": store holds no highest instance, expected height %d", w.modelHighest.Height))
	case hi != nil && w.modelHighest == nil:
		w.viol("highest-instance-appeared", "read-back", step+": store holds a highest instance no completed write put there")
	case hi != nil:
		if hi.State.Height != w.modelHighest.Height || !bytes.Equal(encCert(hi.DecidedMessage), encCert(w.modelHighest.Cert)) {
			w.viol("highest-instance-differs-from-last-write", "read-back", step+fmt.Sprintf(": store holds height %d signers %v, last completed write was height %d signers %v",
				hi.State.Height, hi.DecidedMessage.Signers, w.modelHighest.Height, w.modelHighest.Cert.Signers))
		}
		if err := oracle.Certificate(w.ks, w.n, qsim.Domain, w.id[:], hi.State.Height, hi.DecidedMessage); err != nil {
			w.viol("stored-highest-without-valid-certificate", "read-back", step+": "+err.Error())
		}
	}
}

func (w *world) noteDecided(h specqbft.Height, late bool) {
	if w.stepDecided == nil {
		w.stepDecided = map[specqbft.Height]bool{}
	}
	if _, ok := w.stepDecided[h]; !ok {
		w.stepDecided[h] = late
	}
}

func (w *world) learned(h specqbft.Height) {
	if int64(h) > w.lifetimeMax {
		w.lifetimeMax = int64(h)
	}
}

// restart does what Validator.Start does with a fresh runner/controller on the same database.
func (w *world) restart(why string) {
	w.restarts++
	w.inj.Revive()
	w.inj.DropOpenTxns()
	w.boot(0)
	var stored *qbftstorage.StoredInstance
	inner := ibftstorage.New(w.fdb.Inner(), w.prefix)
	stored, _ = inner.GetHighestInstance(w.id[:])
	hi, err := w.ctrl.LoadHighestInstance(w.id[:])
	if err == nil && hi != nil {
		dv := &spectypes.ConsensusData{}
		if err := dv.Decode(hi.State.DecidedValue); err == nil {
			w.run.GetBaseRunner().SetHighestDecidedSlot(dv.Duty.Slot)
		}
	}
	w.hist = append(w.hist, fmt.Sprintf("RESTART (%s): controller height %d", why, w.ctrl.Height))
	// "the highest decided instance survives a restart: after restart the runner resumes with that height"
	var top int64 = -1
	for h := range w.decidedLate {
		if int64(h) > top {
			top = int64(h)
		}
	}
	if top >= 0 && (int64(w.ctrl.Height) < top || (stored == nil)) {
		allLate, viaHistory := true, false
		for h, late := range w.decidedLate {
			if int64(h) > int64(w.ctrl.Height) && !late {
				if w.firstSeenLate[h] && w.fullNode {
					// S15 once removed: the certificate was first written (as a historical record only) while a higher height was
					// started, the node crashed, and when the certificate came again the full node answered it from that record
					// without storing anything as highest
					viaHistory = true
				} else {
					allLate = false
				}
			}
		}
		sig := "other"
		if allLate && viaHistory {
			sig = "decided-first-written-below-a-started-height-then-answered-from-the-historical-record"
		} else if allLate && stored != nil {
			sig = "decided-learned-for-a-height-below-the-one-already-started-is-not-stored-as-highest"
		} else if allLate {
			sig = "decided-learned-below-started-height-and-nothing-stored"
		}
		w.viol("restart-resumes-below-highest-decided", sig, fmt.Sprintf("heights learned as decided (in completed steps) go up to %d, after the restart the controller resumes at height %d (stored highest: %v)",
			top, w.ctrl.Height, stored != nil))
	}
	// new lifetime: what binds the runner now is the persisted highest decided height
	w.lifetimeMax = -1
	if stored != nil {
		w.lifetimeMax = int64(stored.State.Height)
		if w.ctrl.Height != stored.State.Height {
			w.viol("restart-does-not-resume-at-stored-height", "LoadHighestInstance",
				fmt.Sprintf("stored highest decided height %d, controller height after restart %d (err=%v)", stored.State.Height, w.ctrl.Height, err))
		}
	}
}

func (w *world) signersFor(rng interface{ Perm(int) []int }, k int) []spectypes.OperatorID {
	p := rng.Perm(w.n)[:k]
	sort.Ints(p)
	var s []spectypes.OperatorID
	for _, i := range p {
		s = append(s, spectypes.OperatorID(i+1))
	}
	return s
}

// step kinds
const (
	stStart = iota
	stCert
	stLocal
	stRestart
)

type stepPlan struct {
	Kind    int
	Slot    int64
	Signers []spectypes.OperatorID
	Variant byte
	Round   specqbft.Round
}

func (w *world) doStart(slot phase0.Slot) {
	before := w.lifetimeMax
	err := w.run.StartNewDuty(w.lg, w.duty(slot))
	w.hist = append(w.hist, fmt.Sprintf("StartNewDuty(slot %d) -> err=%v (controller height %d)", slot, err, w.ctrl.Height))
	if err == nil {
		if int64(slot) <= before {
			w.viol("duty-rerun", "StartNewDuty", fmt.Sprintf("StartNewDuty(slot %d) was accepted although height %d had already been started or learned as decided (persisted highest if after a restart)", slot, before))
		}
		w.learned(specqbft.Height(slot))
	} else {
		w.refusedStarts++
	}
}

func (w *world) doCert(h specqbft.Height, round specqbft.Round, signers []spectypes.OperatorID, variant byte) {
	if w.certRounds == nil {
		w.certRounds = map[specqbft.Height]map[specqbft.Round]bool{}
	}
	if w.certRounds[h] == nil {
		w.certRounds[h] = map[specqbft.Round]bool{}
	}
	w.certRounds[h][round] = true
	m := w.cert(h, round, w.value(phase0.Slot(h), variant), signers)
	heightBefore := w.ctrl.Height
	if w.firstSeenLate == nil {
		w.firstSeenLate = map[specqbft.Height]bool{}
	}
	if _, ok := w.firstSeenLate[h]; !ok {
		w.firstSeenLate[h] = heightBefore > h
	}
	err := w.run.ProcessConsensus(w.lg, m)
	w.hist = append(w.hist, fmt.Sprintf("decided certificate h%d r%d signers %v variant %d -> err=%v (controller height %d)", h, round, signers, variant, err, w.ctrl.Height))
	// the controller learned the height as decided if it now holds a decided instance for it
	if in := w.ctrl.StoredInstances.FindInstance(h); in != nil && in.State.Decided {
		w.learned(h)
		w.acceptedCerts++
		w.noteDecided(h, heightBefore > h)
	} else if err == nil && len(signers) >= w.n-(w.n-1)/3 && w.ctrl.Height >= h {
		// the certificate was processed without error and the controller stands at (or above) its height, although it holds no
		// instance object for it (a full node answers from its historical records): the height is learned as decided all the same
		w.learned(h)
		w.acceptedCerts++
		w.noteDecided(h, heightBefore > h)
		w.c.Count("certificates_learned_without_a_stored_instance_object", 1)
	}
}

// doLocal drives the running instance to a local decision with the other operators' messages.
func (w *world) doLocal() {
	h := w.ctrl.Height
	in := w.ctrl.StoredInstances.FindInstance(h)
	if in == nil || in.State.Decided || !w.run.HasRunningDuty() {
		w.hist = append(w.hist, "local-decision: no running undecided instance (skipped)")
		return
	}
	r := in.State.Round
	ld := qsim.Leader(w.n, h, r)
	var val []byte
	if ld == 1 {
		if in.State.ProposalAcceptedForCurrentRound == nil {
			// own proposal is in the captured broadcasts: loop it back
			for _, b := range w.net.out {
				sm := &specqbft.SignedMessage{}
				if b.MsgType == spectypes.SSVConsensusMsgType && sm.Decode(b.Data) == nil && sm.Message.MsgType == specqbft.ProposalMsgType && sm.Message.Height == h {
					_ = w.run.ProcessConsensus(w.lg, sm)
				}
			}
		}
	} else {
		val = w.value(phase0.Slot(h), 0)
		p := qsim.Sign(w.ks, ld, &specqbft.Message{MsgType: specqbft.ProposalMsgType, Height: h, Round: r, Identifier: w.id[:], Root: qsim.Root(val)})
		p.FullData = val
		_ = w.run.ProcessConsensus(w.lg, p)
	}
	if in.State.ProposalAcceptedForCurrentRound == nil {
		w.hist = append(w.hist, "local-decision: proposal not accepted (skipped)")
		return
	}
	root := in.State.ProposalAcceptedForCurrentRound.Message.Root
	for id := spectypes.OperatorID(2); int(id) <= w.n; id++ {
		_ = w.run.ProcessConsensus(w.lg, qsim.Sign(w.ks, id, &specqbft.Message{MsgType: specqbft.PrepareMsgType, Height: h, Round: r, Identifier: w.id[:], Root: root}))
	}
	// a certificate of round r may come into being (and be stored) inside the next calls: note the round BEFORE them, a crash
	// injected into the store write would otherwise lose this bookkeeping
	if w.certRounds == nil {
		w.certRounds = map[specqbft.Height]map[specqbft.Round]bool{}
	}
	if w.certRounds[h] == nil {
		w.certRounds[h] = map[specqbft.Round]bool{}
	}
	hadRound := w.certRounds[h][r]
	w.certRounds[h][r] = true
	for id := spectypes.OperatorID(2); int(id) <= w.n; id++ {
		_ = w.run.ProcessConsensus(w.lg, qsim.Sign(w.ks, id, &specqbft.Message{MsgType: specqbft.CommitMsgType, Height: h, Round: r, Identifier: w.id[:], Root: root}))
	}
	if !in.State.Decided && !hadRound {
		delete(w.certRounds[h], r)
	}
	w.hist = append(w.hist, fmt.Sprintf("local-decision at height %d round %d -> decided=%v", h, r, in.State.Decided))
	if in.State.Decided {
		w.learned(h)
		w.acceptedCerts++
		if w.certRounds == nil {
			w.certRounds = map[specqbft.Height]map[specqbft.Round]bool{}
		}
		if w.certRounds[h] == nil {
			w.certRounds[h] = map[specqbft.Round]bool{}
		}
		w.certRounds[h][r] = true // the locally aggregated certificate is one of round r
		w.noteDecided(h, false)
	}
}

func genPlan(c *evid.Case, n int) []stepPlan {
	rng := c.Rng
	f := (n - 1) / 3
	cur := int64(1 + rng.Intn(5))
	var plan []stepPlan
	nsteps := 12 + rng.Intn(29)
	for i := 0; i < nsteps; i++ {
		rel := []int64{-3, -1, 0, 0, 1, 1, 2, 5}[rng.Intn(8)]
		slot := cur + rel
		if slot < 0 {
			slot = 0
		}
		switch k := rng.Intn(20); {
		case k < 7:
			plan = append(plan, stepPlan{Kind: stStart, Slot: slot})
			if slot > cur {
				cur = slot
			}
		case k < 14:
			cnt := 2*f + 1 + rng.Intn(n-2*f)
			p := rng.Perm(n)[:cnt]
			sort.Ints(p)
			var s []spectypes.OperatorID
			for _, x := range p {
				s = append(s, spectypes.OperatorID(x+1))
			}
			// one value per height (two certificates for different values at one height need > f faulty operators)
			plan = append(plan, stepPlan{Kind: stCert, Slot: slot, Signers: s, Round: specqbft.Round(1 + rng.Intn(6)/5)})
			if slot > cur {
				cur = slot
			}
		case k < 17:
			plan = append(plan, stepPlan{Kind: stLocal})
		default:
			plan = append(plan, stepPlan{Kind: stRestart})
		}
	}
	return plan
}

// exec runs plan; crashAt >= 0 arms a crash at that global operation index (mode m). Returns ops used.
func (w *world) exec(plan []stepPlan, crashAt int, m faultdb.Mode) int {
	return w.execR(plan, crashAt, m, false)
}

// execR: with redeliver, a certificate whose processing was cut short by the crash is delivered again after the restart (the
// network re-broadcasts decided messages) and the node restarts once more before the history goes on.
func (w *world) execR(plan []stepPlan, crashAt int, m faultdb.Mode, redeliver bool) int {
	w.inj.Enable(true)
	if crashAt >= 0 {
		w.inj.Arm(crashAt, m)
	}
	for i, st := range plan {
		if w.violated {
			break
		}
		name := fmt.Sprintf("step %d", i)
		crash := faultdb.Recover(func() {
			switch st.Kind {
			case stStart:
				w.doStart(phase0.Slot(st.Slot))
			case stCert:
				w.doCert(specqbft.Height(st.Slot), st.Round, st.Signers, st.Variant)
			case stLocal:
				w.doLocal()
			case stRestart:
				w.settle(name, false)
				w.restart("planned")
			}
		})
		if crash != nil {
			w.crashes++
			w.hist = append(w.hist, "CRASH "+crash.String())
			w.inj.DropOpenTxns()
			w.settle(name, true)
			w.restart("after crash")
			w.c.Distinct("crash_points", evid.Hash(crash.String()))
			if redeliver && st.Kind == stCert {
				w.hist = append(w.hist, "the same certificate is delivered again")
				w.doCert(specqbft.Height(st.Slot), st.Round, st.Signers, st.Variant)
				w.settle(name+" (redelivered)", false)
				if !w.violated {
					w.restart("after the redelivery")
				}
				w.c.Count("certificates_redelivered_after_crash", 1)
			}
			continue
		}
		w.settle(name, false)
	}
	w.inj.Enable(false)
	return w.inj.Count()
}

func (w *world) finish(plan []stepPlan) {
	c := w.c
	c.Count("steps", int64(len(plan)))
	c.Count("restarts", int64(w.restarts))
	c.Count("crashes_fired", int64(w.crashes))
	c.Count("starts_refused", int64(w.refusedStarts))
	c.Count("certificates_accepted", int64(w.acceptedCerts))
	if (w.restarts > 0 || w.crashes > 0) && w.refusedStarts > 0 && w.acceptedCerts > 0 {
		h := evid.Hash(fmt.Sprint(w.hist))
		c.Nontrivial(h)
	}
}

func runHistory(c *evid.Case) {
	e := c.Data.(*env)
	n := []int{4, 7}[c.Rng.Intn(2)]
	full := c.Rng.Intn(2) == 0
	plan := genPlan(c, n)
	crashAt := -1
	mode := faultdb.CrashAfter
	if c.Rng.Intn(3) == 0 {
		crashAt = c.Rng.Intn(60)
		if c.Rng.Intn(2) == 0 {
			mode = faultdb.CrashBefore
		}
	}
	w := newWorld(c, e, n, full)
	w.execR(plan, crashAt, mode, c.Rng.Intn(2) == 0)
	w.finish(plan)
	if c.Index == 0 && c.Idx < 2 {
		c.Sample(map[string]any{"N": n, "full_node": full, "history": w.hist})
	}
}

// runCrashEnum: for one plan, every storage operation index x {before, after} as a crash point.
func runCrashEnum(c *evid.Case) {
	e := c.Data.(*env)
	n := []int{4, 7}[c.Rng.Intn(2)]
	full := c.Rng.Intn(2) == 0
	plan := genPlan(c, n)
	ref := newWorld(c, e, n, full)
	k := ref.exec(plan, -1, faultdb.None)
	ref.finish(plan)
	c.Count("crashenum_base_histories", 1)
	c.Count("crashenum_points", int64(k))
	for at := 0; at < k; at++ {
		for _, m := range []faultdb.Mode{faultdb.CrashBefore, faultdb.CrashAfter} {
			for _, redeliver := range []bool{false, true} {
				w := newWorld(c, e, n, full)
				w.execR(plan, at, m, redeliver)
				w.finish(plan)
				c.Count("crashenum_runs", 1)
				if w.violated {
					return
				}
			}
		}
	}
}
