// Package c17: round timeouts fire once per armed round, never early, never for stale rounds; stale timeout events
// change nothing at the controller (property C17).
package c17

import (
	"context"
	"fmt"
	"sync"
	"time"

	"github.com/attestantio/go-eth2-client/spec/phase0"
	specqbft "github.com/bloxapp/ssv-spec/qbft"
	spectypes "github.com/bloxapp/ssv-spec/types"

	"github.com/bloxapp/ssv/protocol/v2/qbft/roundtimer"

	"verifharness/internal/evid"
	"verifharness/internal/qrun"
	"verifharness/internal/qsim"
)

func Spec() *evid.Spec {
	return &evid.Spec{
		ID:    "C17",
		Level: "exploration",
		Rule: "lane timer (under the race detector): the real RoundTimer with a fake beacon network (slot 30-90 ms) and allowances scaled to milliseconds through the verif setter; per case one role, 2-9 armings with strictly increasing rounds " +
			"placed well before / just before / just after / long after the previous deadline or back to back, optional cancellation, 1-3 timers in parallel; arm calls and callbacks are logged on one monotonic clock. Oracle: <=1 callback per arming, never a callback for an unarmed round, " +
			"callback time >= the role's deadline (slot start + base + cumulative allowance; proposer: arm time + allowance), no callback for round r if a higher round's arm call returned before r's deadline. " +
			"lane controller: on states reached by adversarial prefixes, timeout events for lower rounds, other heights, duplicates, and for a decided instance must leave State.GetRoot(), round, broadcasts and timer arms unchanged. " +
			"Non-trivial = timer case with at least one re-arm before expiry and one observed callback / controller case with a stale event on an instance past round 1 or decided; distinct = (role, spacing pattern) / (state class, event class)",
		Assumptions: []string{
			"'never early' and 'superseded' verdicts use real time but are one-directional: load can only delay callbacks, never make them early; the statement has no 'must fire' clause, missing callbacks are only counted (a run that observed no callback at all is inconclusive)",
			"cancellation semantics are not part of the statement: callbacks after cancellation are only counted",
		},
		MinNontrivial: 60,
		Lanes: []evid.Lane{
			{Name: "timer", Race: true, Children: evid.Const(16, 16), Cases: evid.Const(60, 1500), TimeoutS: evid.Const(900, 7200), Run: runTimer},
			{Name: "controller", Children: evid.Const(8, 16), Cases: evid.Const(30, 800), TimeoutS: evid.Const(900, 7200),
				Setup: func(ch *evid.Child) { ch.Data = qsim.NewEnv() }, Run: runController},
		},
	}
}

// ---- timer lane -----------------------------------------------------------------------------------

type fakeNet struct {
	base    time.Time
	slotDur time.Duration
}

func (f *fakeNet) GetSlotStartTime(slot phase0.Slot) time.Time {
	return f.base.Add(time.Duration(slot) * f.slotDur)
}
func (f *fakeNet) SlotDurationSec() time.Duration { return f.slotDur }

type armRec struct {
	Round    specqbft.Round
	Call     time.Duration // since t0
	Ret      time.Duration
	Deadline time.Duration // oracle's deadline for this arming, since t0
}
type cbRec struct {
	Round specqbft.Round
	At    time.Duration
}

type timerRun struct {
	mu   sync.Mutex
	t0   time.Time
	arms []armRec
	cbs  []cbRec
}

func (r *timerRun) now() time.Duration { return time.Since(r.t0) }

var roles = []spectypes.BeaconRole{spectypes.BNRoleAttester, spectypes.BNRoleSyncCommittee, spectypes.BNRoleAggregator,
	spectypes.BNRoleSyncCommitteeContribution, spectypes.BNRoleProposer}

// allowance: the oracle's own reading of the documented rule.
func cumulative(r specqbft.Round, thr specqbft.Round, quick, slow time.Duration) time.Duration {
	if r <= thr {
		return time.Duration(r) * quick
	}
	return time.Duration(thr)*quick + time.Duration(r-thr)*slow
}

type scenario struct {
	Role    spectypes.BeaconRole
	SlotDur time.Duration
	Thr     specqbft.Round
	Quick   time.Duration
	Slow    time.Duration
	Height  specqbft.Height
	Rounds  []specqbft.Round
	Spacing []int // per arming after the first: 0 well before previous deadline, 1 just before, 2 just after, 3 long after, 4 back to back
	Cancel  int   // -1 no cancel; else cancel after arming index
	Scale   int   // wait multiplier for the final "must fire" wait
}

func (s *scenario) deadline(slotStart time.Duration, round specqbft.Round, armCall time.Duration) time.Duration {
	switch s.Role {
	case spectypes.BNRoleAttester, spectypes.BNRoleSyncCommittee:
		return slotStart + s.SlotDur/3 + cumulative(round, s.Thr, s.Quick, s.Slow)
	case spectypes.BNRoleAggregator, spectypes.BNRoleSyncCommitteeContribution:
		return slotStart + s.SlotDur/3*2 + cumulative(round, s.Thr, s.Quick, s.Slow)
	default:
		if round <= s.Thr {
			return armCall + s.Quick
		}
		return armCall + s.Slow
	}
}

type finding struct{ kind, sig, detail string }

// play runs one timer through the scenario and returns findings plus whether a "must fire" was missed.
func play(s *scenario) (*timerRun, []finding, bool) {
	run := &timerRun{t0: time.Now()}
	ctx, cancel := context.WithCancel(context.Background())
	defer cancel()
	// the duty's slot starts a little in the future or the past
	slotStart := 2 * time.Millisecond
	net := &fakeNet{base: run.t0.Add(slotStart).Add(-time.Duration(s.Height) * s.SlotDur), slotDur: s.SlotDur}
	tm := roundtimer.New(ctx, net, s.Role, func(round specqbft.Round) {
		at := run.now()
		run.mu.Lock()
		run.cbs = append(run.cbs, cbRec{round, at})
		run.mu.Unlock()
	})
	tm.VerifSetTimeouts(s.Thr, s.Quick, s.Slow)
	var cancelledAt time.Duration = -1
	var prevDeadline time.Duration
	for i, r := range s.Rounds {
		if i > 0 {
			// place this arming relative to the previous deadline
			var target time.Duration
			switch s.Spacing[i] {
			case 0:
				target = prevDeadline - (s.Quick*3)/2
			case 1:
				target = prevDeadline - 300*time.Microsecond
			case 2:
				target = prevDeadline + 300*time.Microsecond
			case 3:
				target = prevDeadline + 3*s.Quick
			default:
				target = 0 // back to back: re-arm immediately, without a scheduling point in between
			}
			if d := target - run.now(); d > 0 {
				time.Sleep(d)
			}
		}
		call := run.now()
		tm.TimeoutForRound(s.Height, r)
		ret := run.now()
		dl := s.deadline(slotStart, r, call)
		run.mu.Lock()
		run.arms = append(run.arms, armRec{r, call, ret, dl})
		run.mu.Unlock()
		prevDeadline = dl
		if s.Cancel == i {
			cancel()
			cancelledAt = run.now()
			break
		}
	}
	// wait generously for the last arming (and any stragglers)
	wait := prevDeadline - run.now() + time.Duration(s.Scale)*150*time.Millisecond
	if wait > 0 {
		time.Sleep(wait)
	}
	cancel()
	run.mu.Lock()
	defer run.mu.Unlock()
	var fs []finding
	missed := false
	armed := map[specqbft.Round]armRec{}
	for _, a := range run.arms {
		armed[a.Round] = a
	}
	count := map[specqbft.Round]int{}
	for _, cb := range run.cbs {
		count[cb.Round]++
		a, ok := armed[cb.Round]
		if !ok {
			fs = append(fs, finding{"callback-for-unarmed-round", roleName(s.Role), fmt.Sprintf("callback for round %d which was never armed", cb.Round)})
			continue
		}
		if cb.At < a.Deadline {
			fs = append(fs, finding{"callback-before-deadline", roleName(s.Role),
				fmt.Sprintf("role %s round %d: callback at %v, deadline %v (slot start %v + base + cumulative allowance; armed at %v)", roleName(s.Role), cb.Round, cb.At, a.Deadline, slotStart, a.Call)})
		}
		for _, hi := range run.arms {
			if hi.Round > cb.Round && hi.Ret < a.Deadline {
				fs = append(fs, finding{"stale-callback-after-rearm", roleName(s.Role),
					fmt.Sprintf("role %s: callback for round %d at %v although round %d had been armed (call returned %v) before round %d's deadline %v", roleName(s.Role), cb.Round, cb.At, hi.Round, hi.Ret, cb.Round, a.Deadline)})
				break
			}
		}
	}
	for r, n := range count {
		if n > 1 {
			fs = append(fs, finding{"more-than-one-callback-per-arming", roleName(s.Role), fmt.Sprintf("round %d armed once, %d callbacks", r, n)})
		}
	}
	// must fire: armings not superseded before their deadline and not cancelled before it
	for i, a := range run.arms {
		superseded := false
		for _, hi := range run.arms[i+1:] {
			if hi.Call <= a.Deadline+2*time.Millisecond { // a re-arm at (or racing with) the deadline may legitimately win
				superseded = true
			}
		}
		if superseded || (cancelledAt >= 0 && cancelledAt <= a.Deadline+2*time.Millisecond) {
			continue
		}
		if count[a.Round] == 0 {
			missed = true
		}
	}
	// hand back a private snapshot: late expiry goroutines may still append to run.cbs after this point
	snap := &timerRun{t0: run.t0, arms: append([]armRec{}, run.arms...), cbs: append([]cbRec{}, run.cbs...)}
	return snap, fs, missed
}

func roleName(r spectypes.BeaconRole) string { return r.String() }

func genScenario(c *evid.Case) *scenario {
	rng := c.Rng
	s := &scenario{
		Role:    roles[rng.Intn(len(roles))],
		SlotDur: time.Duration(30+rng.Intn(61)) * time.Millisecond,
		Thr:     specqbft.Round(2 + rng.Intn(4)),
		Quick:   time.Duration(3+rng.Intn(6)) * time.Millisecond,
		Slow:    time.Duration(20+rng.Intn(41)) * time.Millisecond,
		Height:  specqbft.Height(rng.Intn(1000)),
		Cancel:  -1,
		Scale:   1,
	}
	n := 2 + rng.Intn(8)
	r := specqbft.Round(1)
	for i := 0; i < n; i++ {
		s.Rounds = append(s.Rounds, r)
		s.Spacing = append(s.Spacing, rng.Intn(5))
		r += specqbft.Round(1 + rng.Intn(10)/8) // mostly consecutive, sometimes a jump
	}
	if rng.Intn(6) == 0 {
		s.Cancel = rng.Intn(n)
	}
	return s
}

func runTimer(c *evid.Case) {
	s := genScenario(c)
	par := 1 + c.Rng.Intn(3)
	type out struct {
		run    *timerRun
		fs     []finding
		missed bool
	}
	outs := make([]out, par)
	var wg sync.WaitGroup
	for i := 0; i < par; i++ {
		wg.Add(1)
		go func(i int) {
			defer wg.Done()
			r, fs, m := play(s)
			outs[i] = out{r, fs, m}
		}(i)
	}
	wg.Wait()
	rearm, cbs := false, 0
	for i := 1; i < len(s.Spacing); i++ {
		if s.Spacing[i] <= 1 || s.Spacing[i] == 4 {
			rearm = true
		}
	}
	for _, o := range outs {
		cbs += len(o.run.cbs)
		c.Count("timer_armings", int64(len(o.run.arms)))
		c.Count("timer_callbacks", int64(len(o.run.cbs)))
		for _, f := range o.fs {
			c.Violation(f.kind, f.sig, f.detail, map[string]any{"scenario": s, "arms": o.run.arms, "callbacks": o.run.cbs})
		}
		if o.missed {
			// The statement has no "must fire" clause (an earlier version of this oracle demanded one: under load the expiry
			// goroutine can wake after a later re-arm and is then legitimately suppressed). Counted, never a verdict.
			c.Count("timer_armings_without_callback_although_not_superseded_before_deadline (counted only)", 1)
		}
	}
	c.Count("timer_scenarios", 1)
	c.Count("timers_run", int64(par))
	if s.Cancel >= 0 {
		c.Count("timer_scenarios_with_cancel", 1)
	}
	if rearm && cbs > 0 {
		h := evid.Hash(s.Role, fmt.Sprint(s.Spacing), fmt.Sprint(s.Rounds), s.Cancel)
		c.Nontrivial(h)
		c.Distinct("timer_spacing_patterns", evid.Hash(s.Role, fmt.Sprint(s.Spacing)))
	}
	if c.Index == 0 && c.Idx < 2 {
		c.Sample(map[string]any{"scenario": s, "arms": outs[0].run.arms, "callbacks": outs[0].run.cbs})
	}
}

// ---- controller lane ------------------------------------------------------------------------------

func runController(c *evid.Case) {
	env := c.Data.(*qsim.Env)
	rng := c.Rng
	cfg := qrun.GenConfig(rng, "quick")
	cfg.MaxSteps = rng.Intn(70 * cfg.N)
	cl := qsim.NewCluster(env, rng, cfg)
	cl.StartAll()
	for cl.Step() {
	}
	for _, nd := range cl.Honest() {
		st := nd.Inst()
		if st == nil {
			continue
		}
		inst := nd.Ctrl.StoredInstances.FindInstance(cfg.Height)
		if rng.Intn(6) == 0 && !st.Decided {
			inst.ForceStop()
		}
		type ev struct {
			name string
			h    specqbft.Height
			r    specqbft.Round
		}
		var evs []ev
		for r := specqbft.Round(0); r < st.Round; r++ {
			evs = append(evs, ev{"lower-round", cfg.Height, r})
		}
		evs = append(evs, ev{"other-height", cfg.Height + 1, st.Round}, ev{"other-height", cfg.Height + 7, 1})
		if cfg.Height > 0 {
			evs = append(evs, ev{"other-height", cfg.Height - 1, st.Round})
		}
		if st.Decided {
			evs = append(evs, ev{"decided-instance", cfg.Height, st.Round}, ev{"decided-instance", cfg.Height, st.Round + 1})
		}
		rng.Shuffle(len(evs), func(i, j int) { evs[i], evs[j] = evs[j], evs[i] })
		if len(evs) > 6 {
			evs = evs[:6]
		}
		if !st.Decided && int(st.Round) < 12 && rng.Intn(2) == 0 {
			// a genuine timeout followed by its duplicate: the duplicate is then a lower-round event
			evs = append(evs, ev{"genuine", cfg.Height, st.Round}, ev{"duplicate", cfg.Height, st.Round})
		}
		for _, e := range evs {
			st = nd.Inst()
			rootB, _ := st.GetRoot()
			roundB, arms, outs := st.Round, nd.Arms, len(nd.AllOut)
			decidedB := st.Decided
			err := cl.FireTimeoutFor(nd, e.h, e.r)
			if e.name == "genuine" {
				continue
			}
			c.Count("controller_stale_events", 1)
			c.Count("controller_event_"+e.name, 1)
			st2 := nd.Inst()
			rootA, _ := st2.GetRoot()
			class := "undecided"
			if decidedB {
				class = "decided"
			}
			if roundB > 1 || decidedB {
				c.Nontrivial(evid.Hash("ctrl", cfg.N, class, e.name, roundB, e.r))
				c.Distinct("controller_state_x_event", evid.Hash(class, e.name, roundB > 1))
			}
			if rootA != rootB || st2.Round != roundB || nd.Arms != arms || len(nd.AllOut) != outs {
				c.Violation("stale-timeout-event-changed-state", e.name+"/"+class,
					fmt.Sprintf("N=%d node %d (%s, round %d): timeout event (height %d, round %d) [%s] changed something: root changed=%v round %d->%d timer arms %d->%d broadcasts %d->%d (err=%v)",
						cfg.N, nd.ID, class, roundB, e.h, e.r, e.name, rootA != rootB, roundB, st2.Round, arms, nd.Arms, outs, len(nd.AllOut), err),
					map[string]any{"config": cfg, "prefix_actions": tailStr(cl.Acts, 50)})
			}
		}
	}
	// the next duty: a second instance (height+1) is started on the same controller, which force-stops the previous one but
	// keeps it stored; timeout events still stamped with the previous height (the timer is shared, its callback is re-registered
	// per duty) must change nothing - neither instance, no re-arming, no broadcast
	for _, nd := range cl.Honest() {
		old := nd.Ctrl.StoredInstances.FindInstance(cfg.Height)
		if old == nil || rng.Intn(2) == 0 {
			continue
		}
		if err := nd.Ctrl.StartNewInstance(env.Logger, cfg.Height+1, nd.Start); err != nil {
			continue
		}
		nd.Outbox = nil
		cur := nd.Ctrl.StoredInstances.FindInstance(cfg.Height + 1)
		if cur == nil || nd.Ctrl.StoredInstances.FindInstance(cfg.Height) == nil {
			continue
		}
		class := "undecided"
		if old.State.Decided {
			class = "decided"
		}
		for _, r := range []specqbft.Round{old.State.Round, old.State.Round + 1, 1} {
			oldB, _ := old.State.GetRoot()
			curB, _ := cur.State.GetRoot()
			arms, outs := nd.Arms, len(nd.AllOut)
			err := cl.FireTimeoutFor(nd, cfg.Height, r)
			nd.Outbox = nil
			c.Count("controller_stale_events", 1)
			c.Count("controller_event_previous-height-instance", 1)
			c.Nontrivial(evid.Hash("ctrl-prev", cfg.N, class, old.State.Round, r))
			c.Distinct("controller_state_x_event", evid.Hash(class, "previous-height-instance", old.State.Round > 1))
			oldA, _ := old.State.GetRoot()
			curA, _ := cur.State.GetRoot()
			if oldA != oldB || curA != curB || nd.Arms != arms || len(nd.AllOut) != outs {
				c.Violation("stale-timeout-event-changed-state", "previous-height-instance/"+class,
					fmt.Sprintf("N=%d node %d: a second instance (height %d) is running; timeout event (height %d, round %d) for the stored, stopped previous instance (%s, round %d) changed something: previous instance changed=%v running instance changed=%v timer arms %d->%d broadcasts %d->%d (err=%v)",
						cfg.N, nd.ID, cfg.Height+1, cfg.Height, r, class, old.State.Round, oldA != oldB, curA != curB, arms, nd.Arms, outs, len(nd.AllOut), err),
					map[string]any{"config": cfg, "prefix_actions": tailStr(cl.Acts, 50)})
				break
			}
		}
	}
	if c.Index == 0 && c.Idx == 0 {
		c.Sample(map[string]any{"lane": "controller", "config": cfg, "state": cl.AbstractState()})
	}
}

func tailStr(a []string, n int) []string {
	if len(a) > n {
		return a[len(a)-n:]
	}
	return a
}
