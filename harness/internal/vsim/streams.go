package vsim

import (
	"crypto/sha256"
	"fmt"
	"math/rand"
	"time"

	"github.com/attestantio/go-eth2-client/spec/phase0"
	specqbft "github.com/bloxapp/ssv-spec/qbft"
	spectypes "github.com/bloxapp/ssv-spec/types"
	pubsub "github.com/libp2p/go-libp2p-pubsub"

	"verifharness/internal/qsim"
)

// Msg is one honest broadcast together with the time at which a peer receives it.
type Msg struct {
	Val    *Val
	Role   spectypes.BeaconRole
	SSV    *spectypes.SSVMessage
	Cons   *specqbft.SignedMessage                  // body of a consensus message (nil otherwise)
	Part   *spectypes.SignedPartialSignatureMessage // body of a partial-signature message (nil otherwise)
	Sender spectypes.OperatorID                     // the operator that broadcasts it (signs the envelope)
	Slot   phase0.Slot
	At     time.Time // reception time, inside the slot / round window of the message
	wire   [2][]byte
	Tag    string // coarse shape: "proposal/r1", "proposal/r3/justified", "round-change/r2/prepared", "decided/r1", "pre/randao", "post"
}

func (m *Msg) Round() specqbft.Round {
	if m.Cons != nil {
		return m.Cons.Message.Round
	}
	return 0
}

// WireBytes are the bytes on pubsub for this message in the given envelope phase (cached: the message must not be
// mutated afterwards; Clone drops the cache).
func (m *Msg) WireBytes(w *World, post bool) []byte {
	i := 0
	if post {
		i = 1
	}
	if m.wire[i] == nil {
		m.wire[i] = w.Wire(m.SSV, m.Sender, post)
	}
	return m.wire[i]
}

// Pubsub is the honest pubsub message (own topic, sender's envelope).
func (m *Msg) Pubsub(w *World, post bool) *pubsub.Message {
	return Pubsub(m.Val.Topic(), m.WireBytes(w, post))
}

// Clone returns a deep copy of the message bodies (mutators work on copies).
func (m *Msg) Clone() *Msg {
	c := *m
	c.wire = [2][]byte{}
	ssv := *m.SSV
	ssv.Data = append([]byte(nil), m.SSV.Data...)
	c.SSV = &ssv
	if m.Cons != nil {
		cp := &specqbft.SignedMessage{}
		enc, err := m.Cons.Encode()
		mustNil(err)
		mustNil(cp.Decode(enc))
		c.Cons = cp
	}
	if m.Part != nil {
		cp := &spectypes.SignedPartialSignatureMessage{}
		enc, err := m.Part.Encode()
		mustNil(err)
		mustNil(cp.Decode(enc))
		c.Part = cp
	}
	return &c
}

// Reencode refreshes SSV.Data (and the message id) from the body after a mutation.
func (m *Msg) Reencode() error {
	var enc []byte
	var err error
	if m.Cons != nil {
		enc, err = m.Cons.Encode()
	} else if m.Part != nil {
		enc, err = m.Part.Encode()
	}
	if err != nil {
		return err
	}
	m.SSV.Data = enc
	return nil
}

// ---- round / slot timing (generator side; oracles have their own arithmetic) -------------------------------------

const (
	quickTimeout   = 2 * time.Second
	slowTimeout    = 2 * time.Minute
	quickThreshold = 8
)

// RoundStart is the offset from the slot start at which round r begins for the gate's round estimate.
func RoundStart(r specqbft.Round) time.Duration {
	if r <= 1 {
		return 0
	}
	if r <= quickThreshold+1 {
		return time.Duration(r-1) * quickTimeout
	}
	return quickThreshold*quickTimeout + time.Duration(r-quickThreshold-1)*slowTimeout
}

// MaxRound of a role (as documented by the gate: 12 for attester / aggregator, 6 for proposer / sync committee roles).
func MaxRound(role spectypes.BeaconRole) specqbft.Round {
	switch role {
	case spectypes.BNRoleAttester, spectypes.BNRoleAggregator:
		return 12
	case spectypes.BNRoleProposer, spectypes.BNRoleSyncCommittee, spectypes.BNRoleSyncCommitteeContribution:
		return 6
	}
	return 0
}

// TTLSlots is the number of slots after its own during which a message of the role is still timely.
func TTLSlots(role spectypes.BeaconRole) uint64 {
	switch role {
	case spectypes.BNRoleProposer, spectypes.BNRoleSyncCommittee, spectypes.BNRoleSyncCommitteeContribution:
		return 3
	case spectypes.BNRoleAttester, spectypes.BNRoleAggregator:
		return 34
	}
	return 1 << 40 // validator registration / voluntary exit: never late
}

var ConsensusRoles = []spectypes.BeaconRole{spectypes.BNRoleAttester, spectypes.BNRoleAggregator, spectypes.BNRoleProposer,
	spectypes.BNRoleSyncCommittee, spectypes.BNRoleSyncCommitteeContribution}

var AllRoles = []spectypes.BeaconRole{spectypes.BNRoleAttester, spectypes.BNRoleAggregator, spectypes.BNRoleProposer,
	spectypes.BNRoleSyncCommittee, spectypes.BNRoleSyncCommitteeContribution, spectypes.BNRoleValidatorRegistration, spectypes.BNRoleVoluntaryExit}

// PreConsensusType of a role (ok=false: the role has no pre-consensus phase).
func PreConsensusType(role spectypes.BeaconRole) (spectypes.PartialSigMsgType, bool) {
	switch role {
	case spectypes.BNRoleProposer:
		return spectypes.RandaoPartialSig, true
	case spectypes.BNRoleAggregator:
		return spectypes.SelectionProofPartialSig, true
	case spectypes.BNRoleSyncCommitteeContribution:
		return spectypes.ContributionProofs, true
	case spectypes.BNRoleValidatorRegistration:
		return spectypes.ValidatorRegistrationPartialSig, true
	case spectypes.BNRoleVoluntaryExit:
		return spectypes.VoluntaryExitPartialSig, true
	}
	return 0, false
}

// ---- partial-signature messages -----------------------------------------------------------------------------------

// SignPartial builds a correctly signed partial-signature message of operator id (nroots partial signatures).
func SignPartial(v *Val, id spectypes.OperatorID, t spectypes.PartialSigMsgType, slot phase0.Slot, nroots int, label string) *spectypes.SignedPartialSignatureMessage {
	msgs := spectypes.PartialSignatureMessages{Type: t, Slot: slot}
	for i := 0; i < nroots; i++ {
		root := sha256.Sum256([]byte(fmt.Sprintf("%s/%d/%d/%d", label, t, slot, i)))
		sig := v.KS.Shares[id].SignByte(root[:])
		msgs.Messages = append(msgs.Messages, &spectypes.PartialSignatureMessage{PartialSignature: sig.Serialize(), SigningRoot: root, Signer: id})
	}
	sm := &spectypes.SignedPartialSignatureMessage{Message: msgs, Signer: id}
	SignPartialOuter(v, sm, id)
	return sm
}

// SignPartialOuter (re)computes the operator's signature over the partial-signature container with share key `key`.
func SignPartialOuter(v *Val, sm *spectypes.SignedPartialSignatureMessage, key spectypes.OperatorID) {
	r, err := spectypes.ComputeSigningRoot(sm.Message, spectypes.ComputeSignatureDomain(Domain, spectypes.PartialSignatureType))
	if err != nil || v.KS.Shares[key] == nil {
		sm.Signature = make([]byte, 96)
		sm.Signature[0] = 1
		return
	}
	sm.Signature = v.KS.Shares[key].SignByte(r[:]).Serialize()
}

func (w *World) partialMsg(v *Val, role spectypes.BeaconRole, id spectypes.OperatorID, t spectypes.PartialSigMsgType, slot phase0.Slot, nroots int, at time.Time, tag string) *Msg {
	sm := SignPartial(v, id, t, slot, nroots, tag)
	enc, err := sm.Encode()
	mustNil(err)
	return &Msg{Val: v, Role: role, Part: sm, Sender: id, Slot: slot, At: at, Tag: tag,
		SSV: &spectypes.SSVMessage{MsgType: spectypes.SSVPartialSignatureMsgType, MsgID: v.MsgID(role), Data: enc}}
}

// ConsMsg wraps a consensus body into a Msg.
func ConsMsg(v *Val, role spectypes.BeaconRole, sm *specqbft.SignedMessage, sender spectypes.OperatorID, at time.Time, tag string) *Msg {
	enc, err := sm.Encode()
	mustNil(err)
	return &Msg{Val: v, Role: role, Cons: sm, Sender: sender, Slot: phase0.Slot(sm.Message.Height), At: at, Tag: tag,
		SSV: &spectypes.SSVMessage{MsgType: spectypes.SSVConsensusMsgType, MsgID: v.MsgID(role), Data: enc}}
}

// ---- duties -----------------------------------------------------------------------------------------------------------

// Profile of one duty's consensus: the instance decides in round Target; from round PreparedFrom on (0 = never before
// Target) the operators see proposal and prepares of every round (so they are prepared and later round-changes /
// proposals carry justifications) but never the commits.
type Profile struct {
	Target       int
	PreparedFrom int
}

func (p Profile) String() string { return fmt.Sprintf("t%dp%d", p.Target, p.PreparedFrom) }

func consTag(sm *specqbft.SignedMessage) string {
	t := "?"
	switch sm.Message.MsgType {
	case specqbft.ProposalMsgType:
		t = "proposal"
	case specqbft.PrepareMsgType:
		t = "prepare"
	case specqbft.CommitMsgType:
		t = "commit"
		if len(sm.Signers) > 1 {
			t = "decided"
		}
	case specqbft.RoundChangeMsgType:
		t = "round-change"
	}
	s := fmt.Sprintf("%s/r%d", t, sm.Message.Round)
	if sm.Message.MsgType == specqbft.ProposalMsgType && len(sm.Message.RoundChangeJustification) > 0 {
		s += "/justified"
		if len(sm.Message.PrepareJustification) > 0 {
			s += "+prepares"
		}
	}
	if sm.Message.MsgType == specqbft.RoundChangeMsgType && sm.Message.DataRound != 0 {
		s += "/prepared"
	}
	return s
}

// Duty produces the honest broadcasts of one duty of validator v (committee = all N operators, no faults): optional
// pre-consensus partial signatures, the consensus messages of a real qsim execution scripted by prof, post-consensus
// partial signatures. Reception times are chosen inside each message's window and are non-decreasing.
func (w *World) Duty(v *Val, role spectypes.BeaconRole, slot phase0.Slot, prof Profile) []*Msg {
	key := fmt.Sprintf("%s/%d/%d/%s", v.Kind, role, slot, prof)
	if s, ok := w.streams[key]; ok {
		return s
	}
	var out []*Msg
	if base := w.rawVal(v.N); base != v {
		// qsim addresses the key set's own validator key: every other validator gets the honest duty of that
		// committee re-addressed (identifier, message id) and re-signed with the same share keys
		for _, m := range w.Duty(base, role, slot, prof) {
			out = append(out, Retarget(m, v))
		}
		if role == spectypes.BNRoleProposer {
			w.AddProposerDuty(v, slot)
		}
		w.streams[key] = out
		return out
	}
	t0 := w.Beacon.GetSlotStartTime(slot)
	tick := 0
	at := func(off time.Duration) time.Time {
		tick++
		return t0.Add(off + time.Duration(tick)*2*time.Millisecond)
	}
	if role == spectypes.BNRoleProposer {
		w.AddProposerDuty(v, slot)
	}
	if t, ok := PreConsensusType(role); ok {
		n := 1
		if t == spectypes.ContributionProofs {
			n = 3
		}
		for id := 1; id <= v.N; id++ {
			out = append(out, w.partialMsg(v, role, spectypes.OperatorID(id), t, slot, n, at(100*time.Millisecond), "pre/"+fmt.Sprint(t)))
		}
	}
	if MaxRound(role) > 0 {
		cons := w.consensus(v, role, slot, prof)
		var last time.Duration
		for _, cm := range cons {
			off := RoundStart(cm.sm.Message.Round) + 150*time.Millisecond
			if off < last {
				off = last // a decided message of an earlier round emitted late keeps the order of emission
			}
			last = off
			out = append(out, ConsMsg(v, role, cm.sm, cm.from, at(off), consTag(cm.sm)))
		}
		for id := 1; id <= v.N; id++ {
			n := 1
			if role == spectypes.BNRoleSyncCommitteeContribution {
				n = 3
			}
			out = append(out, w.partialMsg(v, role, spectypes.OperatorID(id), spectypes.PostConsensusPartialSig, slot, n, at(last+300*time.Millisecond), "post"))
		}
	}
	w.streams[key] = out
	return out
}

// rawVal is the validator qsim natively addresses for committee size n: the registered KnownN when the key sets'
// validator key is registered with that committee, otherwise a pseudo validator carrying the key sets' key and the
// n-operator committee, whose streams are only ever used re-addressed (Retarget).
func (w *World) rawVal(n int) *Val {
	if n == w.native {
		if n == 7 {
			return w.Vals[Known7]
		}
		return w.Vals[Known4]
	}
	if w.raw[n] == nil {
		ks := qsim.KeySet(n)
		kind := Known4
		if n == 7 {
			kind = Known7
		}
		w.raw[n] = &Val{Kind: kind, N: n, KS: ks, PK: ks.ValidatorPK.Serialize()}
	}
	return w.raw[n]
}

type consOut struct {
	sm   *specqbft.SignedMessage
	from spectypes.OperatorID
}

// consensus runs a real N-operator QBFT execution (qsim: real controllers, real BLS keys) for (v, role, slot) scripted
// by prof and returns every broadcast in order of emission with its broadcaster.
func (w *World) consensus(v *Val, role spectypes.BeaconRole, slot phase0.Slot, prof Profile) []consOut {
	rng := rand.New(rand.NewSource(int64(slot)*31 + int64(role)))
	c := qsim.NewCluster(w.QEnv, rng, qsim.Config{N: v.N, Height: specqbft.Height(slot), Role: role, Policy: 2, MaxSteps: 1 << 30, MaxRound: 64})
	// qsim addresses the committee's validator; variant validators reuse the committee keys under their own id
	c.StartAll()
	isType := func(ts ...specqbft.MessageType) func(f *qsim.Flight) bool {
		return func(f *qsim.Flight) bool {
			for _, t := range ts {
				if f.Msg.Message.MsgType == t {
					return true
				}
			}
			return false
		}
	}
	all := func(*qsim.Flight) bool { return true }
	for r := 1; r < prof.Target; r++ {
		if prof.PreparedFrom != 0 && r >= prof.PreparedFrom {
			c.DeliverWhere(isType(specqbft.ProposalMsgType, specqbft.PrepareMsgType), nil)
		}
		c.DropWhere(all)
		for _, n := range c.Nodes {
			_ = c.FireTimeout(n)
		}
		c.DeliverWhere(isType(specqbft.RoundChangeMsgType), nil)
	}
	c.DeliverWhere(all, nil)
	var out []consOut
	for _, sm := range c.Seen {
		from := spectypes.OperatorID(0)
		for _, n := range c.Nodes {
			for _, o := range n.AllOut {
				if o == sm {
					from = n.ID
				}
			}
		}
		if from == 0 {
			from = sm.Signers[0]
		}
		out = append(out, consOut{sm: sm, from: from})
	}
	return out
}

// Retarget re-addresses a copy of m to validator v2 (same committee keys): the qbft identifier and message id change
// and the message is re-signed by its signer(s), so that it is an honest-looking message of v2.
func Retarget(m *Msg, v2 *Val) *Msg {
	c := m.Clone()
	c.Val = v2
	id := v2.MsgID(m.Role)
	c.SSV.MsgID = id
	if c.Cons != nil {
		c.Cons.Message.Identifier = id[:]
		for i := range c.Cons.Message.RoundChangeJustification {
			c.Cons.Message.RoundChangeJustification[i] = reidentify(v2, c.Cons.Message.RoundChangeJustification[i], id[:])
		}
		for i := range c.Cons.Message.PrepareJustification {
			c.Cons.Message.PrepareJustification[i] = reidentify(v2, c.Cons.Message.PrepareJustification[i], id[:])
		}
		Resign(v2, c.Cons)
	}
	mustNil(c.Reencode())
	return c
}

func reidentify(v *Val, enc []byte, id []byte) []byte {
	sm := &specqbft.SignedMessage{}
	if sm.Decode(enc) != nil {
		return enc
	}
	sm.Message.Identifier = id
	for i := range sm.Message.RoundChangeJustification {
		sm.Message.RoundChangeJustification[i] = reidentify(v, sm.Message.RoundChangeJustification[i], id)
	}
	Resign(v, sm)
	out, err := sm.Encode()
	if err != nil {
		return enc
	}
	return out
}

// Resign recomputes the (aggregated) BLS signature of sm for its current signer list with the committee's share keys;
// signers without a key are skipped.
func Resign(v *Val, sm *specqbft.SignedMessage) {
	var parts []*specqbft.SignedMessage
	seen := map[spectypes.OperatorID]bool{}
	for _, id := range sm.Signers {
		if v.KS.Shares[id] == nil || seen[id] {
			continue
		}
		seen[id] = true
		msg := sm.Message
		parts = append(parts, qsim.Sign(v.KS, id, &msg))
	}
	if len(parts) == 0 {
		sig := make([]byte, 96)
		sig[0] = 0xa5
		sm.Signature = sig
		return
	}
	sm.Signature = qsim.Aggregate(parts).Signature
}
