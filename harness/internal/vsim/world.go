// Package vsim is the "message-validation world" (simulator B, gate side) shared by the checks C08, C09, C18 (and a
// later C10): a real validation.MessageValidator over real operator / share storage on in-memory badger, real RSA
// operator keys, shares built from the ssv-spec testing key sets (plus unknown / liquidated / metadata-less /
// not-attesting variants), a duty store, a VIRTUAL beacon clock and both envelope phases (before / after
// PermissionlessActivationEpoch). It also generates honest message streams (consensus messages from real qsim
// executions, partial-signature messages) with a reception time chosen inside each message's slot / round window.
//
// Nothing here is an oracle: the checks bring their own.
package vsim

import (
	"context"
	"crypto"
	"crypto/rand"
	"crypto/rsa"
	"crypto/sha256"
	"crypto/x509"
	"encoding/pem"
	"errors"
	"fmt"
	"sync/atomic"
	"time"

	eth2apiv1 "github.com/attestantio/go-eth2-client/api/v1"
	"github.com/attestantio/go-eth2-client/spec/phase0"
	spectypes "github.com/bloxapp/ssv-spec/types"
	"github.com/bloxapp/ssv-spec/types/testingutils"
	"github.com/ethereum/go-ethereum/common"
	"github.com/herumi/bls-eth-go-binary/bls"
	pubsub "github.com/libp2p/go-libp2p-pubsub"
	pspb "github.com/libp2p/go-libp2p-pubsub/pb"
	"github.com/libp2p/go-libp2p/core/peer"
	"go.uber.org/zap"

	"github.com/bloxapp/ssv/message/validation"
	"github.com/bloxapp/ssv/network/commons"
	"github.com/bloxapp/ssv/networkconfig"
	operatordatastore "github.com/bloxapp/ssv/operator/datastore"
	"github.com/bloxapp/ssv/operator/duties/dutystore"
	"github.com/bloxapp/ssv/operator/keys"
	operatorstorage "github.com/bloxapp/ssv/operator/storage"
	beaconprotocol "github.com/bloxapp/ssv/protocol/v2/blockchain/beacon"
	"github.com/bloxapp/ssv/protocol/v2/ssv/queue"
	ssvtypes "github.com/bloxapp/ssv/protocol/v2/types"
	registrystorage "github.com/bloxapp/ssv/registry/storage"
	"github.com/bloxapp/ssv/storage/basedb"
	"github.com/bloxapp/ssv/storage/kv"

	"verifharness/internal/qsim"
)

// Virtual time: every slot the world uses lies around BaseEpoch of the (real) Prater slot arithmetic.
const (
	BaseEpoch     phase0.Epoch = 200_000
	SlotsPerEpoch              = 32
	SlotSeconds                = 12
	// NumOperators registered operators (ids 1..NumOperators); committees use 1..4 and 1..7, operator 8 is registered
	// but in no committee; UnregisteredOperator has a key nobody registered.
	NumOperators         = 8
	UnregisteredOperator = spectypes.OperatorID(99)
	// BadKeyOperatorA / B are REGISTERED operators whose stored public key cannot be decoded (the contract event handler
	// stores the on-chain bytes unvalidated): base64 of something that is no PEM key / not even base64.
	BadKeyOperatorA = spectypes.OperatorID(90)
	BadKeyOperatorB = spectypes.OperatorID(91)
)

var Domain = qsim.Domain

// Beacon is the virtual beacon network: the real Network arithmetic (slot <-> time, epochs, sync periods) with a
// controllable "now".
type Beacon struct {
	beaconprotocol.Network
	now atomic.Int64 // unix seconds
}

func (b *Beacon) SetNow(t time.Time) { b.now.Store(t.Unix()) }
func (b *Beacon) Now() time.Time     { return time.Unix(b.now.Load(), 0) }
func (b *Beacon) EstimatedCurrentSlot() phase0.Slot {
	return b.Network.EstimatedSlotAtTime(b.now.Load())
}
func (b *Beacon) EstimatedCurrentEpoch() phase0.Epoch {
	return b.Network.EstimatedEpochAtSlot(b.EstimatedCurrentSlot())
}

// Operator is a registered (or deliberately unregistered) operator with a real RSA key.
type Operator struct {
	ID         spectypes.OperatorID
	Priv       keys.OperatorPrivateKey // the repo's signer (what p2pNetwork.Broadcast signs with)
	PubB64     []byte                  // what is stored in the registry
	Std        *rsa.PrivateKey         // the same key as a standard-library key (for independent oracles)
	Registered bool
}

type ValKind int

const (
	Known4 ValKind = iota
	Known7
	Unknown
	Liquidated
	NoMetadata
	NotAttesting
	numKinds
)

func (k ValKind) String() string {
	return [...]string{"known4", "known7", "unknown", "liquidated", "no-metadata", "not-attesting"}[k]
}

var AllKinds = []ValKind{Known4, Known7, Unknown, Liquidated, NoMetadata, NotAttesting}

// Val is one validator of the world.
type Val struct {
	Kind  ValKind
	N     int
	KS    *testingutils.TestKeySet // committee share keys (operators 1..N)
	PK    []byte                   // 48-byte validator public key
	Share *ssvtypes.SSVShare       // what the registry holds (nil: unknown validator)
	Index phase0.ValidatorIndex
}

func (v *Val) F() int      { return (v.N - 1) / 3 }
func (v *Val) Quorum() int { return 2*v.F() + 1 }
func (v *Val) MsgID(role spectypes.BeaconRole) spectypes.MessageID {
	return spectypes.NewMsgID(Domain, v.PK, role)
}
func (v *Val) Topic() string { return commons.GetTopicFullName(commons.ValidatorTopicID(v.PK)[0]) }

// World is per child process.
type World struct {
	Logger  *zap.Logger
	DB      basedb.Database
	NS      operatorstorage.Storage
	Ops     map[spectypes.OperatorID]*Operator
	Vals    map[ValKind]*Val
	Beacon  *Beacon
	Duties  *dutystore.Store
	NetPre  networkconfig.NetworkConfig // envelope phase off (PermissionlessActivationEpoch far in the future)
	NetPost networkconfig.NetworkConfig // envelope phase on
	QEnv    *qsim.Env                   // qsim executions share the one badger instance

	streams map[string][]*Msg
	native  int
	raw     map[int]*Val
}

func mustNil(err error) {
	if err != nil {
		panic(err)
	}
}

func newOperator(id spectypes.OperatorID) *Operator {
	std, err := rsa.GenerateKey(rand.Reader, 2048)
	mustNil(err)
	pemBytes := pem.EncodeToMemory(&pem.Block{Type: "RSA PRIVATE KEY", Bytes: x509.MarshalPKCS1PrivateKey(std)})
	priv, err := keys.PrivateKeyFromBytes(pemBytes)
	mustNil(err)
	pub, err := priv.Public().Base64()
	mustNil(err)
	return &Operator{ID: id, Priv: priv, PubB64: pub, Std: std}
}

func blsPK(seed byte) []byte {
	spectypes.InitBLS()
	var sk bls.SecretKey
	b := make([]byte, 32)
	for i := range b {
		b[i] = seed + byte(i)*7
	}
	b[31] &= 0x1f
	if err := sk.SetLittleEndian(b); err != nil {
		panic(err)
	}
	return sk.GetPublicKey().Serialize()
}

// NewWorld builds the world: one in-memory badger, NumOperators+1 RSA keys, six validators. The validator key of the
// ssv-spec key sets (the SAME key in every set) is registered with the 4-operator committee (Known4); Known7 has a key
// of its own and its qsim streams are re-addressed (Retarget).
func NewWorld() *World { return NewWorldNative(4) }

// NewWorldNative(7) registers the key sets' validator key with the 7-operator committee instead (Known7 native, Known4
// re-addressed): for simulators whose real runners / controllers address that key with Testing7SharesSet (C10).
func NewWorldNative(native int) *World {
	lg := zap.NewNop()
	db, err := kv.NewInMemory(lg, basedb.Options{Ctx: context.Background()})
	mustNil(err)
	ns, err := operatorstorage.NewNodeStorage(lg, db)
	mustNil(err)
	w := &World{Logger: lg, DB: db, NS: ns, Ops: map[spectypes.OperatorID]*Operator{}, Vals: map[ValKind]*Val{},
		Duties: dutystore.New(), QEnv: &qsim.Env{DB: db, Logger: lg}, streams: map[string][]*Msg{}, native: native, raw: map[int]*Val{}}

	for id := spectypes.OperatorID(1); id <= NumOperators; id++ {
		op := newOperator(id)
		op.Registered = true
		_, err := ns.SaveOperatorData(nil, &registrystorage.OperatorData{ID: id, PublicKey: op.PubB64, OwnerAddress: common.Address{byte(id)}})
		mustNil(err)
		w.Ops[id] = op
	}
	w.Ops[UnregisteredOperator] = newOperator(UnregisteredOperator)
	for id, pk := range map[spectypes.OperatorID]string{BadKeyOperatorA: "bm90LWEtcGVtLWtleQ==", BadKeyOperatorB: "%%% not base64 %%%"} {
		_, err := ns.SaveOperatorData(nil, &registrystorage.OperatorData{ID: id, PublicKey: []byte(pk), OwnerAddress: common.Address{byte(id)}})
		mustNil(err)
	}

	w.Beacon = &Beacon{Network: beaconprotocol.NewNetwork(spectypes.PraterNetwork)}
	w.Beacon.SetNow(w.Beacon.GetSlotStartTime(w.BaseSlot()))
	base := networkconfig.TestNetwork
	base.Name = "verif"
	base.Beacon = w.Beacon
	base.Domain = Domain
	w.NetPre, w.NetPost = base, base
	w.NetPre.PermissionlessActivationEpoch = 1 << 62
	w.NetPost.PermissionlessActivationEpoch = BaseEpoch - 1000

	active := func(idx phase0.ValidatorIndex) *beaconprotocol.ValidatorMetadata {
		return &beaconprotocol.ValidatorMetadata{Status: eth2apiv1.ValidatorStateActiveOngoing, Index: idx, Balance: 32_000_000_000}
	}
	mk := func(kind ValKind, n int, pk []byte, idx phase0.ValidatorIndex, md *beaconprotocol.ValidatorMetadata, liquidated, store bool) {
		ks := qsim.KeySet(n)
		v := &Val{Kind: kind, N: n, KS: ks, PK: pk, Index: idx}
		sh := &ssvtypes.SSVShare{
			Share: spectypes.Share{
				OperatorID:      1,
				ValidatorPubKey: pk,
				SharePubKey:     ks.Shares[1].GetPublicKey().Serialize(),
				Committee:       ks.Committee(),
				Quorum:          ks.Threshold,
				PartialQuorum:   ks.PartialThreshold,
				DomainType:      Domain,
				Graffiti:        []byte("verif"),
			},
			Metadata: ssvtypes.Metadata{BeaconMetadata: md, Liquidated: liquidated, OwnerAddress: common.Address{0xaa, byte(kind)}},
		}
		if store {
			mustNil(ns.Shares().Save(nil, sh))
			v.Share = sh
		}
		w.Vals[kind] = v
	}
	pk4, pk7 := qsim.KeySet(4).ValidatorPK.Serialize(), blsPK(77)
	if native == 7 {
		pk4, pk7 = blsPK(74), qsim.KeySet(7).ValidatorPK.Serialize()
	}
	mk(Known4, 4, pk4, 1004, active(1004), false, true)
	mk(Known7, 7, pk7, 1007, active(1007), false, true)
	mk(Unknown, 4, blsPK(11), 2001, active(2001), false, false)
	mk(Liquidated, 4, blsPK(22), 2002, active(2002), true, true)
	mk(NoMetadata, 4, blsPK(33), 2003, nil, false, true)
	mk(NotAttesting, 4, blsPK(44), 2004, &beaconprotocol.ValidatorMetadata{Status: eth2apiv1.ValidatorStateExitedUnslashed, Index: 2004}, false, true)

	// duties: sync-committee membership of every validator with an index for the periods around the base epoch;
	// proposer duties are added per generated duty (AddProposerDuty).
	for _, v := range w.Vals {
		p := w.Beacon.EstimatedSyncCommitteePeriodAtEpoch(BaseEpoch)
		for d := uint64(0); d < 3; d++ {
			w.Duties.SyncCommittee.Add(p+d, v.Index, &eth2apiv1.SyncCommitteeDuty{ValidatorIndex: v.Index}, true)
		}
	}
	return w
}

func (w *World) BaseSlot() phase0.Slot { return phase0.Slot(uint64(BaseEpoch) * SlotsPerEpoch) }

// AddProposerDuty registers a proposer duty of v at slot (idempotent enough for the checks: duties are only ever added).
func (w *World) AddProposerDuty(v *Val, slot phase0.Slot) {
	ep := w.Beacon.EstimatedEpochAtSlot(slot)
	if w.Duties.Proposer.ValidatorDuty(ep, slot, v.Index) == nil {
		w.Duties.Proposer.Add(ep, slot, v.Index, &eth2apiv1.ProposerDuty{Slot: slot, ValidatorIndex: v.Index}, true)
	}
}

// Net returns the network config of an envelope phase.
func (w *World) Net(post bool) networkconfig.NetworkConfig {
	if post {
		return w.NetPost
	}
	return w.NetPre
}

// NewValidator returns a fresh real message validator (empty per-signer state) of the given envelope phase, wired like
// the node does (node storage, duty store, own operator id).
func (w *World) NewValidator(post bool, own spectypes.OperatorID) validation.MessageValidator {
	opts := []validation.Option{validation.WithNodeStorage(w.NS), validation.WithDutyStore(w.Duties)}
	if own != 0 {
		opts = append(opts, validation.WithOwnOperatorID(operatordatastore.New(&registrystorage.OperatorData{ID: own, PublicKey: w.Ops[own].PubB64})))
	}
	return validation.NewMessageValidator(w.Net(post), opts...)
}

// ---- envelopes / pubsub wrapping ---------------------------------------------------------------------------------

// EncodeSSV encodes an SSVMessage like p2pNetwork.Broadcast does (commons.EncodeNetworkMsg).
func EncodeSSV(m *spectypes.SSVMessage) []byte {
	b, err := commons.EncodeNetworkMsg(m)
	mustNil(err)
	return b
}

// SignEnvelope wraps payload like p2pNetwork.Broadcast does once signed envelopes are active.
func (w *World) SignEnvelope(payload []byte, op spectypes.OperatorID) []byte {
	sig, err := w.Ops[op].Priv.Sign(payload)
	mustNil(err)
	return commons.EncodeSignedSSVMessage(payload, op, sig)
}

// Wire returns the bytes that travel on pubsub for m sent by operator op in the given phase.
// (RSA signing costs ~1 ms: Msg.WireBytes caches per message.)
func (w *World) Wire(m *spectypes.SSVMessage, op spectypes.OperatorID, post bool) []byte {
	p := EncodeSSV(m)
	if post {
		return w.SignEnvelope(p, op)
	}
	return p
}

var fromPeer = peer.ID("16Uiu2HAkyWQyCb6reWXGQeBUt9EXArk6h3aq3PsFMwLNq3pPGH1r")

// Pubsub builds the pubsub.Message the topic validator receives.
func Pubsub(topic string, data []byte) *pubsub.Message {
	t := topic
	return &pubsub.Message{Message: &pspb.Message{Topic: &t, Data: data, From: []byte(fromPeer)}, ReceivedFrom: fromPeer}
}

// Result of one validation.
type Result struct {
	Res     pubsub.ValidationResult
	Err     error
	Decoded *queue.DecodedSSVMessage
	Desc    validation.Descriptor
}

func (r Result) Accepted() bool { return r.Res == pubsub.ValidationAccept }

// ErrText is the stable text of a validation error ("" on accept).
func (r Result) ErrText() string {
	if r.Err == nil {
		return ""
	}
	var ve validation.Error
	if errors.As(r.Err, &ve) {
		return ve.Text()
	}
	s := r.Err.Error()
	if len(s) > 60 {
		s = s[:60]
	}
	return s
}

// ValidateAt validates one pubsub message on mv with an explicit reception time (the virtual clock is moved there
// first, so that no part of the verdict depends on time.Now()).
func (w *World) ValidateAt(mv validation.MessageValidator, pm *pubsub.Message, receivedAt time.Time) Result {
	w.Beacon.SetNow(receivedAt)
	res, dec, desc, err := validation.VerifValidateP2PMessage(mv, pm, receivedAt)
	return Result{Res: res, Err: err, Decoded: dec, Desc: desc}
}

// ValidateSSVAt is the ValidateSSVMessage entry point (no topic, no envelope) with an explicit reception time.
func (w *World) ValidateSSVAt(mv validation.MessageValidator, m *spectypes.SSVMessage, receivedAt time.Time) Result {
	w.Beacon.SetNow(receivedAt)
	res, dec, desc, err := validation.VerifValidateSSVMessage(mv, m, receivedAt)
	return Result{Res: res, Err: err, Decoded: dec, Desc: desc}
}

// Peer is one receiving node: its own validator state. This is what C10 needs: ValidateBroadcast validates one
// broadcast of operator `from` at a chosen receivedAt on this peer's validator.
type Peer struct {
	W    *World
	Post bool
	Own  spectypes.OperatorID
	MV   validation.MessageValidator
}

func (w *World) NewPeer(post bool, own spectypes.OperatorID) *Peer {
	return &Peer{W: w, Post: post, Own: own, MV: w.NewValidator(post, own)}
}

// ValidateBroadcast: msg as handed to Network.Broadcast by operator `from`, published on the topic Broadcast uses,
// received by this peer at receivedAt.
func (p *Peer) ValidateBroadcast(msg *spectypes.SSVMessage, from spectypes.OperatorID, receivedAt time.Time) Result {
	topic := commons.GetTopicFullName(commons.ValidatorTopicID(msg.GetID().GetPubKey())[0])
	return p.W.ValidateAt(p.MV, Pubsub(topic, p.W.Wire(msg, from, p.Post)), receivedAt)
}

// StdVerify is an independent (standard library) check of an operator signature over payload.
func StdVerify(pub *rsa.PublicKey, payload, sig []byte) bool {
	h := sha256.Sum256(payload)
	return rsa.VerifyPKCS1v15(pub, crypto.SHA256, h[:], sig) == nil
}

func (k ValKind) GoString() string { return fmt.Sprintf("ValKind(%s)", k.String()) }
