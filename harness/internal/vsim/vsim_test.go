package vsim

import (
	"fmt"
	"testing"
	"time"

	spectypes "github.com/bloxapp/ssv-spec/types"
)

func TestSmoke(t *testing.T) {
	t0 := time.Now()
	w := NewWorld()
	fmt.Println("world", time.Since(t0))
	for _, post := range []bool{false, true} {
		for _, kind := range []ValKind{Known4, Known7, Liquidated} {
			for _, role := range AllRoles {
				for _, prof := range []Profile{{1, 0}, {3, 2}, {6, 3}, {12, 0}, {12, 2}} {
					if (prof.Target > 1 && (role != spectypes.BNRoleAttester && role != spectypes.BNRoleProposer)) || prof.Target > int(MaxRound(role)) || (prof.Target > 6 && kind != Known4) {
						continue
					}
					v := w.Vals[kind]
					t1 := time.Now()
					ms := w.Duty(v, role, w.BaseSlot()+5, prof)
					gen := time.Since(t1)
					p := w.NewPeer(post, 1)
					acc := 0
					t1 = time.Now()
					for _, m := range ms {
						r := w.ValidateAt(p.MV, m.Pubsub(w, post), m.At)
						if r.Accepted() {
							acc++
						} else if kind != Liquidated {
							fmt.Printf("   NOT ACCEPTED %s from %d at +%v: %v\n", m.Tag, m.Sender, m.At.Sub(w.Beacon.GetSlotStartTime(m.Slot)), r.Err)
						}
					}
					if !post && kind == Known4 && prof.Target == 3 {
						for _, m := range ms {
							fmt.Printf("      %s from %d +%v\n", m.Tag, m.Sender, m.At.Sub(w.Beacon.GetSlotStartTime(m.Slot)))
						}
					}
					fmt.Printf("post=%v %s role=%v prof=%s msgs=%d accepted=%d gen=%v val=%v\n", post, kind, role, prof, len(ms), acc, gen, time.Since(t1))
				}
			}
		}
	}
}
