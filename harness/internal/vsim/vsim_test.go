package vsim

import (
	"testing"

	spectypes "github.com/bloxapp/ssv-spec/types"
)

// TestSmoke: every honest stream is accepted by a fresh real validator in both envelope phases (Known4 / Known7) and
// refused for the liquidated validator. Run: go test -tags verif -overlay /verif/build/overlay/overlay.json -vet=off ./internal/vsim/
func TestSmoke(t *testing.T) {
	for _, native := range []int{4, 7} {
		w := NewWorldNative(native)
		for _, post := range []bool{false, true} {
			for _, kind := range []ValKind{Known4, Known7, Liquidated} {
				for _, role := range []spectypes.BeaconRole{spectypes.BNRoleAttester, spectypes.BNRoleProposer, spectypes.BNRoleVoluntaryExit} {
					prof := Profile{Target: 1}
					if kind == Known4 && role == spectypes.BNRoleAttester {
						prof = Profile{Target: 3, PreparedFrom: 2}
					}
					ms := w.Duty(w.Vals[kind], role, w.BaseSlot()+5, prof)
					p := w.NewPeer(post, 1)
					for _, m := range ms {
						r := w.ValidateAt(p.MV, m.Pubsub(w, post), m.At)
						if r.Accepted() != (kind != Liquidated) {
							t.Fatalf("native=%d post=%v %s %v %s from %d: accepted=%v err=%v", native, post, kind, role, m.Tag, m.Sender, r.Accepted(), r.Err)
						}
					}
				}
			}
		}
	}
}
