// Package oracle holds predicates written from the property statements, independent of the code under test.
package oracle

import (
	"bytes"
	"crypto/sha256"
	"fmt"

	specqbft "github.com/bloxapp/ssv-spec/qbft"
	spectypes "github.com/bloxapp/ssv-spec/types"
	"github.com/bloxapp/ssv-spec/types/testingutils"
	"github.com/herumi/bls-eth-go-binary/bls"
)

// SigningRoot = sha256(ssz-root(message) || domain || signature type). The SSZ hash-tree-root of the message is trusted.
func SigningRoot(msg *specqbft.Message, domain spectypes.DomainType) ([32]byte, error) {
	r, err := msg.GetRoot()
	if err != nil {
		return [32]byte{}, err
	}
	b := append([]byte{}, r[:]...)
	b = append(b, domain[:]...)
	b = append(b, spectypes.QBFTSignatureType[:]...)
	return sha256.Sum256(b), nil
}

// VerifyAggregate verifies sig over msg by exactly the listed committee members (herumi directly).
func VerifyAggregate(ks *testingutils.TestKeySet, domain spectypes.DomainType, m *specqbft.SignedMessage) error {
	root, err := SigningRoot(&m.Message, domain)
	if err != nil {
		return err
	}
	var sig bls.Sign
	if err := sig.Deserialize(m.Signature); err != nil {
		return fmt.Errorf("signature does not deserialize: %v", err)
	}
	pks := make([]bls.PublicKey, 0, len(m.Signers))
	for _, id := range m.Signers {
		sk, ok := ks.Shares[id]
		if !ok {
			return fmt.Errorf("signer %d is not a committee member", id)
		}
		pks = append(pks, *sk.GetPublicKey())
	}
	if len(pks) == 0 {
		return fmt.Errorf("no signers")
	}
	if !sig.FastAggregateVerify(pks, root[:]) {
		return fmt.Errorf("aggregate signature does not verify for signers %v", m.Signers)
	}
	return nil
}

// Certificate decides whether m is a verifiable quorum certificate for (identifier, height) in a committee of n.
func Certificate(ks *testingutils.TestKeySet, n int, domain spectypes.DomainType, identifier []byte, height specqbft.Height, m *specqbft.SignedMessage) error {
	if m == nil {
		return fmt.Errorf("nil certificate")
	}
	f := (n - 1) / 3
	if m.Message.MsgType != specqbft.CommitMsgType {
		return fmt.Errorf("type %d is not commit", m.Message.MsgType)
	}
	if m.Message.Height != height {
		return fmt.Errorf("height %d != %d", m.Message.Height, height)
	}
	if !bytes.Equal(m.Message.Identifier, identifier) {
		return fmt.Errorf("identifier mismatch")
	}
	seen := map[spectypes.OperatorID]bool{}
	for _, s := range m.Signers {
		if s == 0 {
			return fmt.Errorf("zero signer")
		}
		if seen[s] {
			return fmt.Errorf("duplicate signer %d", s)
		}
		seen[s] = true
		if _, ok := ks.Shares[s]; !ok || int(s) > n {
			return fmt.Errorf("foreign signer %d", s)
		}
	}
	if len(m.Signers) < 2*f+1 {
		return fmt.Errorf("%d signers < quorum %d", len(m.Signers), 2*f+1)
	}
	if h := sha256.Sum256(m.FullData); h != m.Message.Root {
		return fmt.Errorf("value does not hash to root")
	}
	return VerifyAggregate(ks, domain, m)
}
