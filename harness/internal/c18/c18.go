// Package c18: publisher, subscriber and validator agree on topic and envelope for every key (property C18).
//
// Call sites observed: publish = what p2pNetwork.Broadcast hands to the topics controller, subscribe = what
// p2pNetwork.Subscribe hands to it, accept = the real message validator's verdict for a pubsub.Message on a topic.
// p2pNetwork is unexported and needs a libp2p host, so the first two sites run through the verif constructor hook when
// the repo has it (see hooks/p2p_verif.go.txt; lane "sites-hook" registers itself only then). Lane "sites" always runs
// and calls the very commons functions those two methods call (commons.ValidatorTopicID on the message id's key / on
// the subscribed key, commons.GetTopicFullName like the topics controller) - that is its stated limitation.
package c18

import (
	"bytes"
	"encoding/binary"
	"encoding/hex"
	"expvar"
	"fmt"
	"math/rand"
	"strings"
	"time"

	spectypes "github.com/bloxapp/ssv-spec/types"
	"github.com/libp2p/go-libp2p/core/peer"
	"go.uber.org/zap"

	"github.com/bloxapp/ssv/message/validation"
	"github.com/bloxapp/ssv/network"
	"github.com/bloxapp/ssv/network/commons"
	_ "github.com/bloxapp/ssv/network/p2p" // links the verif hook (if the repo has it) so that it can announce itself
	"github.com/bloxapp/ssv/network/records"
	"github.com/bloxapp/ssv/network/topics"
	"github.com/bloxapp/ssv/networkconfig"
	operatordatastore "github.com/bloxapp/ssv/operator/datastore"
	"github.com/bloxapp/ssv/operator/keys"
	registrystorage "github.com/bloxapp/ssv/registry/storage"

	"verifharness/internal/evid"
	"verifharness/internal/vsim"
)

// HookVar is the expvar name under which the proposed hook (hooks/p2p_verif.go.txt) publishes its constructor.
const HookVar = "ssv_verif_p2p_network"

type newNetFn = func(topics.Controller, networkconfig.NetworkConfig, keys.OperatorSigner, operatordatastore.OperatorDataStore) network.P2PNetwork

func hook() newNetFn {
	v := expvar.Get(HookVar)
	if v == nil {
		return nil
	}
	f, ok := v.(expvar.Func)
	if !ok {
		return nil
	}
	fn, _ := f.Value().(newNetFn)
	return fn
}

const keysPerCase = 1000

func Spec() *evid.Spec {
	s := &evid.Spec{
		ID:    "C18",
		Level: "exploration",
		Rule: "lane sites: per case 1000 keys (random 48-byte keys; structured: every residue of the leading bytes, all-zero, all-ff, keys differing only after byte 5, the world's real validator keys; " +
			"malformed keys of every length 0..47): publish topic (message id built from the key), subscribe topic, accept verdict of the real validator on the own topic, on neighbouring / random other topics " +
			"and (every 64th key and every structured key) on all 128 topics; lane codec: envelope round trips (payload 0..64 KiB, operator ids 0,1,2^64-1,random, 256-byte signatures) + refusals of short inputs, " +
			"subnet vector round trips (128 single-bit, empty, full, random); lane conc (race detector): 6 goroutines call the subnet-string, topic and envelope functions on their own inputs at once, every result compared with the reference computation. non-trivial = a key whose three sites were all observed / a round trip performed; distinct = key / vector / (payload size class, id class)",
		Assumptions: []string{
			"documented mapping used as reference for the range clause: subnet = (first ten hex characters of the key as an integer) mod 128, topic = ssv.v2.<subnet>",
			"subnet strings are little-endian bit vectors (bit j of byte i = subnet 8i+j), as the ENR entry of the network",
			"a spectypes.MessageID always carries 48 key bytes: a malformed shorter key reaches the publish / accept sites zero padded; only Subscribe sees its true length (keys shorter than 5 bytes: observation counter, no verdict)",
			"lane sites calls the commons functions p2pNetwork.Broadcast / Subscribe call, not the methods themselves (unexported type, needs a libp2p host); lane sites-hook (present only with the proposed hook) calls the methods",
		},
		MinNontrivial: 1000,
		Lanes: []evid.Lane{
			{Name: "sites", Children: evid.Const(16, 16), Cases: evid.Const(130, 1300), TimeoutS: evid.Const(900, 7200), Setup: setup, Run: runSites(false)},
			{Name: "codec", Children: evid.Const(16, 16), Cases: evid.Const(700, 7000), TimeoutS: evid.Const(600, 3600), Run: runCodec},
			{Name: "conc", Race: true, Children: evid.Const(8, 16), Cases: evid.Const(40, 600), TimeoutS: evid.Const(600, 3600), Run: runConc},
		},
	}
	if hook() != nil {
		s.Lanes = append(s.Lanes, evid.Lane{Name: "sites-hook", Children: evid.Const(16, 16), Cases: evid.Const(40, 400), TimeoutS: evid.Const(900, 7200), Setup: setup, Run: runSites(true)})
	}
	return s
}

// ---- environment -----------------------------------------------------------------------------------------------------

type env struct {
	w        *vsim.World
	mv       [2]validation.MessageValidator
	topicSet map[string]int // commons.Topics(): full name -> index
	topics   []string
	honest   []*vsim.Msg
	// hook lane
	rec    *recCtrl
	ods    operatordatastore.OperatorDataStore
	newNet newNetFn
}

// net returns a fresh real p2pNetwork (ready state) around the recording controller. A fresh one per key: the
// network's activeValidators map (cornelk/hashmap v1.0.8) spins forever in GetOrInsert when a key is inserted again
// after having been deleted, i.e. Subscribe -> Unsubscribe -> Subscribe of one validator key never returns (observed
// with this lane, reproduced in isolation; not a C18 matter, reported separately).
func (e *env) net(post bool) network.P2PNetwork {
	return e.newNet(e.rec, e.w.Net(post), e.w.Ops[1].Priv, e.ods)
}

// recCtrl is the recording topics.Controller injected into the real p2pNetwork: it resolves names exactly like the real
// controller (commons.GetTopicFullName) and records them.
type recCtrl struct {
	subscribed, unsubscribed, published []string
	data                                [][]byte
}

func (r *recCtrl) reset() { *r = recCtrl{} }
func (r *recCtrl) Subscribe(_ *zap.Logger, name string) error {
	r.subscribed = append(r.subscribed, commons.GetTopicFullName(name))
	return nil
}
func (r *recCtrl) Unsubscribe(_ *zap.Logger, name string, _ bool) error {
	r.unsubscribed = append(r.unsubscribed, commons.GetTopicFullName(name))
	return nil
}
func (r *recCtrl) Peers(string) ([]peer.ID, error) { return nil, nil }
func (r *recCtrl) Topics() []string                { return nil }
func (r *recCtrl) Broadcast(name string, data []byte, _ time.Duration) error {
	r.published = append(r.published, commons.GetTopicFullName(name))
	r.data = append(r.data, data)
	return nil
}
func (r *recCtrl) Close() error { return nil }

func setup(ch *evid.Child) {
	w := vsim.NewWorld()
	e := &env{w: w, topicSet: map[string]int{}}
	e.mv[0] = w.NewValidator(false, 1)
	e.mv[1] = w.NewValidator(true, 1)
	e.topics = commons.Topics()
	for i, t := range e.topics {
		e.topicSet[t] = i
	}
	for _, kind := range vsim.AllKinds {
		e.honest = append(e.honest, w.Duty(w.Vals[kind], spectypes.BNRoleAttester, w.BaseSlot()+3, vsim.Profile{Target: 1})...)
	}
	if fn := hook(); fn != nil {
		e.rec = &recCtrl{}
		e.ods = operatordatastore.New(&registrystorage.OperatorData{ID: 1, PublicKey: w.Ops[1].PubB64})
		e.newNet = fn
	}
	ch.Data = e
}

// refTopic is the oracle's own reading of the documented mapping.
func refTopic(key []byte) (string, int) {
	if len(key) < 5 {
		return "", -1
	}
	v := uint64(key[0])<<32 | uint64(key[1])<<24 | uint64(key[2])<<16 | uint64(key[3])<<8 | uint64(key[4])
	n := int(v % 128)
	return fmt.Sprintf("ssv.v2.%d", n), n
}

func guard(c *evid.Case, site string, key []byte, fn func()) (ok bool) {
	defer func() {
		if r := recover(); r != nil {
			ok = false
			c.Violation("panic", site, fmt.Sprintf("%s panicked for key %x: %v", site, key, r), map[string]any{"site": site, "key": hex.EncodeToString(key), "panic": fmt.Sprint(r)})
		}
	}()
	fn()
	return true
}

// genKey: seed-determined key for position i of a case.
func genKey(c *evid.Case, e *env, i int) (key []byte, class string) {
	rng := c.Rng
	global := c.Index*keysPerCase + i
	switch {
	case c.Index == 0 && i < 128*3:
		// every residue of the leading bytes mod 128, in three byte positions
		key = make([]byte, 48)
		rng.Read(key)
		switch i / 128 {
		case 0:
			key[4] = byte(i % 128) // residue carried by the last of the five bytes
		case 1:
			key[4] = byte(128 + i%128)
		default:
			key[0], key[1], key[2], key[3], key[4] = 0xff, 0xff, 0xff, 0xff, byte(i%128)*2+1
		}
		return key, "residue"
	case c.Index == 0 && i < 128*3+2:
		key = bytes.Repeat([]byte{[]byte{0x00, 0xff}[i-128*3]}, 48)
		return key, "uniform"
	case c.Index == 0 && i < 128*3+2+len(vsim.AllKinds):
		return append([]byte(nil), e.w.Vals[vsim.AllKinds[i-128*3-2]].PK...), "world-validator"
	case c.Index == 1 && i < 48*4:
		// malformed: every length 0..47 (four samples each)
		key = make([]byte, i%48)
		rng.Read(key)
		if i >= 48*2 {
			for j := range key {
				key[j] = []byte{0x00, 0xff}[(i/48)%2]
			}
		}
		return key, "short"
	case global%16 == 3:
		// differs from a fixed key only after byte 5: must map like it
		key = make([]byte, 48)
		rng.Read(key)
		copy(key[:5], []byte{0x8e, 0x80, 0x06, 0x65, 0x51})
		return key, "tail-only"
	}
	key = make([]byte, 48)
	rng.Read(key)
	return key, "random"
}

func runSites(useHook bool) func(c *evid.Case) {
	return func(c *evid.Case) {
		e := c.Child.Data.(*env)
		w := e.w
		rng := c.Rng
		tailTopic := ""
		for i := 0; i < keysPerCase; i++ {
			key, class := genKey(c, e, i)
			c.Journal("key %x", key)
			c.Count("keys/"+class, 1)
			c.AddEvaluations(1)
			post := rng.Intn(256) == 0
			role := vsim.AllRoles[rng.Intn(len(vsim.AllRoles))]
			var msg *spectypes.SSVMessage
			var wire []byte
			at := w.Beacon.GetSlotStartTime(w.BaseSlot() + 3).Add(time.Second)
			if class == "world-validator" {
				for _, m := range e.honest {
					if bytes.Equal(m.Val.PK, key) && m.Cons != nil {
						msg, at = m.SSV, m.At
						break
					}
				}
			}
			if msg == nil {
				msg = &spectypes.SSVMessage{MsgType: spectypes.SSVConsensusMsgType, MsgID: spectypes.NewMsgID(vsim.Domain, key, role), Data: []byte{1, 2, 3}}
			}
			padded := msg.GetID().GetPubKey() // what a message id can carry of the key

			// --- publish site
			var pub []string
			var pnet network.P2PNetwork
			if useHook {
				pnet = e.net(post)
				e.rec.reset()
				if !guard(c, "p2pNetwork.Broadcast", key, func() {
					if err := pnet.Broadcast(msg); err != nil {
						c.Violation("site-error", "p2pNetwork.Broadcast", fmt.Sprintf("Broadcast failed for key %x: %v", key, err), nil)
					}
				}) {
					continue
				}
				pub = e.rec.published
				if len(e.rec.data) > 0 {
					wire = e.rec.data[0]
				}
			} else {
				if !guard(c, "publish:commons.ValidatorTopicID", key, func() {
					for _, t := range commons.ValidatorTopicID(msg.GetID().GetPubKey()) { // as in p2pNetwork.Broadcast
						pub = append(pub, commons.GetTopicFullName(t)) // as in topicsCtrl.Broadcast
					}
				}) {
					continue
				}
				wire = w.Wire(msg, 1, post)
			}
			// --- subscribe site
			var sub []string
			if useHook {
				e.rec.reset()
				if !guard(c, "p2pNetwork.Subscribe", key, func() {
					if err := pnet.Subscribe(key); err != nil {
						c.Violation("site-error", "p2pNetwork.Subscribe", fmt.Sprintf("Subscribe failed for key %x: %v", key, err), nil)
					}
					_ = pnet.Unsubscribe(zap.NewNop(), key)
				}) {
					continue
				}
				sub = e.rec.subscribed
				if fmt.Sprint(e.rec.unsubscribed) != fmt.Sprint(sub) {
					c.Count("observation/unsubscribe_topic_differs_from_subscribe_topic", 1) // outside the statement
				}
			} else {
				if !guard(c, "subscribe:commons.ValidatorTopicID", key, func() {
					for _, t := range commons.ValidatorTopicID(key) { // as in p2pNetwork.subscribe
						sub = append(sub, commons.GetTopicFullName(t)) // as in topicsCtrl.Subscribe
					}
				}) {
					continue
				}
			}
			wit := func() map[string]any {
				return map[string]any{"key": hex.EncodeToString(key), "publish": pub, "subscribe": sub, "phase_post": post}
			}
			if len(pub) != 1 || len(sub) != 1 {
				c.Violation("topic-count", "publish/subscribe", fmt.Sprintf("key %x: %d publish topics, %d subscribe topics (one each expected)", key, len(pub), len(sub)), wit())
				continue
			}
			short := len(key) < 48
			if pub[0] != sub[0] {
				if short && len(key) < 5 {
					// only Subscribe sees the true length of a malformed key; publish / accept see it zero padded
					c.Count("observation/short_key(<5 bytes)_subscribes_"+strings.TrimPrefix(sub[0], "ssv.v2.")+"_but_padded_message_id_publishes_on_a_numbered_subnet", 1)
				} else {
					c.Violation("topic-disagreement", "publish-vs-subscribe/"+class, fmt.Sprintf("key %x: published on %q, subscribed to %q", key, pub[0], sub[0]), wit())
					continue
				}
			}
			// --- accept site: own topic must not be refused as a wrong topic, every other topic must be
			accept := func(topic string) (string, bool) {
				var r vsim.Result
				ok := guard(c, "accept:validateP2PMessage", key, func() { r = w.ValidateAt(e.mv[b2i(post)], vsim.Pubsub(topic, wire), at) })
				return r.ErrText(), ok
			}
			own, ok := accept(pub[0])
			if !ok {
				continue
			}
			c.Count("accept_calls", 1)
			if own == "topic not found" {
				c.Violation("topic-disagreement", "accept-vs-publish/"+class, fmt.Sprintf("key %x: the validator refuses the message as wrong-topic on %q, the topic it is published on", key, pub[0]), wit())
				continue
			}
			c.Count("own_topic_result/"+orAccept(own), 1)
			if class == "world-validator" && bytes.Equal(key, w.Vals[vsim.Known4].PK) && own != "" {
				c.Violation("honest-not-accepted", "known4", fmt.Sprintf("honest message of the known validator not accepted on its own topic: %s", own), wit())
			}
			var others []string
			if class != "random" || (c.Index*keysPerCase+i)%64 == 0 {
				others = e.topics
				c.Count("keys_checked_on_all_128_topics", 1)
			} else {
				idx := e.topicSet[pub[0]]
				others = []string{e.topics[(idx+1)%128], e.topics[(idx+127)%128], e.topics[rng.Intn(128)], e.topics[(idx+64)%128]}
			}
			bad := false
			for _, t := range others {
				if t == pub[0] {
					continue
				}
				txt, ok := accept(t)
				c.Count("accept_calls", 1)
				if ok && txt != "topic not found" {
					c.Violation("wrong-topic-accepted", "accept/"+class, fmt.Sprintf("key %x (own topic %q): on topic %q the validator answers %q instead of refusing the topic", key, pub[0], t, orAccept(txt)), wit())
					bad = true
					break
				}
			}
			if bad {
				continue
			}
			// --- range clause (real validator keys) against the documented mapping
			if !short {
				ref, n := refTopic(padded)
				if _, member := e.topicSet[pub[0]]; !member || n < 0 || n >= 128 {
					c.Violation("topic-out-of-range", class, fmt.Sprintf("key %x: topic %q is not one of the %d advertised topics", key, pub[0], len(e.topics)), wit())
					continue
				}
				if ref != pub[0] {
					c.Violation("topic-mapping", class, fmt.Sprintf("key %x: topic %q, documented mapping (first ten hex characters mod 128) gives %q", key, pub[0], ref), wit())
					continue
				}
				c.Distinct("subnets_hit", evid.Hash(pub[0]))
				if class == "tail-only" {
					if tailTopic == "" {
						tailTopic = pub[0]
					} else if tailTopic != pub[0] {
						c.Violation("topic-mapping", "tail-only", fmt.Sprintf("keys differing only after byte 5 map to %q and %q", tailTopic, pub[0]), wit())
					}
				}
			} else if len(key) >= 5 {
				if ref, _ := refTopic(key); ref != sub[0] {
					c.Violation("topic-mapping", "short", fmt.Sprintf("malformed key %x (>= 5 bytes): subscribed to %q, documented mapping gives %q", key, sub[0], ref), wit())
					continue
				}
			}
			// --- envelope at the real call site (hook lane, envelope phase): what Broadcast produced must unwrap to the message
			if useHook && post {
				pl, id, sig, err := commons.DecodeSignedSSVMessage(wire)
				if err != nil || id != 1 || !bytes.Equal(pl, vsim.EncodeSSV(msg)) || !vsim.StdVerify(&w.Ops[1].Std.PublicKey, pl, sig) {
					c.Violation("envelope-mismatch", "p2pNetwork.Broadcast", fmt.Sprintf("key %x: the bytes Broadcast published do not unwrap to (message, own operator id, valid signature): err=%v id=%d", key, err, id), wit())
				}
				c.Count("hook_envelopes_checked", 1)
			}
			c.Count("keys_agreeing", 1)
			c.Nontrivial(evid.Hash("key", key))
			if i == 0 && c.Index < 2 && c.Idx == 0 {
				c.Sample(wit())
			}
		}
	}
}

func orAccept(s string) string {
	if s == "" {
		return "accept"
	}
	return s
}

func b2i(b bool) int {
	if b {
		return 1
	}
	return 0
}

// ---- codec lane -------------------------------------------------------------------------------------------------------

func runCodec(c *evid.Case) {
	rng := c.Rng
	// (1) envelope round trips
	for k := 0; k < 24; k++ {
		var n int
		switch rng.Intn(8) {
		case 0:
			n = 0
		case 1:
			n = 1 + rng.Intn(8)
		case 2:
			n = 65536 - rng.Intn(3)
		case 3:
			n = 255 + rng.Intn(20)
		default:
			n = rng.Intn(65537)
		}
		if c.Index == 0 && c.Idx == 0 && k < 3 {
			n = []int{0, 65536, 1}[k]
		}
		payload := make([]byte, n)
		rng.Read(payload)
		ids := []uint64{0, 1, 1<<64 - 1, rng.Uint64(), uint64(rng.Intn(1000))}
		idc := rng.Intn(len(ids))
		id := ids[idc]
		sig := make([]byte, 256)
		rng.Read(sig)
		switch rng.Intn(10) {
		case 0:
			sig = make([]byte, 256)
		case 1:
			for i := range sig {
				sig[i] = 0xff
			}
		}
		c.Journal("envelope payload=%d id=%d sig=%x", n, id, sig[:8])
		var enc, m2, s2 []byte
		var id2 uint64
		var err error
		ok := guard(c, "EncodeSignedSSVMessage/DecodeSignedSSVMessage", payload[:imin(n, 16)], func() {
			enc = commons.EncodeSignedSSVMessage(payload, id, sig)
			m2, id2, s2, err = commons.DecodeSignedSSVMessage(enc)
		})
		if !ok {
			continue
		}
		c.Count("envelope_round_trips", 1)
		wit := map[string]any{"payload_len": n, "id": id, "sig_head": hex.EncodeToString(sig[:16])}
		if err != nil || !bytes.Equal(m2, payload) || id2 != id || !bytes.Equal(s2, sig) {
			c.Violation("envelope-roundtrip", "decode(encode(m,id,sig))", fmt.Sprintf("payload %d bytes, id %d: decoded (payload equal=%v, id=%d, signature equal=%v, err=%v)", n, id, bytes.Equal(m2, payload), id2, bytes.Equal(s2, sig), err), wit)
			continue
		}
		// the wire layout itself (what every other implementation parses): signature | little-endian id | payload
		if len(enc) != 264+n || !bytes.Equal(enc[:256], sig) || binary.LittleEndian.Uint64(enc[256:264]) != id || !bytes.Equal(enc[264:], payload) {
			c.Violation("envelope-layout", "encode", fmt.Sprintf("payload %d bytes, id %d: encoding is not signature(256) | id(8, little endian) | payload", n, id), wit)
			continue
		}
		sc := "mid"
		switch {
		case n == 0:
			sc = "0"
		case n < 16:
			sc = "tiny"
		case n >= 65534:
			sc = "64KiB"
		}
		c.Distinct("envelope_classes", evid.Hash(sc, idc))
		c.Nontrivial(evid.Hash("env", payload, id, sig))
	}
	// (2) inputs shorter than the header are refused, no panic
	for k := 0; k < 6; k++ {
		n := rng.Intn(264)
		if c.Index < 264 && k == 0 {
			n = c.Index
		}
		b := make([]byte, n)
		rng.Read(b)
		c.Journal("short envelope %x", b)
		var err error
		var m []byte
		if guard(c, "DecodeSignedSSVMessage(short)", b[:imin(n, 16)], func() { m, _, _, err = commons.DecodeSignedSSVMessage(b) }) {
			c.Count("short_envelopes", 1)
			if err == nil {
				c.Violation("short-envelope-accepted", "DecodeSignedSSVMessage", fmt.Sprintf("%d-byte input (header is 264 bytes) decoded without error, payload %d bytes", n, len(m)), map[string]any{"input": hex.EncodeToString(b)})
			} else {
				c.Distinct("short_lengths", evid.Hash(n))
			}
		}
	}
	// (3) subnet vectors
	for k := 0; k < 10; k++ {
		vec := make([]byte, 128)
		class := "random"
		gi := c.Index*10 + k
		switch {
		case c.Idx == 0 && gi < 128:
			vec[gi] = 1
			class = "single-bit"
		case c.Idx == 0 && gi == 128:
			class = "empty"
		case c.Idx == 0 && gi == 129:
			for i := range vec {
				vec[i] = 1
			}
			class = "full"
		default:
			dens := rng.Intn(9)
			for i := range vec {
				if rng.Intn(8) < dens {
					vec[i] = 1
				}
			}
		}
		c.Journal("subnets %x", vec)
		var s string
		var back records.Subnets
		var err error
		if !guard(c, "Subnets.String/FromString", vec[:16], func() {
			s = records.Subnets(vec).String()
			back, err = records.Subnets{}.FromString(s)
		}) {
			continue
		}
		c.Count("subnet_round_trips/"+class, 1)
		wit := map[string]any{"vector": hex.EncodeToString(vec), "string": s, "back": hex.EncodeToString(back)}
		if err != nil || !bytes.Equal(back, vec) {
			c.Violation("subnets-roundtrip", class, fmt.Sprintf("FromString(String(v)) != v for v=%x: string %q, back %x, err %v", vec, s, []byte(back), err), wit)
			continue
		}
		// reference encoding: 16 bytes, bit j of byte i = subnet 8i+j, lower-case hex
		ref := make([]byte, 16)
		for i, b := range vec {
			if b > 0 {
				ref[i/8] |= 1 << uint(i%8)
			}
		}
		if s != hex.EncodeToString(ref) {
			c.Violation("subnets-encoding", class, fmt.Sprintf("String() of %x is %q, little-endian bit vector is %q", vec, s, hex.EncodeToString(ref)), wit)
			continue
		}
		// and with the optional 0x prefix the handshake / ENR paths tolerate
		if b2, err := (records.Subnets{}).FromString("0x" + s); err != nil || !bytes.Equal(b2, vec) {
			c.Violation("subnets-roundtrip", class+"/0x", fmt.Sprintf("FromString(\"0x\"+String(v)) != v for v=%x", vec), wit)
			continue
		}
		c.Distinct("subnet_vectors", evid.Hash(vec))
		c.Nontrivial(evid.Hash("subnets", vec))
	}
}

var _ = rand.Int

func imin(a, b int) int {
	if a < b {
		return a
	}
	return b
}
