package c18

import (
	"bytes"
	"encoding/hex"
	"fmt"
	"sync"

	"github.com/bloxapp/ssv/network/commons"
	"github.com/bloxapp/ssv/network/records"
	"verifharness/internal/evid"
)

// lane conc: the mapping and codec functions are called from many goroutines of a running node at once (metadata updates,
// connection handshakes, logging, the publisher and the validator). Each goroutine owns its inputs; the expected results
// come from the independent reference computations (little-endian bit vector, documented key -> subnet -> topic mapping,
// fixed-offset envelope layout), so a result that depends on what another goroutine is doing shows as a difference. The
// lane runs under the race detector; every race report is a violation too.
func runConc(c *evid.Case) {
	rng := c.Rng
	const G = 6
	type job struct {
		vec     []byte
		vecStr  string
		key     []byte
		topic   string
		subnet  string
		payload []byte
		id      uint64
		sig     []byte
	}
	jobs := make([][]job, G)
	for g := 0; g < G; g++ {
		for k := 0; k < 8; k++ {
			j := job{vec: make([]byte, 128), key: make([]byte, 48), sig: make([]byte, 256), id: rng.Uint64()}
			dens := rng.Intn(9)
			for i := range j.vec {
				if rng.Intn(8) < dens {
					j.vec[i] = 1
				}
			}
			ref := make([]byte, 16)
			for i, b := range j.vec {
				if b > 0 {
					ref[i/8] |= 1 << uint(i%8)
				}
			}
			j.vecStr = hex.EncodeToString(ref)
			rng.Read(j.key)
			var sn int
			j.topic, sn = refTopic(j.key)
			j.subnet = fmt.Sprint(sn)
			j.payload = make([]byte, rng.Intn(2048))
			rng.Read(j.payload)
			rng.Read(j.sig)
			jobs[g] = append(jobs[g], j)
		}
	}
	c.Journal("conc %d goroutines x %d inputs", G, len(jobs[0]))
	type diff struct{ site, detail string }
	var mu sync.Mutex
	var diffs []diff
	var calls int64
	note := func(site, detail string) {
		mu.Lock()
		if len(diffs) < 8 {
			diffs = append(diffs, diff{site, detail})
		}
		mu.Unlock()
	}
	iters := 60
	var wg sync.WaitGroup
	start := make(chan struct{})
	for g := 0; g < G; g++ {
		wg.Add(1)
		go func(g int) {
			defer wg.Done()
			defer func() {
				if r := recover(); r != nil {
					note("panic", fmt.Sprint(r))
				}
			}()
			<-start
			n := int64(0)
			for it := 0; it < iters; it++ {
				for _, j := range jobs[g] {
					s := records.Subnets(j.vec).String()
					if s != j.vecStr {
						note("Subnets.String", fmt.Sprintf("String() of %x returned %q while other goroutines encoded other vectors; its little-endian bit vector is %q", j.vec, s, j.vecStr))
					}
					back, err := records.Subnets{}.FromString(j.vecStr)
					if err != nil || !bytes.Equal(back, j.vec) {
						note("Subnets.FromString", fmt.Sprintf("FromString(%q) returned %x err=%v, expected %x", j.vecStr, []byte(back), err, j.vec))
					}
					ts := commons.ValidatorTopicID(j.key)
					if len(ts) != 1 || ts[0] != j.subnet {
						note("ValidatorTopicID", fmt.Sprintf("key %x: %v, expected [%s]", j.key, ts, j.subnet))
					} else if full := commons.GetTopicFullName(ts[0]); full != j.topic || commons.GetTopicBaseName(full) != j.subnet {
						note("GetTopicFullName/GetTopicBaseName", fmt.Sprintf("key %x: full(%s) = %s, base(full) = %s", j.key, j.subnet, full, commons.GetTopicBaseName(full)))
					}
					enc := commons.EncodeSignedSSVMessage(j.payload, j.id, j.sig)
					m2, id2, s2, err := commons.DecodeSignedSSVMessage(enc)
					if err != nil || !bytes.Equal(m2, j.payload) || id2 != j.id || !bytes.Equal(s2, j.sig) {
						note("EncodeSignedSSVMessage/DecodeSignedSSVMessage", fmt.Sprintf("payload %d bytes id %d: round trip differs (err=%v)", len(j.payload), j.id, err))
					}
					n += 4
				}
			}
			mu.Lock()
			calls += n
			mu.Unlock()
		}(g)
	}
	close(start)
	wg.Wait()
	c.Count("concurrent_site_calls", calls)
	c.Count("concurrent_runs", 1)
	seen := map[string]bool{}
	for _, d := range diffs {
		if seen[d.site] {
			continue
		}
		seen[d.site] = true
		c.Violation("result-depends-on-concurrent-callers", d.site, d.detail, map[string]any{"goroutines": G})
	}
	if len(diffs) == 0 {
		c.Nontrivial(evid.Hash("conc", c.Idx, c.Index))
		c.Distinct("concurrent_runs", evid.Hash(c.Idx, c.Index))
	}
}
