#!/bin/bash
# run once after a fresh restore, offline: generate the overlay + go.mod and pre-build both harness binaries
set -e
cd /verif
. lib/env.sh
mkdir -p "$BUILD/bin" evidence
gen_overlay
gen_gomod
(cd harness && go build -tags verif -overlay "$OVERLAY" -o "$BUILD/bin/verif" ./cmd/verif)
(cd harness && go build -tags verif -overlay "$OVERLAY" -race -o "$BUILD/bin/verif.race" ./cmd/verif)
echo setup ok
